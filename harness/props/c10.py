"""C10 — hardware switch-to-coil rules match the enabled devices exactly."""
import os
import re

from vlib import Suite, zlist, zlit, coqlist, blit

ID = "C10"
READY = True
RULE = ("hist: a generated machine (1-2 flippers over all wiring variants single/dual wound x EOS x software EOS "
        "repulse x ball search, 0-2 autofire coils and 0-1 kickbacks with/without coil_pulse_delay and timeout "
        "protection, shared switches, default or overridden control events) on the virtual platform, 20% of them with "
        "the platform's overwrite assertion switched off (FAST/OPP-like silent overwrite), then 8-45 ops "
        "from Enable/Disable/SwFlip/SwRelease/BallSearch/Ev(lifecycle and custom events)/SwOn/SwOff/Advance incl. "
        "hit bursts that trip the timeout protection and button/EOS sequences that trigger a software repulse; after "
        "EVERY op the platform rule table, device enabled flags, all coil states, PSU handlers, EOS-manager flags, "
        "pending re-enable delays and the recorded set_*_rule/clear_hw_rule calls are compared with the model. "
        "non-trivial = at least one op that re-enables/re-disables an already enabled/disabled device or a timeout "
        "trip or a lifecycle-off event while some coil is energised; distinct by case hash.  8% of the histories are "
        "the 'handover' class: two flippers on the same button and coil(s), never enabled together, one event "
        "disables one and enables the other (handler priorities decide whether a rule is overwritten), half of them "
        "on the overwriting platform (a wrong order is then a MISSING rule of an enabled flipper).  "
        "game: REAL games on smart_virtual (game mode, trough+launcher, the real tilt mode, 2 flippers, 2 autofires): "
        "Start/Advance/Tilt/TiltWarn/SlamTilt/tilt_event/Drain/end_game/sw_flip/switch hits, the real "
        "ServiceController.start_service()/stop_service() (game stopped without ball_will_end, machine reset), "
        "with queue handlers that HOLD ball_starting / ball_ending so that tilts arrive before a ball is in play, "
        "during ball ending and between balls.  Correspondence: every lifecycle event the machine dispatched "
        "(game_*/player_turn_*/ball_*/tilt/slam_tilt/tilt_clear/service_mode_*), in order, is fed to the lifecycle "
        "automaton of coq/C10/Life.v composed with the device model; compared after EVERY event and step: trace "
        "accepted, ball-in-play flag = (game and balls_in_play > 0), tilted flag = game.tilted, rule table, enabled "
        "flags, coil states.  Oracle after every step: tilted or no ball in play or no game => no "
        "flipper/autofire rule, no enabled device, no energised flipper coil. non-trivial = a tilt was accepted or a "
        "queue was held")
TRUSTED_BASE = [
    "Coq 8.16.1 kernel (coqc), vm_compute for evaluating the model in the correspondence run; no native_compute",
    "axioms: none (every Print Assumptions is 'Closed under the global context')",
    "hand-written model coq/C10/Model.v (devices, platform controller, virtual platform) and coq/C10/Life.v (game "
    "lifecycle automaton: event order of game.py, tilt/tilt_clear/slam_tilt of tilt.py, service start/stop) tied to the "
    "working tree by correspondence: harness/props/c10.py drives real Flipper/AutofireCoil/Kickback devices on a booted "
    "machine (suite hist) and real games (suite game) and the model with the same ops / the observed lifecycle events",
    "translator translate() in harness/props/c10.py: default enable/disable events of flippers:/autofire_coils:/"
    "kickbacks: in mpf/config_spec.yaml and the lifecycle event names (checked to be posted by game.py / tilt.py / "
    "service_controller.py) -> coq/C10/gen/Wiring.v (fail-closed line parser)",
    "virtual platform is the observed hardware: VirtualHardwarePlatform.rules and VirtualDriver.state; a 6-line stub "
    "for set_delayed_pulse_on_hit_rule is added to the platform instance by the harness (virtual.py has none); the "
    "'overwriting platform' is the same object with _assert_rule_does_not_exist replaced by a no-op",
    "event dispatch order by handler priority (C01), DelayManager/asyncio timers (C13) and timed switch handlers "
    "(C03) are modelled, validated here only on the schedules generated",
    "game suite: the lifecycle position of an event is the start of its dispatch, the device observation is taken by "
    "the last handler of the event (or, when a handler holds the queue event, when the next lifecycle event starts / "
    "the step ends); slam_tilt is observed together with the tilt event that the same call posts",
]
ASSUMPTIONS = [
    "well-formed configuration [wf]: the (switch, coil) keys of all rules of all devices are pairwise distinct (a coil "
    "belongs to one device; a flipper's EOS switch differs from its button) - otherwise virtual.py's overwrite "
    "assertion is the expected outcome; OR [swap_safe] (theorem handover_rules_equal_enabled_devices): devices that "
    "share a key are flippers, every event enabling one of them disables the other, no direct enable() of them",
    "coil theorems [wfc]: main and hold coils of all flippers are pairwise different drivers",
    "lifecycle theorems: the device is [ball_scoped] (ball_will_end and service_mode_entered disable it, no lifecycle "
    "event other than ball_started enables it - proved for the default wiring) and outside a ball nothing from "
    "outside the game asks it to enable (no enable() call, no custom enable event); a game mode stopped by anything "
    "other than its own end or service mode is not modelled",
    "tilt: tilt_in_ball_ends_ball assumes tilts accepted while Game._run_ball runs a ball; without it the statement is "
    "refuted (tilt_between_balls_sticks_refuted = known finding tilt-accepted-between-balls-sticks)",
    "game suite: all instants on the 1/8 s grid; observations are taken after every lifecycle event and after the "
    "machine has run 125 ms without input; game.balls_in_play drops a moment before ball_will_end is posted: at a "
    "tilt/tilt_clear dispatched in that window the ball-in-play flag is not compared",
    "use_eos implies an eos_switch; platform supports every rule kind used (delayed pulse stubbed on virtual)",
    "ops happen on whole seconds and every configured duration has a distinct non-zero 125 ms residue, so no two "
    "timers and no timer and op coincide (asyncio gives no order for equal deadlines)",
    "cases in which a software EOS manager is created while the EOS switch has already been closed for longer than "
    "eos_active_ms_before_repulse are run and checked by the oracle but not fed to the model (that catch-up branch of "
    "add_switch_handler_obj is C03's recorded ms/seconds defect)",
    "ball search: the model's BallSearch op invokes one registered callback at an arbitrary moment (a superset of what "
    "BallSearch._run can do to the devices); the phase/iteration scheduler of ball_search.py itself is not modelled",
]

KINDS = {"pulse_on_hit": 0, "pulse_on_hit_and_enable_and_release": 1, "pulse_on_hit_and_release": 2,
         "pulse_on_hit_and_release_and_disable": 3, "pulse_on_hit_and_enable_and_release_and_disable": 4,
         "delayed_pulse_on_hit": 5}
LIFECYCLE_OFF = ["ball_will_end", "service_mode_entered"]
EVENT_POOL = ["ball_started", "ball_will_end", "service_mode_entered", "ev_a", "ev_b", "ev_c"]


# ------------------------------------------------------------------------------------------------
# (T) default wiring from config_spec.yaml
def _spec_section(text, name):
    m = re.search(r"^%s:\n((?:(?:    .*)?\n)+)" % re.escape(name), text, re.M)
    if not m:
        raise ValueError("translate:config_spec.yaml:%s: section not found" % name)
    out = {}
    for line in m.group(1).splitlines():
        if not line.strip():
            continue
        mm = re.match(r"^    ([A-Za-z_][A-Za-z0-9_]*): (.*)$", line)
        if not mm:
            raise ValueError("translate:config_spec.yaml:%s: unsupported line %r" % (name, line))
        out[mm.group(1)] = mm.group(2).strip()
    return out


def _default_events(sec, name, key):
    if key not in sec:
        raise ValueError("translate:config_spec.yaml:%s.%s missing" % (name, key))
    parts = sec[key].split("|")
    if len(parts) != 3 or parts[0] != "event_handler" or parts[1] != "event_handler:ms":
        raise ValueError("translate:config_spec.yaml:%s.%s: unexpected type %r" % (name, key, sec[key]))
    d = parts[2].strip()
    if d in ("None", ""):
        return []
    evs = [e.strip() for e in d.split(",")]
    for e in evs:
        if not re.match(r"^[a-z][a-z0-9_]*$", e):
            raise ValueError("translate:config_spec.yaml:%s.%s: unsupported default %r" % (name, key, d))
    return evs


def spec_defaults(repo):
    text = open(os.path.join(repo, "mpf", "config_spec.yaml")).read()
    res = {}
    for name in ("flippers", "autofire_coils", "kickbacks"):
        sec = _spec_section(text, name)
        res[name] = (_default_events(sec, name, "enable_events"), _default_events(sec, name, "disable_events"))
    fl = _spec_section(text, "flippers")
    for k in ("sw_flip_events", "sw_release_events"):
        if _default_events(fl, "flippers", k):
            raise ValueError("translate:config_spec.yaml:flippers.%s has a default; the model assumes none" % k)
    return res


# lifecycle events of coq/C10/Life.v and the source file that must post them (fail-closed: a renamed or removed event
# stops the run instead of silently leaving the automaton with a name nobody posts)
LIFE_SOURCES = [
    ("mpf/modes/game/code/game.py",
     ["game_will_start", "game_starting", "game_started", "player_turn_will_start", "player_turn_starting",
      "player_turn_started", "ball_will_start", "ball_starting", "ball_started", "ball_will_end", "ball_ending",
      "ball_ended", "player_turn_will_end", "player_turn_ending", "player_turn_ended", "game_will_end", "game_ending",
      "game_ended"]),
    ("mpf/modes/tilt/code/tilt.py", ["tilt", "slam_tilt", "tilt_clear"]),
    ("mpf/core/service_controller.py", ["service_mode_entered", "service_mode_exited"]),
]
LIFE_EVENTS = [e for _, evs in LIFE_SOURCES for e in evs]


def lifecycle_events(repo):
    for rel, evs in LIFE_SOURCES:
        src = open(os.path.join(repo, rel)).read()
        for e in evs:
            if not re.search(r"\.post(?:_queue|_relay|_boolean)?(?:_async)?\(\s*['\"]%s['\"]" % re.escape(e), src):
                raise ValueError("translate:%s: no events.post*('%s') found; the lifecycle automaton of Life.v names it"
                                 % (rel, e))
    return LIFE_EVENTS


def translate(repo, gendir):
    d = spec_defaults(repo)
    os.makedirs(gendir, exist_ok=True)
    lines = ["(* generated by harness/props/c10.py translate() from mpf/config_spec.yaml - do not edit *)",
             "From Common Require Import Prelude.", "Open Scope Z_scope.", ""]
    for sec, pre in (("flippers", "flipper"), ("autofire_coils", "autofire"), ("kickbacks", "kickback")):
        en, dis = d[sec]
        lines.append("(* %s: enable_events = %s *)" % (sec, ", ".join(en) or "None"))
        lines.append("Definition %s_enable_events : list (list Z) := %s." % (pre, coqlist(zlist(e.encode()) for e in en)))
        lines.append("(* %s: disable_events = %s *)" % (sec, ", ".join(dis) or "None"))
        lines.append("Definition %s_disable_events : list (list Z) := %s." % (pre, coqlist(zlist(e.encode()) for e in dis)))
    for e in lifecycle_events(repo):
        lines.append("Definition ev_%s : list Z := %s." % (e, zlist(e.encode())))
    txt = "\n".join(lines) + "\n"
    p = os.path.join(gendir, "Wiring.v")
    if not os.path.exists(p) or open(p).read() != txt:
        with open(p, "w") as f:
            f.write(txt)


# ------------------------------------------------------------------------------------------------
# generator
def gen_config(rng):
    residues = [125, 250, 375, 500, 625, 750, 875]
    rng.shuffle(residues)

    def dur():
        return rng.choice([0, 0, 1, 1, 2, 3]) * 1000 + residues.pop()
    nf = rng.choice([1, 1, 2])
    na = rng.choice([0, 1, 1, 2])
    nk = rng.choice([0, 1]) if nf + na < 4 else 0
    kinds = ["f"] * nf + ["a"] * na + ["k"] * nk
    rng.shuffle(kinds)
    next_coil = [1]
    sw_pool = list(range(1, 9))

    def coil():
        next_coil[0] += 1
        return next_coil[0] - 1
    devs = []
    used_sw = []
    for k in kinds:
        d = {"kind": k, "en_ev": None, "dis_ev": None, "flip_ev": [], "rel_ev": []}
        if rng.random() < 0.25:
            d["en_ev"] = sorted(set(rng.sample(EVENT_POOL, rng.choice([1, 1, 2]))))
        if rng.random() < 0.25:
            d["dis_ev"] = sorted(set(rng.sample(EVENT_POOL, rng.choice([1, 1, 2]))))
        if k == "f":
            d["sw"] = None if rng.random() < 0.06 else (rng.choice(used_sw) if used_sw and rng.random() < 0.3
                                                        else rng.choice(sw_pool))
            d["coil"] = coil()
            d["hold"] = coil() if rng.random() < 0.5 else None
            d["use_eos"] = rng.random() < 0.6
            d["eos"] = None
            if d["use_eos"] or rng.random() < 0.3:
                d["eos"] = rng.choice([w for w in sw_pool if w != d["sw"]])
            d["repulse"] = rng.random() < 0.7
            d["debounce"] = 0 if rng.random() < 0.08 else dur()
            d["bs"] = rng.random() < 0.6
            d["bs_hold"] = dur()
            if rng.random() < 0.3:
                d["flip_ev"] = [rng.choice(["ev_a", "ev_b", "ev_c"])]
            if rng.random() < 0.3:
                d["rel_ev"] = [rng.choice(["ev_a", "ev_b", "ev_c"])]
        else:
            d["sw"] = rng.choice(used_sw) if used_sw and rng.random() < 0.35 else rng.choice(sw_pool)
            d["coil"] = coil()
            d["delay"] = rng.choice([0, 0, 0, 10, 25])
            d["bs"] = rng.random() < 0.8
            if rng.random() < 0.6:
                d["watch"] = rng.choice([500, 1000, 3000])
                d["maxhits"] = rng.choice([1, 2, 2, 3])
                d["distime"] = dur()
            else:
                d["watch"], d["maxhits"], d["distime"] = 0, 0, 0
        for w in (d.get("sw"), d.get("eos")):
            if w is not None and w not in used_sw:
                used_sw.append(w)
        devs.append(d)
    return devs


def gen_ops(rng, devs, tier):
    flips = [i for i, d in enumerate(devs) if d["kind"] == "f"]
    autos = [i for i, d in enumerate(devs) if d["kind"] != "f"]
    sws = sorted(set(w for d in devs for w in (d.get("sw"), d.get("eos")) if w is not None))
    evs = sorted(set(EVENT_POOL + [e for d in devs for k in ("en_ev", "dis_ev") for e in (d[k] or [])]))
    n = rng.randint(8, 45 if tier == "quick" else 70)
    ops = []
    r0 = rng.random()
    if r0 < 0.45:
        ops.append(["Ev", "ball_started"])
    elif r0 < 0.8:
        for i in range(len(devs)):
            if rng.random() < 0.7:
                ops.append(["Enable", i])
    while len(ops) < n:
        r = rng.random()
        i = rng.randrange(len(devs))
        if r < 0.16:
            ops.append(["Enable", i])
            if rng.random() < 0.25:
                ops.append(["Enable", i])
        elif r < 0.28:
            ops.append(["Disable", i])
            if rng.random() < 0.25:
                ops.append(["Disable", i])
        elif r < 0.36:
            ops.append(["SwFlip", rng.choice(flips)])
        elif r < 0.41:
            ops.append(["SwRelease", rng.choice(flips)])
        elif r < 0.48:
            ops.append(["BallSearch", i])
        elif r < 0.62:
            ops.append(["Ev", rng.choice(evs if rng.random() < 0.6 else ["ball_started", "ball_will_end",
                                                                        "service_mode_entered"])])
        elif r < 0.70 and sws:
            ops.append(["SwOn", rng.choice(sws)])
        elif r < 0.78 and sws:
            ops.append(["SwOff", rng.choice(sws)])
        elif r < 0.86 and autos:
            # burst of hits on an autofire switch at one instant: trips the timeout protection
            a = rng.choice(autos)
            w = devs[a]["sw"]
            for _ in range(rng.choice([1, 2, 3, 4])):
                ops.append(["SwOn", w])
                ops.append(["SwOff", w])
        elif r < 0.92:
            # button held, EOS closed long enough, EOS opens: software repulse; then something ends the ball
            f = rng.choice(flips)
            d = devs[f]
            if d["sw"] is not None and d["eos"] is not None:
                if rng.random() < 0.7:
                    ops.append(["Enable", f])
                ops.append(["SwOn", d["sw"]])
                ops.append(["SwOn", d["eos"]])
                ops.append(["Advance", d["debounce"] // 1000 + rng.choice([0, 1, 1])])
                ops.append(["SwOff", d["eos"]])
                ops.append(rng.choice([["Ev", "ball_will_end"], ["Disable", f], ["SwOff", d["sw"]],
                                       ["Ev", "service_mode_entered"], ["Advance", 1]]))
        elif r < 0.95:
            ops.append(["Advance", rng.choice([1, 1, 1, 2, 3, 5])])
        elif r < 0.985:
            # the real ball search scheduler runs over the registered devices while the history goes on
            ops.append(["BsStart"])
            ops.append(["Advance", rng.choice([1, 1, 2, 3])])
        else:
            ops.append(["BsStop"])
    return ops


def gen_handover(rng, tier):
    """Two flippers on the SAME button and coil(s), never enabled together: one event disables one and enables the
    other.  The disable handler (priority 10) must run before the enable handler (priority 1), otherwise the rule of
    the second is written over the rule of the first."""
    hold = 2 if rng.random() < 0.4 else None
    base = {"kind": "f", "sw": 1, "coil": 1, "hold": hold, "use_eos": False, "eos": None, "repulse": False,
            "debounce": 0, "bs": rng.random() < 0.5, "flip_ev": [], "rel_ev": []}
    a = dict(base, en_ev=["ev_a"], dis_ev=["ev_b", "ball_will_end"], bs_hold=1125)
    b = dict(base, en_ev=["ev_b"], dis_ev=["ev_a", "ball_will_end"], bs_hold=2375)
    devs = [a, b]
    if rng.random() < 0.5:
        devs.append({"kind": "a", "en_ev": None, "dis_ev": None, "flip_ev": [], "rel_ev": [], "sw": rng.choice([1, 3]),
                     "coil": 5, "delay": 0, "bs": True, "watch": 0, "maxhits": 0, "distime": 0})
    on = [False, False]
    ops = []
    for _ in range(rng.randint(6, 30)):
        r = rng.random()
        i = rng.randrange(2)
        if r < 0.45:
            e = rng.choice(["ev_a", "ev_b"])
            ops.append(["Ev", e])
            on = [e == "ev_a", e == "ev_b"]
        elif r < 0.55:
            ops.append(["Ev", rng.choice(["ball_will_end", "ball_started", "ev_c"])])
            if ops[-1][1] == "ball_will_end":
                on = [False, False]
        elif r < 0.65:
            ops.append(["Disable", i])
            on[i] = False
        elif r < 0.72 and not on[1 - i]:
            ops.append(["Enable", i])
            on[i] = True
        elif r < 0.80:
            ops.append(["SwFlip", i])
        elif r < 0.85:
            ops.append(["SwRelease", i])
        elif r < 0.90:
            ops.append(["BallSearch", i])
        elif r < 0.95:
            ops.append([rng.choice(["SwOn", "SwOff"]), 1])
        else:
            ops.append(["Advance", rng.choice([1, 2, 3])])
    return {"devs": devs, "ops": ops}


def gen_hist(rng, tier, i):
    if rng.random() < 0.08:
        c = gen_handover(rng, tier)
        # half of the handovers on a platform that overwrites silently (FAST/OPP-like): a rule written before the old
        # one is cleared is then not an exception but a MISSING rule of an enabled flipper
        c["plat"] = "overwrite" if rng.random() < 0.5 else "assert"
        return c
    devs = gen_config(rng)
    return {"devs": devs, "ops": gen_ops(rng, devs, tier), "plat": "overwrite" if rng.random() < 0.2 else "assert"}


# ------------------------------------------------------------------------------------------------
# implementation side
def machine_config(devs):
    sws = sorted(set(w for d in devs for w in (d.get("sw"), d.get("eos")) if w is not None))
    cfg = {"switches": {"s%d" % w: {"number": str(w)} for w in sws}, "coils": {},
           "flippers": {}, "autofire_coils": {}, "kickbacks": {}}
    for i, d in enumerate(devs):
        cfg["coils"]["c%d" % d["coil"]] = {"number": str(d["coil"]), "default_pulse_ms": 20, "default_hold_power": 0.5}
        if d.get("hold") is not None:
            cfg["coils"]["c%d" % d["hold"]] = {"number": str(d["hold"]), "default_pulse_ms": 20,
                                               "default_hold_power": 0.5}
        dc = {}
        if d["en_ev"] is not None:
            dc["enable_events"] = ", ".join(d["en_ev"])
        if d["dis_ev"] is not None:
            dc["disable_events"] = ", ".join(d["dis_ev"])
        if d["kind"] == "f":
            dc["main_coil"] = "c%d" % d["coil"]
            if d["hold"] is not None:
                dc["hold_coil"] = "c%d" % d["hold"]
            if d["sw"] is not None:
                dc["activation_switch"] = "s%d" % d["sw"]
            if d["eos"] is not None:
                dc["eos_switch"] = "s%d" % d["eos"]
            dc["use_eos"] = d["use_eos"]
            dc["repulse_on_eos_open"] = d["repulse"]
            dc["eos_active_ms_before_repulse"] = "%dms" % d["debounce"]
            dc["include_in_ball_search"] = d["bs"]
            dc["ball_search_hold_time"] = "%dms" % d["bs_hold"]
            if d["flip_ev"]:
                dc["sw_flip_events"] = ", ".join(d["flip_ev"])
            if d["rel_ev"]:
                dc["sw_release_events"] = ", ".join(d["rel_ev"])
            cfg["flippers"]["d%d" % i] = dc
        else:
            dc["coil"] = "c%d" % d["coil"]
            dc["switch"] = "s%d" % d["sw"]
            dc["ball_search_order"] = 100 if d["bs"] else 0
            if d["delay"]:
                dc["coil_pulse_delay"] = "%dms" % d["delay"]
            if d["watch"]:
                dc["timeout_watch_time"] = "%dms" % d["watch"]
                dc["timeout_max_hits"] = d["maxhits"]
                dc["timeout_disable_time"] = "%dms" % d["distime"]
            cfg["autofire_coils" if d["kind"] == "a" else "kickbacks"]["d%d" % i] = dc
    for k in ("flippers", "autofire_coils", "kickbacks"):
        if not cfg[k]:
            del cfg[k]
    return cfg


def all_coils(devs):
    out = []
    for d in devs:
        out.append(d["coil"])
        if d.get("hold") is not None:
            out.append(d["hold"])
    return out


def coil_owner(devs):
    own = {}
    for i, d in enumerate(devs):
        own[d["coil"]] = i
        if d.get("hold") is not None:
            own[d["hold"]] = i
    return own


class Probe:
    """Recording wrapper around the booted machine: platform calls, rule table, coil states, handlers."""

    def __init__(self, rig, devs, overwrite=False):
        self.rig, self.devs = rig, devs
        if overwrite:
            # recording platform with the semantics of real controllers: set_*_rule replaces whatever is there
            rig.machine.default_platform._assert_rule_does_not_exist = lambda switch, driver: None
        self.m = rig.machine
        self.p = self.m.default_platform
        self.log = []
        self.err = 0
        self.own = coil_owner(devs)
        p = self.p
        probe = self

        def wrap_set(name, eos):
            orig = getattr(p, name)

            def f(enable_switch, *a):
                coil = a[1] if eos else a[0]
                keys = [int(enable_switch.hw_switch.number), int(coil.hw_driver.number)]
                if eos:
                    keys += [int(a[0].hw_switch.number), int(coil.hw_driver.number)]
                # the rule kind is read back from the table after the call
                try:
                    return orig(enable_switch, *a)
                finally:
                    kind = p.rules.get((enable_switch.hw_switch, coil.hw_driver))
                    probe.log.append([probe.caller(keys[1]), 1, KINDS.get(kind, 9)] + keys)
            setattr(p, name, f)
        for nm, eos in (("set_pulse_on_hit_rule", False), ("set_pulse_on_hit_and_release_rule", False),
                        ("set_pulse_on_hit_and_enable_and_release_rule", False),
                        ("set_pulse_on_hit_and_release_and_disable_rule", True),
                        ("set_pulse_on_hit_and_enable_and_release_and_disable_rule", True)):
            wrap_set(nm, eos)

        # virtual.py has no delayed pulse rule: same bookkeeping as its set_pulse_on_hit_rule
        def delayed(enable_switch, coil, delay_ms):
            p._assert_rule_does_not_exist(enable_switch.hw_switch, coil.hw_driver)
            p.rules[(enable_switch.hw_switch, coil.hw_driver)] = "delayed_pulse_on_hit"
        p.set_delayed_pulse_on_hit_rule = delayed
        wrap_set("set_delayed_pulse_on_hit_rule", False)
        orig_clear = p.clear_hw_rule

        def clr(switch, coil):
            probe.log.append([probe.caller(int(coil.hw_driver.number)), 0, int(switch.hw_switch.number),
                              int(coil.hw_driver.number)])
            return orig_clear(switch, coil)
        p.clear_hw_rule = clr

        # the REAL ball search scheduler (mpf/core/ball_search.py: phases, iterations, interval) drives the devices
        # through the callbacks they registered; every invocation is recorded with an observation before and after it
        self.sub = []
        for pf in self.m.playfields.values():
            pf.config['ball_search_interval'] = 131              # ms; 131 k is never on the 125 ms grid of the timers
            pf.config['ball_search_wait_after_iteration'] = 1310
            pf.config['ball_search_phase_1_searches'] = 2
            pf.config['ball_search_phase_2_searches'] = 1
            pf.config['ball_search_phase_3_searches'] = 0
            pf.ball_search.callbacks = [cb._replace(callback=self.wrap_bs(cb)) for cb in pf.ball_search.callbacks]

    def wrap_bs(self, cb):
        probe = self

        def call(phase, iteration):
            if not probe.in_scheduler:
                return cb.callback(phase, iteration)
            pre = probe.observe()
            probe.log = []
            res = cb.callback(phase, iteration)
            probe.settle_now()
            post = probe.observe()
            probe.log = []
            probe.sub.append({"dev": int(cb.name[1:]), "t": int(round(probe.rig.now() * 1000)), "pre": pre, "post": post})
            return res
        return call

    in_scheduler = True

    def settle_now(self):
        pass

    def caller(self, coil):
        """index of the device whose method is making the platform call (two devices may share a coil)"""
        import sys
        f = sys._getframe(2)
        while f is not None:
            s = f.f_locals.get("self")
            nm = getattr(s, "name", None)
            if type(s).__name__ in ("Flipper", "AutofireCoil", "Kickback") and isinstance(nm, str) and nm[:1] == "d" \
                    and nm[1:].isdigit():
                return int(nm[1:])
            f = f.f_back
        return self.own.get(coil, 99)

    def device(self, i):
        d = self.devs[i]
        coll = {"f": self.m.flippers, "a": self.m.autofire_coils, "k": self.m.kickbacks}[d["kind"]]
        return coll["d%d" % i]

    def managers(self, i):
        if self.devs[i]["kind"] != "f":
            return []
        return [r.software_rule_handler for r in self.device(i)._active_rules if r.software_rule_handler]

    def settle(self):
        for _ in range(3):
            self.rig.advance(0)

    def do(self, op):
        k = op[0]
        try:
            if k == "Enable":
                self.device(op[1]).enable()
            elif k == "Disable":
                self.device(op[1]).disable()
            elif k == "SwFlip":
                self.device(op[1]).sw_flip()
            elif k == "SwRelease":
                self.device(op[1]).sw_release()
            elif k == "BallSearch":
                name = "d%d" % op[1]
                self.in_scheduler = False
                try:
                    for pf in self.m.playfields.values():
                        for cb in list(pf.ball_search.callbacks):
                            if cb.name == name:
                                cb.callback(1, 1)
                finally:
                    self.in_scheduler = True
            elif k == "BsStart":
                for pf in self.m.playfields.values():
                    if pf.ball_search.callbacks:
                        pf.ball_search.enabled = True
                        pf.ball_search.start()
            elif k == "BsStop":
                for pf in self.m.playfields.values():
                    pf.ball_search.disable()
            elif k == "Ev":
                self.m.events.post(op[1])
            elif k == "SwOn":
                self.m.switch_controller.process_switch("s%d" % op[1], 1, logical=True)
            elif k == "SwOff":
                self.m.switch_controller.process_switch("s%d" % op[1], 0, logical=True)
            elif k == "Advance":
                self.rig.advance(op[1])
            self.settle()
        except Exception as e:        # noqa: the overwrite assertion, possibly wrapped by the event manager
            self.err = 1
            self.exc = "%s: %s" % (type(e).__name__, str(e)[:300])
        if self.rig.exception() is not None and not self.err:
            self.err = 1
            self.exc = repr(self.rig.exception())

    def observe(self):
        import functools
        m, p = self.m, self.p
        table = sorted((int(k[0].number), int(k[1].number), KINDS.get(v, 9)) for k, v in p.rules.items())
        enabled = [1 if self.device(i)._enabled else 0 for i in range(len(self.devs))]
        coils = []
        for c in all_coils(self.devs):
            st = m.coils["c%d" % c].hw_driver.state
            coils.append(0 if st == "disabled" else 1 if st == "enabled" else 2 if st.startswith("pulsed") else 3)
        psu, live, stale = [], [], 0
        for i in range(len(self.devs)):
            live += self.managers(i)
        for sw, states in m.switch_controller.registered_switches.items():
            for entries in (states.values() if isinstance(states, dict) else states):
                for e in entries:
                    cb = e.callback
                    if isinstance(cb, functools.partial) and getattr(cb.func, "__name__", "") == "_notify_psu_about_pulse":
                        psu.append((int(sw.hw_switch.number), int(cb.keywords["driver"].hw_driver.number)))
                    owner = getattr(cb, "__self__", None)
                    if type(owner).__name__ == "SoftwareEosRepulseManager" and not any(owner is x for x in live):
                        stale += 1
        mg = []
        for i in range(len(self.devs)):
            ms = self.managers(i)
            if not ms:
                mg.append(0)
            else:
                mg.append(1 + (1 if ms[0]._button_is_active else 0) + (2 if ms[0]._is_eos_closed_long_enough else 0))
        flipped = [1 if (d["kind"] == "f" and self.device(i)._sw_flipped) else 0 for i, d in enumerate(self.devs)]
        reen = [1 if (d["kind"] != "f" and "_timeout_enable_delay" in self.device(i).delay.delays) else 0
                for i, d in enumerate(self.devs)]
        rows = [[x for t in table for x in t], enabled, coils, [x for k in sorted(psu) for x in k], mg, flipped, reen,
                [self.err]]
        log = sorted(self.log, key=lambda e: e[0])        # stable: per-device call order is kept
        return {"rows": rows, "log": log, "stale": stale}


def run_hist(case):
    import sys
    sys.path.insert(0, os.path.dirname(os.path.dirname(os.path.abspath(__file__))))
    import logging
    logging.disable(logging.CRITICAL)
    from rig import Rig
    devs = case["devs"]
    rig = Rig(machine_config(devs))
    try:
        rig.start()
    except BaseException as e:       # the generated machine does not boot: report as data
        return {"boot_error": "%s: %s" % (type(e).__name__, str(e)[:300]), "steps": []}
    try:
        rig.advance(0.999)
        if rig.now() != 1.0:
            return {"boot_error": "clock not on the grid: %r" % rig.now(), "steps": []}
        pr = Probe(rig, devs, overwrite=case.get("plat") == "overwrite")
        steps = []
        excluded = None
        for op in case["ops"]:
            pr.log = []
            before = [pr.managers(i)[:1] for i in range(len(devs))]
            pr.sub = []
            t0 = int(round(rig.now() * 1000))
            pr.do(op)
            o = pr.observe()
            o["sub"], o["t0"], o["t1"] = list(pr.sub), t0, int(round(rig.now() * 1000))
            steps.append(o)
            for i, d in enumerate(devs):
                ms = pr.managers(i)[:1]
                if ms and (not before[i] or before[i][0] is not ms[0]) and d["debounce"]:
                    sw = rig.machine.switches["s%d" % d["eos"]]
                    if sw.state and rig.now() - sw.last_change >= d["debounce"] / 1000.0:
                        excluded = "eos-manager-created-while-eos-closed-longer-than-debounce"
            if pr.err:
                break
        out = {"steps": steps, "excluded": excluded}
        if pr.err:
            out["exc"] = getattr(pr, "exc", "?")
        return out
    finally:
        try:
            pr.in_scheduler = False        # timers that fire during tearDown are not part of the history
        except NameError:
            pass
        rig.stop()


# ------------------------------------------------------------------------------------------------
# Coq printers
def cstr(s):
    return zlist(s.encode())


def copt(x):
    return "None" if x is None else "(Some %s)" % zlit(x)


def cevs(l):
    return "None" if l is None else "(Some %s)" % coqlist(cstr(e) for e in l)


def coq_dev(d):
    if d["kind"] == "f":
        return "(mkD KFlip %s %s %s %s %s %s %s %s %s 0 0 0 0 %s %s %s %s)" % (
            copt(d["sw"]), zlit(d["coil"]), copt(d["hold"]), copt(d["eos"]), blit(d["use_eos"]), blit(d["repulse"]),
            zlit(d["debounce"]), blit(d["bs"]), zlit(d["bs_hold"]), cevs(d["en_ev"]), cevs(d["dis_ev"]),
            coqlist(cstr(e) for e in d["flip_ev"]), coqlist(cstr(e) for e in d["rel_ev"]))
    return "(mkD %s %s %s None None false false 0 %s 0 %s %s %s %s %s %s [] [])" % (
        "KAuto" if d["kind"] == "a" else "KKick", copt(d["sw"]), zlit(d["coil"]), blit(d["bs"]), zlit(d["delay"]),
        zlit(d["watch"]), zlit(d["maxhits"]), zlit(d["distime"]), cevs(d["en_ev"]), cevs(d["dis_ev"]))


def coq_op(op):
    k = op[0]
    if k in ("Enable", "Disable", "SwFlip", "SwRelease", "BallSearch"):
        return "(%s %d%%nat)" % (k, op[1])
    if k == "Ev":
        return "(Ev %s)" % cstr(op[1])
    return "(%s %s)" % (k, zlit(op[1]))


def coq_obs(s):
    return "(%s, %s)" % (coqlist(zlist(r) for r in s["rows"]), coqlist(zlist(e) for e in s["log"]))


def coq_hist(case, out):
    """One model op per implementation op, except that an op during which the real ball search scheduler invoked device
    callbacks is split at those instants: AdvanceMs up to the callback (expected: the observation taken at callback
    entry), BallSearch d (expected: the observation after it), ..., and the rest of the op."""
    if out.get("boot_error") or out.get("excluded"):
        return None
    ops, exp = [], []
    for op, s in zip(case["ops"], out["steps"]):
        sub = s.get("sub") or []
        if op[0] in ("BsStart", "BsStop") or sub:
            if op[0] not in ("BsStart", "BsStop", "Advance"):
                return None          # the scheduler ran inside another kind of op: not expected
            now = s["t0"]
            for c in sub:
                if c["t"] < now:
                    return None
                ops.append("(AdvanceMs %d)" % (c["t"] - now))
                exp.append(coq_obs(c["pre"]))
                now = c["t"]
                ops.append("(BallSearch %d%%nat)" % c["dev"])
                exp.append(coq_obs(c["post"]))
            ops.append("(AdvanceMs %d)" % (s["t1"] - now))
            exp.append(coq_obs(s))
        else:
            ops.append(coq_op(op))
            exp.append(coq_obs(s))
    inp = "((%s, %s), %s)" % (blit(case.get("plat") == "overwrite"), coqlist(coq_dev(d) for d in case["devs"]),
                              coqlist(ops))
    return "(%s, %s)" % (inp, coqlist(exp))


HDR = "From C10 Require Import Model.\nDefinition run := c10_run_p.\nDefinition out_eqb := c10_out_eqb.\n"


# ------------------------------------------------------------------------------------------------
# oracle: the property's own predicate on what the implementation did (no model involved)
_DEFAULTS = {}


def defaults():
    if not _DEFAULTS:
        from vlib import REPO
        d = spec_defaults(REPO)
        _DEFAULTS.update({"f": d["flippers"], "a": d["autofire_coils"], "k": d["kickbacks"]})
    return _DEFAULTS


def expected_rules(d):
    """(switch, coil, kind) triples a device must have installed while enabled - derived from its config."""
    if d["kind"] != "f":
        return [(d["sw"], d["coil"], 5 if d["delay"] else 0)]
    if d["sw"] is None:
        return []
    out = []
    if d["use_eos"]:
        k = 3 if d["hold"] is not None else 4
        out += [(d["sw"], d["coil"], k), (d["eos"], d["coil"], k)]
    else:
        out.append((d["sw"], d["coil"], 2 if d["hold"] is not None else 1))
    if d["hold"] is not None:
        out.append((d["sw"], d["hold"], 1))
    return out


def en_events(d):
    return d["en_ev"] if d["en_ev"] is not None else defaults()[d["kind"]][0]


def dis_events(d):
    return d["dis_ev"] if d["dis_ev"] is not None else defaults()[d["kind"]][1]


def oracle_hist(case, out):
    fails = []
    devs = case["devs"]
    if out.get("boot_error"):
        return [{"sig": "machine-does-not-boot", "what": out["boot_error"]}]
    coils = all_coils(devs)
    quiet = {}      # device -> op index since which it must stay without rules (disabled by lifecycle/Disable)
    # observations taken around the callbacks of the real ball search scheduler are judged like those after an op
    seq = []
    for n, (op, st) in enumerate(zip(case["ops"], out["steps"])):
        for c in st.get("sub") or []:
            seq.append((n, ["BsCallback-before", c["dev"]], c["pre"], None))
            seq.append((n, ["BsCallback", c["dev"]], c["post"], None))
        seq.append((n, op, st, out["steps"][n - 1] if n > 0 else None))
    for n, op, st, prev_st in seq:
        table, enabled, cst, psu, mg, flipped, reen, err = st["rows"]
        trip = [tuple(table[j:j + 3]) for j in range(0, len(table), 3)]
        if err[0]:
            fails.append({"sig": "platform-exception", "what": "op %d %r: %s" % (n, op, out.get("exc"))})
            break
        want = sorted(t for i, d in enumerate(devs) if enabled[i] for t in expected_rules(d))
        if trip != want:
            extra = [t for t in trip if t not in want]
            missing = [t for t in want if t not in trip]
            fails.append({"sig": "rule-leaked" if extra else "rule-missing",
                          "what": "after op %d %r the platform rules %r differ from those of the enabled devices %r"
                                  % (n, op, trip, want)})
        if len(set(t[:2] for t in trip)) != len(trip):
            fails.append({"sig": "rule-duplicated", "what": "after op %d %r a (switch, coil) key is present twice" % (n, op)})
        wantpsu = sorted(x for i, d in enumerate(devs) if enabled[i] for x in
                         [(t[0], t[1]) for t in expected_rules(d) if not (d["kind"] == "f" and d["use_eos"] and t[0] == d["eos"])])
        gotpsu = sorted(tuple(psu[j:j + 2]) for j in range(0, len(psu), 2))
        if gotpsu != wantpsu:
            fails.append({"sig": "aux-handler-unbalanced",
                          "what": "after op %d %r PSU switch handlers %r, rules need %r" % (n, op, gotpsu, wantpsu)})
        if st.get("stale"):
            fails.append({"sig": "aux-handler-unbalanced",
                          "what": "after op %d %r %d switch handlers of a stopped EOS manager remain" % (n, op, st["stale"])})
        # enable idempotent / disable removes all
        if op[0] == "Enable" and prev_st is not None and prev_st["rows"][1][op[1]] and st["log"]:
            fails.append({"sig": "enable-not-idempotent", "what": "op %d: enable of an enabled device wrote %r" % (n, st["log"])})
        if op[0] == "Enable" and not enabled[op[1]]:
            fails.append({"sig": "enable-no-effect", "what": "op %d: device not enabled after enable()" % n})
        if op[0] == "Disable":
            quiet[op[1]] = n
        if op[0] == "Ev":
            for i, d in enumerate(devs):
                if op[1] in dis_events(d) and op[1] not in en_events(d):
                    quiet[i] = n
                # the property text fixes the lifecycle events for devices that keep the default wiring
                if op[1] in LIFECYCLE_OFF and d["dis_ev"] is None and d["en_ev"] is None:
                    quiet[i] = n
        # anything that may legitimately enable again ends the quiet period
        for i, d in enumerate(devs):
            if (op[0] == "Enable" and op[1] == i) or (op[0] == "Ev" and op[1] in en_events(d)):
                quiet.pop(i, None)
        for i, since in quiet.items():
            d = devs[i]
            if enabled[i] or any(t in trip and t not in want for t in expected_rules(d)) or reen[i]:
                fails.append({"sig": "rule-after-disable",
                              "what": "device %d was disabled at op %d (%r) but at op %d %r it is enabled=%d, rules %r, "
                                      "pending re-enable=%d" % (i, since, case["ops"][since], n, op, enabled[i], trip, reen[i])})
        # a flipper that is not enabled must not have an energised coil ("cabinet buttons cannot fire coils")
        for i, d in enumerate(devs):
            if d["kind"] == "f" and not enabled[i]:
                shared = set(c for j, e in enumerate(devs) if e["kind"] == "f" and enabled[j]
                             for c in (e["coil"], e["hold"]))
                held = [c for c in (d["coil"], d["hold"]) if c is not None and c not in shared
                        and cst[coils.index(c)] == 1]
                if held:
                    fails.append({"sig": "flipper-coil-energised-while-disabled",
                                  "what": "after op %d %r flipper %d is disabled but coil(s) %r are enabled" % (n, op, i, held)})
    # one failure per signature is enough
    seen, res = set(), []
    for f in fails:
        if f["sig"] not in seen:
            seen.add(f["sig"])
            res.append(f)
    return res


def shrink_hist(case):
    ops = case["ops"]
    for i in range(len(ops)):
        yield dict(case, ops=ops[:i] + ops[i + 1:])
    devs = case["devs"]
    for i in range(len(devs)):
        if len(devs) > 1 and not any(o[0] in ("Enable", "Disable", "SwFlip", "SwRelease", "BallSearch") and o[1] >= i
                                     for o in ops):
            yield dict(case, devs=devs[:i] + devs[i + 1:])
    for i, o in enumerate(ops):
        if o[0] == "Advance" and o[1] > 1:
            yield dict(case, ops=ops[:i] + [["Advance", o[1] - 1]] + ops[i + 1:])


def nontrivial_hist(case, out):
    prev = None
    for op, st in zip(case["ops"], out.get("steps", [])):
        rows = st["rows"]
        if prev is not None:
            if op[0] == "Enable" and prev[1][op[1]]:
                return True
            if op[0] == "Disable" and not prev[1][op[1]]:
                return True
            if sum(rows[6]) > sum(prev[6]):          # timeout protection tripped
                return True
            if op[0] == "Ev" and op[1] in LIFECYCLE_OFF and 1 in prev[2]:
                return True
        prev = rows
    return False


def describe_hist(case):
    ks = "".join(sorted(d["kind"] for d in case["devs"]))
    if len(case["devs"]) > 1 and case["devs"][0].get("en_ev") == ["ev_a"] and case["devs"][1].get("en_ev") == ["ev_b"] \
            and case["devs"][0]["coil"] == case["devs"][1]["coil"]:
        ks = "handover-" + ks
    return "devs=%s ops=%s plat=%s" % (ks, "<=15" if len(case["ops"]) <= 15 else "<=30" if len(case["ops"]) <= 30
                                       else ">30", case.get("plat", "assert"))


# ------------------------------------------------------------------------------------------------
# suite "game": REAL games (game mode, ball devices on smart_virtual, the real tilt mode), oracle only
GAME_EVENTS = ["game_will_start", "game_starting", "game_started", "player_turn_will_start", "player_turn_starting",
               "player_turn_started", "ball_will_start", "ball_starting", "ball_started", "ball_will_end", "ball_ending",
               "ball_ended", "player_turn_will_end", "player_turn_ending", "player_turn_ended", "game_will_end",
               "game_ending", "game_ended"]
# Game._run_ball clears the end-of-ball request flag, then runs ball_will_start .. ball_started and waits for the flag.
# A request (game.end_ball() from Tilt.tilt) made in any OTHER phase of a running game is wiped by the next _run_ball.
RUN_BALL_PHASES = ["ball_will_start", "ball_starting", "ball_started"]


def game_config(v):
    n = None
    cfg = {
        "game": {"balls_per_game": v["balls"]},
        "modes": ["tilt"],
        "playfields": {"playfield": {"default_source_device": "bd_launcher", "tags": "default"}},
        "coils": {"eject_coil1": {"number": n}, "eject_coil2": {"number": n},
                  "c_flipper": {"number": n, "default_hold_power": 0.125},
                  "c_f2m": {"number": n, "default_pulse_ms": 20}, "c_f2h": {"number": n, "allow_enable": True},
                  "c_pop": {"number": n}, "c_sling": {"number": n}},
        "switches": {"s_start": {"number": n, "tags": "start"}, "s_ball_switch1": {"number": n},
                     "s_ball_switch2": {"number": n}, "s_ball_switch_launcher": {"number": n},
                     "s_tilt": {"number": n, "tags": "tilt"}, "s_tilt_warning": {"number": n, "tags": "tilt_warning"},
                     "s_slam_tilt": {"number": n, "tags": "slam_tilt"}, "s_flipper": {"number": n},
                     "s_flipper2": {"number": n}, "s_eos2": {"number": n}, "s_pop": {"number": n},
                     "s_sling": {"number": n}},
        "ball_devices": {
            "bd_trough": {"eject_coil": "eject_coil1", "ball_switches": "s_ball_switch1, s_ball_switch2",
                          "confirm_eject_type": "target", "eject_targets": "bd_launcher",
                          "tags": "trough, drain, home"},
            "bd_launcher": {"eject_coil": "eject_coil2", "ball_switches": "s_ball_switch_launcher",
                            "confirm_eject_type": "target", "eject_timeouts": "6s, 10s"}},
        "flippers": {"f_test": {"main_coil": "c_flipper", "activation_switch": "s_flipper"},
                     "f_two": {"main_coil": "c_f2m", "hold_coil": "c_f2h", "activation_switch": "s_flipper2"}},
        "autofire_coils": {"ac_pop": {"coil": "c_pop", "switch": "s_pop"},
                           "ac_sling": {"coil": "c_sling", "switch": "s_sling", "timeout_watch_time": "1s",
                                        "timeout_max_hits": 2, "timeout_disable_time": "750ms"}},
    }
    if v["eos"]:
        cfg["flippers"]["f_two"].update({"eos_switch": "s_eos2", "use_eos": True, "repulse_on_eos_open": True,
                                         "eos_active_ms_before_repulse": 250})
    modes = {"tilt": {"tilt": {"reset_warnings_events": "tilt_reset_warnings", "tilt_events": "tilt_event",
                               "multiple_hit_window": 300, "settle_time": v["settle"],
                               "warnings_to_tilt": v["warnings"]}}}
    return cfg, modes


def gen_game(rng, tier, i):
    v = {"balls": rng.choice([1, 2, 3]), "settle": rng.choice([0, 1000, 5000]), "warnings": rng.choice([1, 2, 3]),
         "eos": rng.random() < 0.5}
    ops = [["Start"]]
    if rng.random() < 0.5:
        # a tilt at a held queue event right at the start of the first ball
        ops = [["Hold", rng.choice(["ball_starting", "ball_ending"]), 1]] + ops
    for _ in range(rng.randint(6, 32)):
        r = rng.random()
        if r < 0.26:
            ops.append(["Advance", rng.choice([0.125, 0.25, 0.5, 1, 1, 2, 4, 6, 12])])
        elif r < 0.36:
            ops.append(["Tilt"])
        elif r < 0.46:
            ops.append(["TiltWarn"])
        elif r < 0.50:
            ops.append(["SlamTilt"])
        elif r < 0.54:
            ops.append(["TiltEvent"])
        elif r < 0.66:
            ops.append(["Drain"])
        elif r < 0.76:
            ops.append(["Hold", rng.choice(["ball_starting", "ball_ending"]), rng.choice([0, 1, 1])])
        elif r < 0.84:
            ops.append(["Release"])
        elif r < 0.87:
            ops.append(["Service"])
            if rng.random() < 0.7:
                # what a game that (wrongly) survived would do in service mode: end its ball and start the next one
                ops += [["Advance", rng.choice([0.25, 1, 3])], rng.choice([["Start"], ["Tilt"], ["Drain"], ["Drain"]]),
                        ["Advance", rng.choice([1, 12, 12])], ["ServiceExit"], ["Advance", rng.choice([1, 3])]]
        elif r < 0.90:
            ops.append(["EndGame"])
        elif r < 0.925:
            ops.append(["Start"])
        elif r < 0.965:
            # a tilt while a queue event of the ball lifecycle is held (bonus, ball-start show, ...)
            ev = rng.choice(["ball_starting", "ball_ending"])
            ops += [["Hold", ev, 1], ["Advance", 12], ["Drain"], ["Advance", rng.choice([0.25, 1, 3])],
                    rng.choice([["Tilt"], ["TiltEvent"], ["SlamTilt"], ["TiltWarn"]]),
                    ["Advance", rng.choice([0.25, 1, 6])], ["Hold", ev, 0], ["Release"],
                    ["Advance", rng.choice([1, 12])]]
        elif r < 0.985:
            ops.append(["Flip", rng.choice(["f_test", "f_two"])])
        else:
            ops.append(["Hit", rng.choice(["s_pop", "s_sling", "s_flipper", "s_flipper2"])])
    ops.append(["Release"])
    ops.append(["Advance", 12])
    return {"v": v, "ops": ops}


def run_game(case):
    import sys
    sys.path.insert(0, os.path.dirname(os.path.dirname(os.path.abspath(__file__))))
    import logging
    logging.disable(logging.CRITICAL)
    from rig import GameRig
    cfg, modes = game_config(case["v"])
    rig = GameRig(cfg, modes=modes, platform="smart_virtual")
    try:
        rig.start()
    except BaseException as e:
        return {"boot_error": "%s: %s" % (type(e).__name__, str(e)[:300]), "steps": []}
    try:
        m = rig.machine
        p = m.default_platform
        st = {"phase": "boot", "hold": {"ball_starting": 0, "ball_ending": 0}, "held": []}

        def mk(ev):
            def rec(**kwargs):
                st["phase"] = ev
            return rec
        for ev in GAME_EVENTS:
            m.events.add_handler(ev, mk(ev), priority=100000)

        # correspondence with coq/C10/Life.v: every lifecycle event in the order the machine dispatched it, with a
        # snapshot taken by the LAST handler of that event (after every device handler ran)
        sw_id = {m.switches[n].hw_switch: i for n, i in GAME_SW.items()}
        co_id = {m.coils[n].hw_driver: i for n, i in GAME_COIL.items()}
        trace = []

        def snap(raw=False):
            g = m.game
            if g is not None and (g.stopping or not g.active) and not raw:
                g = None          # the game mode is being stopped (service mode): machine.game is dropped a few events later
            tab = sorted((sw_id.get(k2[0], 99), co_id[k2[1]], KINDS.get(v2, 9)) for k2, v2 in p.rules.items()
                         if k2[1] in co_id)
            cs = []
            for cn in GAME_COIL_ORDER:
                s0 = m.coils[cn].hw_driver.state
                cs.append(0 if s0 == "disabled" else 1 if s0 == "enabled" else 2 if s0.startswith("pulsed") else 3)
            return {"t": int(round(rig.now() * 1000)), "inball": 1 if (g and g.balls_in_play > 0) else 0,
                    "tilted": 1 if (g and g.tilted) else 0,
                    "endreq": 1 if (g and g._end_ball_event is not None and g._end_ball_event.is_set()) else 0,
                    "table": [x for r in tab for x in r],
                    "en": [1 if d._enabled else 0 for d in (m.flippers["f_test"], m.flippers["f_two"],
                                                            m.autofire_coils["ac_pop"], m.autofire_coils["ac_sling"])],
                    "coils": cs}

        pending = []

        announced = {"tilted": 0}     # game.tilted as of the last dispatched event that announces a change of it

        def fill(o=None):
            for e in pending:
                e[1] = dict(o or snap(), t=e[1]["t"], inball=e[1]["inball"], tilted=e[1]["tilted"], endreq=e[1]["endreq"])
            del pending[:]

        def mkfirst(ev):
            # position of the event in the trace, and the game flags = start of its dispatch (the code changes
            # game.tilted / balls_in_play BEFORE it posts the event that announces the change, and e.g. the tilt mode's
            # ball_ending handler may clear game.tilted again while ball_ending is still being dispatched)
            def first(**kwargs):
                fill()
                service_ev = ev in ("service_mode_entered", "service_mode_exited")
                # start_service() marks the game as stopping BEFORE service_mode_entered is dispatched; a game / tilt
                # event that was already queued and is dispatched in between still sees the old game object
                o = snap(raw=not service_ev)
                if m.game is None and not service_ev:
                    o["inball"], o["tilted"], o["endreq"] = 2, 2, 1      # game object already dropped: not compared
                tl = o["tilted"]
                if ev in ("tilt", "tilt_clear", "game_will_start", "service_mode_entered", "service_mode_exited"):
                    announced["tilted"] = 0 if tl == 2 else tl
                elif ev == "game_ended":
                    tl = announced["tilted"] = 0     # the game object is dropped right after; Life.v clears the flags
                    o["endreq"] = 0
                elif tl != announced["tilted"] or tl == 2:
                    tl = 2            # tilt() / _tilt_done() ran, its event is still queued behind this one
                e = [ev, {"t": o["t"], "inball": 2 if ev in ("tilt", "tilt_clear") else o["inball"], "tilted": tl,
                          "endreq": o["endreq"]}]
                trace.append(e)
                pending.append(e)
            return first

        def mklast(ev):
            # observation = after its last handler (a handler that holds a queue event stops the dispatch: then the
            # observation is taken when the next lifecycle event starts or the step ends, whichever is first)
            def last(**kwargs):
                if pending and pending[-1][0] == ev:
                    fill()
            return last
        for ev in LIFE_EVENTS:
            m.events.add_handler(ev, mkfirst(ev), priority=1000001)
            m.events.add_handler(ev, mklast(ev), priority=-1000000)

        def mkhold(ev):
            def hold(queue, **kwargs):
                if st["hold"][ev]:
                    queue.wait()
                    st["held"].append(queue)
            return hold
        for ev in ("ball_starting", "ball_ending"):
            m.events.add_handler(ev, mkhold(ev), priority=-100)
        # all instants on the 1/8 s grid: Tilt._tilt_done re-arms its delay with the float remainder of the settle
        # time; off the grid that remainder can be ~1e-13 ms and the virtual clock never advances (test-clock livelock)
        rig.advance(0.999)
        if rig.now() != 1.0:
            return {"boot_error": "clock not on the grid: %r" % rig.now(), "steps": []}
        m.switch_controller.process_switch("s_ball_switch1", 1)
        m.switch_controller.process_switch("s_ball_switch2", 1)
        rig.advance(2)
        fa_coils = set(m.coils[c].hw_driver for c in ("c_flipper", "c_f2m", "c_f2h", "c_pop", "c_sling"))
        flip_coils = ["c_flipper", "c_f2m", "c_f2h"]
        steps = []
        exc = None
        for op in case["ops"]:
            k = op[0]
            before = st["phase"]
            skipped = False
            try:
                if k == "Start":
                    rig.hit_and_release_switch("s_start")
                elif k == "Advance":
                    rig.advance(op[1])
                elif k == "Tilt":
                    rig.hit_and_release_switch("s_tilt")
                elif k == "TiltWarn":
                    rig.hit_and_release_switch("s_tilt_warning")
                elif k == "SlamTilt":
                    rig.hit_and_release_switch("s_slam_tilt")
                elif k == "TiltEvent":
                    m.events.post("tilt_event")
                elif k == "Drain":
                    free = [w for w in ("s_ball_switch1", "s_ball_switch2") if not m.switch_controller.is_active(m.switches[w])]
                    if m.playfield.balls > 0 and free:
                        p.add_ball_to_device(m.ball_devices["bd_trough"])
                    else:
                        skipped = True
                elif k == "Hold":
                    st["hold"][op[1]] = op[2]
                elif k == "Release":
                    qs, st["held"] = st["held"], []
                    for q in qs:
                        q.clear()
                elif k == "Service":
                    # the real thing: ServiceController.start_service() stops every mode incl. the game (no
                    # ball_will_end) and then posts service_mode_entered
                    if not m.service.is_in_service():
                        m.service.start_service()
                    else:
                        skipped = True
                elif k == "ServiceExit":
                    if m.service.is_in_service():
                        rig.loop.run_until_complete(m.service.stop_service())
                    else:
                        skipped = True
                elif k == "EndGame":
                    if m.game:
                        m.game.end_game()
                    else:
                        skipped = True
                elif k == "Flip":
                    m.flippers[op[1]].sw_flip()
                elif k == "Hit":
                    rig.hit_and_release_switch(op[1])
                rig.advance(0.125)        # let the game coroutine and the event queue run dry (1/8 s grid)
            except Exception as e:    # noqa
                exc = "%s: %s" % (type(e).__name__, str(e)[:200])
            if rig.exception() is not None and exc is None:
                exc = repr(rig.exception())[:300]
            g = m.game
            end = snap()
            fill(end)
            evs, trace[:] = list(trace), []
            steps.append({
                "evs": evs, "end": end,
                "game": 1 if g else 0, "tilted": 1 if (g and g.tilted) else 0, "slam": 1 if (g and g.slam_tilted) else 0,
                "bip": g.balls_in_play if g else 0, "ending": 1 if (g and g.ending) else 0,
                "ball": (g.player.ball if (g and g.player) else 0),
                "rules": sorted(k2[1].number for k2 in p.rules if k2[1] in fa_coils),
                "held_coils": [c for c in flip_coils if m.coils[c].hw_driver.state == "enabled"],
                "enabled": sorted(n for coll in (m.flippers, m.autofire_coils) for n, d in coll.items() if d._enabled),
                "service": 1 if m.service.is_in_service() else 0,
                "phase_before": before, "phase": st["phase"], "skipped": skipped, "nheld": len(st["held"]),
                "pf": m.playfield.balls})
            if exc:
                steps[-1]["exc"] = exc
                break
        return {"steps": steps}
    finally:
        rig.stop()


GAME_SW = {"s_flipper": 1, "s_flipper2": 2, "s_eos2": 3, "s_pop": 4, "s_sling": 5}
GAME_COIL = {"c_flipper": 1, "c_f2m": 2, "c_f2h": 3, "c_pop": 4, "c_sling": 5}
GAME_COIL_ORDER = ["c_flipper", "c_f2m", "c_f2h", "c_pop", "c_sling"]
LEV_CTOR = {"tilt": "Tilt", "slam_tilt": "SlamTilt", "tilt_clear": "TiltClear", "service_mode_entered": "ServiceEntered",
            "service_mode_exited": "ServiceExited"}
for _e in GAME_EVENTS:
    LEV_CTOR[_e] = "".join(w.capitalize() for w in _e.replace("player_turn", "turn").split("_"))


def game_devs(v):
    """the four rule-owning devices of game_config() in the format of the hist suite (input of the Coq model)"""
    base = {"en_ev": None, "dis_ev": None, "flip_ev": [], "rel_ev": []}
    f1 = dict(base, kind="f", sw=1, coil=1, hold=None, eos=None, use_eos=False, repulse=False, debounce=0, bs=True,
              bs_hold=1000)
    f2 = dict(base, kind="f", sw=2, coil=2, hold=3, eos=None, use_eos=False, repulse=False, debounce=0, bs=True,
              bs_hold=1000)
    if v["eos"]:
        f2.update(eos=3, use_eos=True, repulse=True, debounce=250)
    a1 = dict(base, kind="a", sw=4, coil=4, delay=0, bs=True, watch=0, maxhits=0, distime=0)
    a2 = dict(base, kind="a", sw=5, coil=5, delay=0, bs=True, watch=1000, maxhits=2, distime=750)
    return [f1, f2, a1, a2]


def coq_game(case, out):
    """input: the devices + per observation the items (clock advance, operation from outside, lifecycle event);
    expected: [accepted; ball in play; tilted] and table / enabled / coils after every lifecycle event and every step"""
    if out.get("boot_error"):
        return None
    groups, exp = [], []
    last_t = [None]

    def adv(o):
        t0 = last_t[0]
        if t0 is None or o["t"] > t0:
            last_t[0] = o["t"]
        return [] if t0 is None or o["t"] <= t0 else ["(LOp (AdvanceMs %d))" % (o["t"] - t0)]

    def obs(o):
        return "(%s, %s)" % (zlist([1, o["inball"], o["tilted"], o["endreq"]]), coqlist([zlist(o["table"]), zlist(o["en"]),
                                                                           zlist(o["coils"])]))
    for op, s in zip(case["ops"], out["steps"]):
        if "evs" not in s:
            return None
        pre = []
        if not s.get("skipped"):
            if op[0] == "Flip":
                pre = ["(LOp (SwFlip %d%%nat))" % {"f_test": 0, "f_two": 1}[op[1]]]
            elif op[0] == "Hit" and op[1] in GAME_SW:
                pre = ["(LOp (SwOn %d))" % GAME_SW[op[1]], "(LOp (SwOff %d))" % GAME_SW[op[1]]]
        for ev, o in s["evs"]:
            if ev == "slam_tilt":
                # Tilt.slam_tilt() posts slam_tilt and calls tilt() (game.tilted, event tilt) in one go: the flags are
                # observed together with the next item
                pre = pre + adv(o) + ["(LEv SlamTilt)"]
                continue
            groups.append(coqlist(pre + adv(o) + ["(LEv %s)" % LEV_CTOR[ev]]))
            pre = []
            exp.append(obs(o))
        groups.append(coqlist(pre + adv(s["end"])))
        exp.append(obs(s["end"]))
        if s.get("exc"):
            break
    return "((%s, %s), %s)" % (coqlist(coq_dev(d) for d in game_devs(case["v"])), coqlist(groups), coqlist(exp))


HDR_GAME = ("From C10 Require Import Model Life.\nDefinition run := c10_game_run.\n"
            "Definition out_eqb := c10_game_out_eqb.\n")


def oracle_game(case, out):
    if out.get("boot_error"):
        return [{"sig": "machine-does-not-boot", "what": out["boot_error"]}]
    fails = []
    prev_tilted = 0
    accept_phase = None     # lifecycle phase in which the current tilt was accepted
    for n, (op, s) in enumerate(zip(case["ops"], out["steps"])):
        if s.get("exc"):
            fails.append({"sig": "game-exception", "what": "op %d %r: %s" % (n, op, s["exc"])})
            break
        if s["tilted"] and not prev_tilted:
            accept_phase = s["phase_before"]
        if not s["tilted"]:
            accept_phase = None
        prev_tilted = s["tilted"]
        why = None
        if not s["game"]:
            why = "no game is running"
        elif s["tilted"]:
            why = "the game is tilted"
        elif s["bip"] == 0:
            why = "no ball is in play"
        elif s.get("service") or (op[0] == "Service" and not s.get("skipped")):
            why = "the machine is in service mode"
        if why is None:
            continue
        if s["rules"] or s["held_coils"] or s["enabled"]:
            what = ("after op %d %r %s (phase %s, ball %s) but flipper/autofire rules on coils %r are installed, enabled "
                    "devices %r, energised flipper coils %r" % (n, op, why, s["phase"], s["ball"], s["rules"],
                                                                s["enabled"], s["held_coils"]))
            flip_on = set(c for f, cs in (("f_test", ["c_flipper"]), ("f_two", ["c_f2m", "c_f2h"]))
                          if f in s["enabled"] for c in cs)
            if s["game"] and s["tilted"] and accept_phase is not None and accept_phase not in RUN_BALL_PHASES \
                    and s["phase"] in RUN_BALL_PHASES and set(s["held_coils"]) <= flip_on:
                # exactly the recorded defect: the tilt was accepted while no ball was being run; Game._run_ball wiped
                # the end-of-ball request, so the next ball is played (flippers fully working) with game.tilted set
                sig = "tilt-accepted-between-balls-sticks"
            elif s["held_coils"]:
                sig = "flipper-coil-energised-outside-ball"
            elif s["tilted"]:
                sig = "rules-while-tilted"
            elif s.get("service"):
                sig = "rules-in-service-mode"
            elif not s["game"]:
                sig = "rules-without-game"
            else:
                sig = "rules-outside-ball"
            fails.append({"sig": sig, "what": what + (" [tilt accepted in phase %s]" % accept_phase if s["tilted"] else "")})
    seen, res = set(), []
    for f in fails:
        if f["sig"] not in seen:
            seen.add(f["sig"])
            res.append(f)
    return res


def shrink_game(case):
    ops = case["ops"]
    for i in range(len(ops)):
        yield dict(case, ops=ops[:i] + ops[i + 1:])


def nontrivial_game(case, out):
    # a tilt was accepted at least once, or a ball ended while a queue event was held
    return any(s["tilted"] for s in out.get("steps", [])) or any(s["nheld"] for s in out.get("steps", []))


def describe_game(case):
    ks = set(o[0] for o in case["ops"])
    return "tilt=%d slam=%d hold=%d service=%d" % ("Tilt" in ks or "TiltWarn" in ks or "TiltEvent" in ks, "SlamTilt" in ks,
                                                   "Hold" in ks, "Service" in ks)


SUITES = [
    Suite("game", gen_game, run_game, HDR_GAME, coq_game, oracle_game, shrink_game, nontrivial_game,
          {"quick": 300, "thorough": 5000}, describe=describe_game, case_timeout=180),
    Suite("hist", gen_hist, run_hist, HDR, coq_hist, oracle_hist, shrink_hist, nontrivial_hist,
          {"quick": 500, "thorough": 12000}, describe=describe_hist, shard=60, case_timeout=120),
]

LEVEL_TEXT = ("Machine-checked proof (Coq) that in an executable model of flipper/autofire/kickback enable-disable, the "
              "platform controller's rule bookkeeping (PSU handlers, software EOS repulse manager) and the platform's "
              "rule table, for every well-formed configuration and every history of enable/disable/sw_flip/sw_release/"
              "ball-search/switch/timer/event operations: the installed rules are exactly those of the enabled devices "
              "with no key written twice (also on a silently overwriting platform, and also for flippers that share "
              "button and coil and are swapped by one event, because disable handlers run before enable handlers), "
              "enable is idempotent, disable removes everything, PSU/EOS-manager handlers exist iff their rule does, a "
              "flipper coil is energised only while its flipper is enabled; and, composed with an automaton of the game "
              "lifecycle (game.py event order, tilt, slam tilt, service mode stopping the game without ball_will_end, "
              "game end), for every interleaving with other operations: whenever no ball is in play no rule of a "
              "ball-scoped (e.g. default-wired) device is installed, no re-enable is pending and no flipper coil is "
              "energised; a tilt accepted while a ball is being run ends that ball.  Device model and lifecycle "
              "automaton are tied to the working tree on every run by feeding the same generated histories / the "
              "lifecycle events of real generated games to implementation and model; default wiring and event names "
              "are translated from the source.")
LEVEL_NOTE = ("Trusted: Coq kernel + vm_compute; no axioms. Models hand-written; differential correspondence after every "
              "op (hist) and after every lifecycle event of real games (game) validates them. Other platforms' "
              "set_*_rule/clear_hw_rule are not covered (only the assert / overwrite table semantics). Event "
              "priorities, delays and timed switch handlers are modelled and validated on tie-free schedules only. The "
              "ball search scheduler is over-approximated by arbitrary single callbacks. Known finding: a tilt accepted "
              "between balls sticks for the next ball (modelled faithfully, theorem tilt_between_balls_sticks_refuted).")
TECHNIQUE = ("Coq proof (invariants over all histories; lifecycle automaton x device model) over hand-written executable "
             "models + translated wiring/event names + differential correspondence (vm_compute) on device histories and "
             "real games + direct oracle")
DESIGN_REF = "DESIGN.md section 3, C10"
