"""C20 — Credits: balance follows the pricing table and stays within bounds."""
from fractions import Fraction

from vlib import Suite, zlist, zlit, coqlist, blit

ID = "C20"
READY = True
RULE = ("credits: one real machine (credits mode + real attract/game modes on the virtual clock) is booted per case from "
        "a generated credits: section (coin values, 0-3 extra pricing tiers incl. skipped ones, max_credits 0/N, both "
        "expiration times, credit events, free_play at boot, balls_per_game) and driven by a history of 10-60 "
        "operations (coin switches, service switch, credit events, start button incl. bursts of 2-4 presses inside one run of the event queue, ball ends, game end, waits on a "
        "125 ms grid, toggle/enable free/credit play, credits_reset, earnings_reset); after every operation the "
        "machine variables, game state, tier counter, earnings and posted events are observed.  Histories are biased "
        "to run into the maximum with a multi-unit coin and to cross tier wrap-arounds and game starts.  "
        "non-trivial = the history contains an accepted coin and at least one of: cap reached, tier bonus granted, "
        "start denied/accepted, expiry fired; distinct by case hash.  units: coin-value/price/tier combinations that "
        "are NOT restricted to the exact domain (unit not a divisor of the price, lower/equal later tiers, negative "
        "bonuses); the derived unit, units per game, wrap-around and pricing table are compared with the model and the "
        "oracle checks that a game costs the configured price; non-trivial = more than one coin value or tier")
TRUSTED_BASE = [
    "Coq 8.16.1 kernel (coqc), vm_compute for the refutation witness and for evaluating the model in the correspondence run; no native_compute",
    "axioms: none (every Print Assumptions is 'Closed under the global context')",
    "hand-written integer model coq/C20/Model.v of credits.py (+ the start/add-player/rotation skeleton of game.py), "
    "tied to the working tree by correspondence: harness/props/c20.py runs the real credits mode inside a real "
    "MachineController (mpf.tests TestMachineController on the virtual clock) and the model on the same histories",
    "money values are multiples of 1/8 so that the implementation's float arithmetic is exact; `while x >= t` loops "
    "of _calculate_pricing_tiers are modelled by integer division",
    "the direct oracle (Python) evaluates bounds, start gate, display, earnings and the money-level pricing formula on the implementation's observations",
]
ASSUMPTIONS = [
    "fixes/C20-cap-overshoot.patch, C20-freeplay-boot-units.patch, C20-duplicate-credit-handlers.patch are applied (committed in /repo as 8c88f5c, ebe35ba, 5503f26; the model is of the fixed code)",
    "configuration domain: every coin value and tier price is a whole number of the computed credit unit, event credits "
    "a whole number of units, first tier gives 1 credit, yields are monotone (otherwise the code raises or rounds; see NOTES.md)",
    "configuration is constant during a run (max_credits and prices are templates in MPF); no reboot/persistence of credit_units",
    "no extra balls, no slam tilt; operations are at least 125 ms apart and never coincide with an expiry deadline",
]

TICK = 0.125
OP_MS = 125
MAX_PLAYERS = 4


# ------------------------------------------------------------------------------------------------
# generator-side arithmetic (only used to stay inside the model's stated domain)
def py_cu(coins, tiers):
    price = tiers[0][0] if tiers else 8
    m = min(coins) if coins else price
    if m == price:
        return m
    if m < price:
        return min(price - m, m)
    return min(m - price, price)


def eff_tiers(tiers):
    """tiers the code keeps (price >= last kept price), in money terms"""
    kept = []
    for p, cr in tiers:
        if kept and p < kept[-1][0]:
            continue
        kept.append((p, cr))
    return kept


def money_yield(tiers, m):
    """credits (Fraction) that m ticks buy: greedy from the most expensive tier, rest at the base price"""
    kept = eff_tiers(tiers) or [(8, 1)]
    r = m
    cr = Fraction(0)
    for p, c in reversed(kept):
        k = r // p
        cr += k * c
        r -= k * p
    return cr + Fraction(r, kept[0][0])


def cfg_in_domain(cfg):
    coins, tiers = cfg["coins"], cfg["tiers"]
    cu = py_cu(coins, tiers)
    if cu <= 0:
        return False
    price = tiers[0][0] if tiers else 8
    if price % cu or any(v % cu for v in coins) or any(p % cu or p <= 0 for p, _ in tiers):
        return False
    if tiers and tiers[0][1] != 1:
        return False
    upg = price // cu
    if any((q * upg) % 4 for q in cfg["evq"]):
        return False
    kept = eff_tiers(tiers)
    top = kept[-1][0] if kept else 8
    ys = [money_yield(tiers, u * cu) for u in range(top // cu + 2)]
    return all(a <= b for a, b in zip(ys, ys[1:]))


COINSETS = [[2], [2, 8], [2, 2, 8], [4, 8], [8], [8, 16], [2, 4, 8], [4], [16], [], [4, 16], [2, 16], [6, 12]]
PRICES = [2, 4, 4, 6, 8, 8, 12, 16, 24]


def gen_cfg(rng):
    for _ in range(200):
        coins = list(rng.choice(COINSETS))
        tiers = []
        if rng.random() < 0.9:
            p1 = rng.choice(PRICES)
            tiers.append([p1, 1])
            p = p1
            for _ in range(rng.choice([0, 1, 1, 2, 3])):
                if rng.random() < 0.12:
                    p2 = max(1, p - rng.choice([1, 2, 4]))      # lower than the previous one: the code skips it
                    tiers.append([p2, rng.randint(1, 6)])
                    continue
                cu0 = max(1, py_cu(coins, tiers))
                p = p + cu0 * rng.choice([1, 2, 2, 3, 4, 6, 8, 12])
                base = -(-p // p1)
                tiers.append([p, base + rng.choice([0, 1, 1, 2, 3, 5])])
        cu = py_cu(coins, tiers)
        price = tiers[0][0] if tiers else 8
        upg = price // cu if cu > 0 else 0
        evq = rng.choice([[4], [4, 8], [4, 12], [2, 4], [1, 4], []])
        evq = [q for q in evq if upg and (q * upg) % 4 == 0]
        cfg = {"coins": coins, "labels": [rng.choice([None, "K%d" % i]) for i in range(len(coins))], "tiers": tiers,
               "max": rng.choice([0, 0, 1, 2, 3, 3, 5, 8, 12]),
               "frac_ms": rng.choice([0, 0, 5060, 10060, 20060]), "all_ms": rng.choice([0, 0, 15060, 30060, 60060]),
               "evq": evq, "boot_fp": rng.random() < 0.15, "bpg": rng.choice([1, 2, 3])}
        if cfg_in_domain(cfg):
            return cfg
    return {"coins": [2, 8], "labels": [None, "R"], "tiers": [[4, 1], [16, 5]], "max": 12, "frac_ms": 10060,
            "all_ms": 30060, "evq": [4], "boot_fp": False, "bpg": 2}


def gen_ops(rng, cfg, n):
    ops = []
    nco, nev = len(cfg["coins"]), len(cfg["evq"])
    big = max(range(nco), key=lambda k: cfg["coins"][k]) if nco else None
    if cfg["boot_fp"] and rng.random() < 0.85:
        ops.append(rng.choice([["toggle"], ["credit"]]))
    if cfg["max"] and rng.random() < 0.5:
        # walk up to just below the maximum with service credits, then a multi-unit coin
        ops += [["svc"]] * max(0, cfg["max"] - rng.choice([0, 1, 1, 2]))
        if nco and rng.random() < 0.5:
            ops.append(["coin", rng.randrange(nco)])
        if big is not None:
            ops.append(["coin", big])
    if not cfg["boot_fp"] and rng.random() < 0.15:
        # a game on ball 1 with exactly k game prices left, then k+1.. presses at once
        k = rng.choice([1, 1, 2])
        ops += [["svc"]] * (k + 1) + [["start"], ["starts", k + rng.choice([1, 1, 2])]]
    while len(ops) < n:
        r = rng.random()
        if r < 0.40 and nco:
            k = big if rng.random() < 0.4 else rng.randrange(nco)
            ops += [["coin", k]] * rng.choice([1, 1, 1, 2, 3, 5])
        elif r < 0.48:
            ops.append(["svc"])
        elif r < 0.54 and nev:
            ops.append(["ev", rng.randrange(nev)])
        elif r < 0.68:
            if rng.random() < 0.35:
                ops.append(["starts", rng.choice([2, 2, 3, 4])])     # presses inside one run of the event queue
            else:
                ops += [["start"]] * rng.choice([1, 1, 2])
        elif r < 0.76:
            ops.append(["endball"])
        elif r < 0.79:
            ops.append(["endgame"])
        elif r < 0.89:
            ops.append(["wait", rng.choice([125, 1000, 5000, 5000, 10000, 15000, 30000, 60000, 125 * rng.randint(1, 400)])])
        elif r < 0.92:
            ops.append(["toggle"])
        elif r < 0.935:
            ops.append(["free"])
        elif r < 0.97:
            ops.append(["credit"])
        elif r < 0.985:
            ops.append(["rc"])
        else:
            ops.append(["re"])
    return ops[:n + 8]


def gen(rng, tier, i):
    cfg = gen_cfg(rng)
    return {"cfg": cfg, "ops": gen_ops(rng, cfg, rng.choice([10, 20, 30, 45, 60]))}


# ------------------------------------------------------------------------------------------------
# implementation side
def machine_config(cfg):
    nco = len(cfg["coins"])
    switches = {"s_c%d" % k: {"number": None} for k in range(nco)}
    switches["s_esc"] = {"number": None}
    switches["s_start"] = {"number": None, "tags": "start"}
    credits = {
        "max_credits": cfg["max"], "free_play": bool(cfg["boot_fp"]), "service_credits_switch": "s_esc",
        "switches": [dict({"switch": "s_c%d" % k, "value": cfg["coins"][k] * TICK, "type": "money"},
                          **({"label": cfg["labels"][k]} if cfg["labels"][k] else {})) for k in range(nco)],
        "events": [{"event": "verif_credit_%d" % j, "credits": q / 4.0, "type": "award"} for j, q in enumerate(cfg["evq"])],
        "pricing_tiers": [{"price": p * TICK, "credits": cr} for p, cr in cfg["tiers"]],
        "fractional_credit_expiration_time": "%dms" % cfg["frac_ms"],
        "credit_expiration_time": "%dms" % cfg["all_ms"],
    }
    return {"modes": ["credits"], "machine": {"min_balls": 0}, "game": {"balls_per_game": cfg["bpg"]},
            "switches": switches, "credits": credits}


MODES = {"credits": {"mode": {"priority": 11000, "start_events": "machine_reset_phase_3", "stop_on_ball_end": False}}}


def run_impl(case):
    from rig import Rig
    from unittest.mock import MagicMock
    cfg = case["cfg"]
    r = Rig(machine_config(cfg), modes=MODES)
    r.start()
    try:
        m = r.machine
        cm = m.modes["credits"]
        cnt = {"ne": 0, "mx": 0, "ad": 0}

        def h_ne(**kwargs):
            cnt["ne"] += 1

        def h_mx(**kwargs):
            cnt["mx"] += 1

        def h_ad(**kwargs):
            cnt["ad"] += 1
        m.events.add_handler("not_enough_credits", h_ne)
        m.events.add_handler("max_credits_reached", h_mx)
        m.events.add_handler("credits_added", h_ad)
        m.playfield.add_ball = MagicMock()
        m.ball_controller.num_balls_known = 3

        def snap():
            v = m.variables
            g = m.game
            e = cm.earnings
            out = {
                "units": v.get_machine_var("credit_units") or 0,
                "string": v.get_machine_var("credits_string"),
                "value": v.get_machine_var("credits_value"),
                "wnd": [v.get_machine_var("credits_whole_num") or 0, v.get_machine_var("credits_numerator") or 0,
                        v.get_machine_var("credits_denominator") or 0],
                "fp": bool(m.settings.get_setting_value("free_play")),
                "ingame": g is not None,
                "npl": g.num_players if g is not None else 0,
                "cpl": g.player.number if g is not None and g.player else 0,
                "ball": g.player.ball if g is not None and g.player else 0,
                "tc": cm.credit_units_for_pricing_tiers,
                "earn": {k: (x if isinstance(x, (int, str)) else repr(x)) for k, x in e.items()},
                "earn_ticks": [float(e.get("2 Total Earnings money", 0)) * 8] +
                              [float(e.get("%s Earnings money" % lb, 0)) * 8 for lb in cfg["labels"] if lb],
                "ev": [cnt["ne"], cnt["mx"], cnt["ad"]],
            }
            cnt["ne"] = cnt["mx"] = cnt["ad"] = 0
            return out

        def derived():
            W = cm.pricing_tiers_wrap_around
            return {"cu8": cm.credit_unit * 8, "upg": cm.credit_units_per_game, "W": W,
                    "table": [cm.pricing_table.get(u, 0) for u in range(int(W) + 1)]}

        out = {"derived": derived(), "boot": snap(), "rows": []}
        for o in case["ops"]:
            try:
                k = o[0]
                pend = {nm: cm.delay.delays[nm][0].when() for nm in ("clear_fractional_credits", "clear_all_credits")
                        if nm in cm.delay.delays}
                if k == "coin":
                    r.hit_and_release_switch("s_c%d" % o[1])
                elif k == "svc":
                    r.hit_and_release_switch("s_esc")
                elif k == "ev":
                    m.events.post("verif_credit_%d" % o[1])
                elif k == "start":
                    r.hit_and_release_switch("s_start")
                elif k == "starts":
                    for _ in range(o[1]):
                        m.switch_controller.process_switch("s_start", state=1, logical=True)
                        m.switch_controller.process_switch("s_start", state=0, logical=True)
                elif k == "endball":
                    if m.game is not None:
                        m.game.balls_in_play = 0
                elif k == "endgame":
                    if m.game is not None:
                        m.game.end_game()
                elif k == "toggle":
                    m.events.post("toggle_credit_play")
                elif k == "free":
                    m.events.post("enable_free_play")
                elif k == "credit":
                    m.events.post("enable_credit_play")
                elif k == "rc":
                    m.events.post("credits_reset")
                elif k == "re":
                    m.events.post("earnings_reset")
                r.advance(o[1] / 1000.0 if k == "wait" else OP_MS / 1000.0)
                exc = r.exception()
                if exc:
                    raise exc["exception"] if isinstance(exc, dict) and "exception" in exc else RuntimeError(str(exc))
            except Exception as e:   # noqa: what the code raises is data
                out["crash"] = {"at": len(out["rows"]), "type": type(e).__name__, "msg": str(e)[:200]}
                break
            row = snap()
            row["expdue"] = [int(nm in pend and pend[nm] <= r.now()) for nm in
                             ("clear_fractional_credits", "clear_all_credits")]
            out["rows"].append(row)
        out["derived_end"] = derived()
        return out
    finally:
        r._exception = None
        r.stop()


def to_int(x):
    """exact int or None"""
    try:
        if isinstance(x, bool):
            return int(x)
        if isinstance(x, int):
            return x
        if isinstance(x, float) and x == int(x):
            return int(x)
    except (OverflowError, ValueError):
        pass
    return None


def row_z(cfg, row, prev):
    e = row["earn"]
    coins = e.get("1 Total Coins money", 0)
    pcoins = prev["earn"].get("1 Total Coins money", 0)
    accepted = max(0, coins - pcoins)    # earnings_reset empties the audits
    vals = [row["units"], 1 if row["fp"] else 0]
    vals += [0, 0, 0] if row["fp"] else row["wnd"]
    vals += [1 if row["ingame"] else 0, row["npl"], row["cpl"], row["ball"], row["tc"], coins, row["earn_ticks"][0],
             e.get("3 Total Paid Games", 0), e.get("service_credit Awards", 0), e.get("award Awards", 0)]
    vals += row["ev"] + [accepted]
    res = []
    for x in vals:
        z = to_int(x)
        res.append(z if z is not None else -999999)   # non-integer observation: can never equal the model
    return res


def coq_cfg(cfg):
    return "(mkCfg %s %s %s %s %s %s %s %s)" % (
        zlist(cfg["coins"]), coqlist("(%s,%s)" % (zlit(p), zlit(c)) for p, c in cfg["tiers"]), zlit(cfg["max"]),
        zlit(cfg["frac_ms"]), zlit(cfg["all_ms"]), zlist(cfg["evq"]), blit(cfg["boot_fp"]), zlit(cfg["bpg"]))


def coq_op(o):
    k = o[0]
    return {"coin": lambda: "Coin %d" % o[1], "svc": lambda: "Service", "ev": lambda: "CreditEv %d" % o[1],
            "start": lambda: "Start", "starts": lambda: "StartBurst %d" % o[1], "endball": lambda: "EndBall", "endgame": lambda: "EndGame",
            "wait": lambda: "Wait %d" % o[1], "toggle": lambda: "ToggleFree", "free": lambda: "EnableFree",
            "credit": lambda: "EnableCredit", "rc": lambda: "ResetCredits", "re": lambda: "ResetEarnings"}[k]()


def coq_case(case, out):
    cfg = case["cfg"]
    if not cfg_in_domain(cfg):
        return None
    d = out["derived"]
    first = [to_int(d["cu8"]), to_int(d["upg"]), to_int(d["W"])] + [to_int(x) for x in d["table"]]
    first = [x if x is not None else -999999 for x in first]
    rows = [first]
    prev = out["boot"]
    for row in out["rows"]:
        rows.append(row_z(cfg, row, prev))
        prev = row
    # a crash leaves the observation list shorter than the history: the model then disagrees (by construction)
    return "((%s, %s), %s)" % (coq_cfg(cfg), coqlist(coq_op(o) for o in case["ops"]),
                               coqlist(zlist(r) for r in rows))


# ------------------------------------------------------------------------------------------------
# direct oracle: the property's predicate on the implementation's observations (no use of the Coq model)
def fmt_credits(units, upg):
    if upg <= 0:
        return "0"
    w, n = units // upg, units % upg
    if n:
        return "%d %d/%d" % (w, n, upg) if w else "%d/%d" % (n, upg)
    return str(w)


def e_paid(row):
    x = row["earn"].get("3 Total Paid Games", 0)
    return x if isinstance(x, int) else -1


def oracle(case, out):
    cfg = case["cfg"]
    fails = []

    def fail(sig, what):
        if not any(f["sig"] == sig for f in fails):
            fails.append({"sig": sig, "what": what})

    if "crash" in out:
        c = out["crash"]
        fail("crash:" + c["type"], "the credits mode raised %s (%s) at operation %d %r" %
             (c["type"], c["msg"], c["at"], case["ops"][c["at"]]))
    price = cfg["tiers"][0][0] if cfg["tiers"] else 8
    upg = to_int(out["derived_end"]["upg"]) if "derived_end" in out else to_int(out["derived"]["upg"])
    if not upg or upg <= 0:
        if not fails:
            fail("no-credit-units", "credit_units_per_game is %r after the run" % (upg,))
        return fails
    prev = out["boot"]
    exp_coins, exp_ticks = 0, 0
    exp_key = {lb: [0, 0] for lb in cfg["labels"] if lb}
    money = 0            # ticks inserted in the current pricing-tier epoch; None = epoch start not known to the oracle
    for i, (o, row) in enumerate(zip(case["ops"], out["rows"])):
        k = o[0]
        u, pu = to_int(row["units"]), to_int(prev["units"])
        where = "after operation %d %r" % (i, o)
        if u is None:
            fail("balance-not-int", "credit_units is %r %s" % (row["units"], where))
            break
        # bounds ----------------------------------------------------------------------------------
        if u < 0:
            fail("negative-balance", "credit_units = %d %s" % (u, where))
        if cfg["max"] > 0 and Fraction(u, upg) > cfg["max"] and not Fraction(pu, upg) > cfg["max"]:
            fail("cap-overshoot", "balance %s credits exceeds max_credits %d %s (was %s)" %
                 (fmt_credits(u, upg), cfg["max"], where, fmt_credits(pu, upg)))
        # display ---------------------------------------------------------------------------------
        if row["fp"]:
            if row["string"] != "FREE PLAY":
                fail("display-stale", "free play but credits_string = %r %s" % (row["string"], where))
        else:
            want = "CREDITS " + fmt_credits(u, upg)
            if row["string"] != want or row["value"] != fmt_credits(u, upg):
                fail("display-stale", "credit_units = %d (%s) but credits_string = %r / credits_value = %r %s" %
                     (u, want, row["string"], row["value"], where))
        # an expiry deadline fell inside this operation: the exact-delta checks below are skipped for it
        can_expire = any(row["expdue"])
        # start gate ------------------------------------------------------------------------------
        if k in ("start", "starts"):
            began = row["ingame"] and not prev["ingame"]
            added = row["npl"] - (prev["npl"] if prev["ingame"] else 0) if row["ingame"] else 0
            if not prev["fp"] and not row["fp"]:
                blocked_by_game = prev["ingame"] and (prev["npl"] >= MAX_PLAYERS or prev["ball"] > 1)
                burst_defect = (k == "starts" and o[1] >= 2 and prev["ingame"] and not blocked_by_game and
                                upg <= pu < upg * o[1] and added == o[1] and u == 0 and
                                e_paid(row) - e_paid(prev) == o[1])
                if burst_defect:
                    # exactly what the recorded defect produces: all presses approved against the same balance,
                    # deductions floored at 0
                    fail("start-burst-unpaid", "%d presses in one event-queue run with %s credits: %d players added, "
                         "balance %d -> 0 units (price %d units each) %s" % (o[1], fmt_credits(pu, upg), added, pu, upg, where))
                elif added > 0:
                    if pu < upg * added:
                        fail("start-without-price", "%d player(s) added with only %s credits %s" %
                             (added, fmt_credits(pu, upg), where))
                    exp = pu - upg * added
                    if u != exp and not can_expire:
                        fail("start-deduction", "player added: balance went %d -> %d units, price is %d units %s" %
                             (pu, u, upg, where))
                elif not blocked_by_game:
                    if pu >= upg:
                        fail("start-denied", "start/add refused with %s credits %s" % (fmt_credits(pu, upg), where))
                    if row["ev"][0] < 1:
                        fail("start-denied-silent", "start/add refused without not_enough_credits %s" % where)
                    if u != pu and not can_expire:
                        fail("start-deduction", "refused start changed the balance %d -> %d %s" % (pu, u, where))
            if began and not prev["fp"]:
                money = 0
        # earnings --------------------------------------------------------------------------------
        if k == "re":
            exp_coins, exp_ticks = 0, 0
            exp_key = {lb: [0, 0] for lb in exp_key}
        if k == "coin" and not prev["fp"]:
            exp_coins += 1
            exp_ticks += cfg["coins"][o[1]]
            lb = cfg["labels"][o[1]]
            if lb:
                exp_key[lb][0] += 1
                exp_key[lb][1] += cfg["coins"][o[1]]
        e = row["earn"]
        got = (e.get("1 Total Coins money", 0), row["earn_ticks"][0])
        if got != (exp_coins, exp_ticks):
            fail("earnings-mismatch", "audits say %s coins / %s ticks, accepted were %d coins / %d ticks %s" %
                 (got[0], got[1], exp_coins, exp_ticks, where))
        for n, lb in enumerate(x for x in cfg["labels"] if x):
            gk = (e.get("%s Coins money" % lb, 0), row["earn_ticks"][1 + n])
            if gk != tuple(exp_key[lb]):
                fail("earnings-mismatch", "keyed audits of %s say %s, accepted %s %s" % (lb, gk, exp_key[lb], where))
        # balance formula -------------------------------------------------------------------------
        delta = None
        if not prev["fp"]:
            if k == "svc":
                delta = Fraction(1)
            elif k == "ev":
                delta = Fraction(cfg["evq"][o[1]], 4)
            elif k == "coin" and money is not None:
                v = cfg["coins"][o[1]]
                delta = money_yield(cfg["tiers"], money + v) - money_yield(cfg["tiers"], money)
                money += v
        elif k in ("coin", "svc", "ev"):
            delta = Fraction(0)
        if delta is not None:
            before = Fraction(pu, upg)
            want = before + delta
            if cfg["max"] > 0 and want > cfg["max"]:
                want = max(before, Fraction(cfg["max"]))
            if Fraction(u, upg) != want and not can_expire:
                fail("balance-formula", "%r: balance went %s -> %s credits, the pricing table yields %s %s" %
                     (o, fmt_credits(pu, upg), fmt_credits(u, upg), want, where))
        # expirations: while nothing else happens, the balance only changes by a due expiry, which keeps the whole
        # credits (fractional expiry) or clears everything
        if k == "wait":
            if row["expdue"][1]:
                wantu = 0
            elif row["expdue"][0]:
                wantu = pu - pu % upg
            else:
                wantu = pu
            if u != wantu:
                fail("expiry", "wait: balance went %d -> %d units (units per game %d, due expiries %r) %s" %
                     (pu, u, upg, row["expdue"], where))
        # epoch bookkeeping of the oracle: what it does not want to assume makes the epoch unknown
        if k == "rc":
            money = 0
        if k == "endball" and row["ingame"] and row["cpl"] == 1 and row["ball"] == 2:
            money = None
        if row["expdue"][1]:
            money = None       # clear_all_credits may have fired (it restarts the tiers)
        prev = row
    return fails


# ------------------------------------------------------------------------------------------------
def shrink(case):
    ops = case["ops"]
    n = len(ops)
    if n > 1:
        yield {"cfg": case["cfg"], "ops": ops[:n // 2]}
        yield {"cfg": case["cfg"], "ops": ops[:n - 1]}
    for i in range(n):
        yield {"cfg": case["cfg"], "ops": ops[:i] + ops[i + 1:]}
    cfg = case["cfg"]
    for key, val in (("frac_ms", 0), ("all_ms", 0), ("evq", [])):
        if cfg[key] != val and not (key == "evq" and any(o[0] == "ev" for o in ops)):
            c2 = dict(cfg)
            c2[key] = val
            yield {"cfg": c2, "ops": ops}
    if len(cfg["tiers"]) > 1:
        c2 = dict(cfg)
        c2["tiers"] = cfg["tiers"][:-1]
        if cfg_in_domain(c2):
            yield {"cfg": c2, "ops": ops}


def nontrivial(case, out):
    rows = out.get("rows", [])
    coin = any(o[0] == "coin" for o in case["ops"])
    capped = any(r["ev"][1] for r in rows)
    denied = any(r["ev"][0] for r in rows)
    started = any(r["ingame"] for r in rows)
    bonus = any(x for x in out["derived"]["table"])
    return coin and (capped or denied or started or bonus)


def describe(case):
    c = case["cfg"]
    return "tiers=%d max=%s exp=%s fpboot=%s" % (len(c["tiers"]), "0" if not c["max"] else "N",
                                                 "y" if (c["frac_ms"] or c["all_ms"]) else "n", "y" if c["boot_fp"] else "n")


# ------------------------------------------------------------------------------------------------
# suite "units": _calculate_credit_units/_calculate_pricing_tiers on arbitrary (also inexact) coin/price combinations
def gen_units(rng, tier, i):
    coins = [rng.choice([1, 2, 3, 4, 5, 6, 8, 10, 12, 16, 20]) for _ in range(rng.choice([0, 1, 1, 2, 3]))]
    tiers = []
    if rng.random() < 0.9:
        p = rng.choice([1, 2, 3, 4, 5, 6, 8, 10, 12, 16, 20, 24])
        tiers.append([p, 1])
        for _ in range(rng.choice([0, 0, 1, 2, 3])):
            p = max(1, p + rng.choice([-2, 0, 1, 2, 3, 4, 5, 8, 12]))
            tiers.append([p, rng.randint(1, 12)])
    return {"cfg": {"coins": coins, "labels": [None] * len(coins), "tiers": tiers, "max": 0, "frac_ms": 0, "all_ms": 0,
                    "evq": [], "boot_fp": False, "bpg": 1}, "ops": []}


def oracle_units(case, out):
    cfg = case["cfg"]
    if "crash" in out:
        return [{"sig": "crash:" + out["crash"]["type"], "what": "boot/ops raised %s" % out["crash"]["msg"]}]
    d = out["derived"]
    cu, upg = to_int(d["cu8"]), to_int(d["upg"])
    price = cfg["tiers"][0][0] if cfg["tiers"] else 8
    bad = []
    if cu is None or upg is None or cu <= 0 or upg <= 0:
        bad.append("credit unit %r / units per game %r" % (d["cu8"], d["upg"]))
    else:
        if cu * upg != price:
            bad.append("a game costs %d units of %d ticks = %d ticks, configured price is %d ticks" % (upg, cu, cu * upg, price))
        for v in cfg["coins"]:
            if v % cu:
                bad.append("coin of %d ticks is not a whole number of credit units (%d ticks): the code raises on it" % (v, cu))
    if not bad:
        return []
    # exactly the recorded defect?  (the unit is min(|price - min coin|, min coin, price) instead of a common divisor)
    ecu = py_cu(cfg["coins"], cfg["tiers"])
    if cu == ecu and upg == (price // ecu if ecu > 0 else None):
        return [{"sig": "credit-unit-not-divisor", "what": "; ".join(bad)}]
    return [{"sig": "unit-calc-other", "what": "; ".join(bad)}]


def coq_case_units(case, out):
    if "crash" in out:
        return None
    d = out["derived"]
    first = [to_int(d["cu8"]), to_int(d["upg"]), to_int(d["W"])] + [to_int(x) for x in d["table"]]
    first = [x if x is not None else -999999 for x in first]
    return "((%s, (@nil op)), %s)" % (coq_cfg(case["cfg"]), coqlist([zlist(first)]))


def shrink_units(case):
    cfg = case["cfg"]
    for i in range(len(cfg["coins"])):
        c2 = dict(cfg, coins=cfg["coins"][:i] + cfg["coins"][i + 1:], labels=cfg["labels"][1:])
        yield {"cfg": c2, "ops": []}
    if len(cfg["tiers"]) > 1:
        yield {"cfg": dict(cfg, tiers=cfg["tiers"][:-1]), "ops": []}


HDR = "From C20 Require Import Model.\n"

SUITES = [
    Suite("credits", gen, run_impl, HDR, coq_case, oracle, shrink, nontrivial,
          {"quick": 480, "thorough": 12000}, describe=describe, shard=60, case_timeout=120),
    Suite("units", gen_units, run_impl, HDR, coq_case_units, oracle_units, shrink_units,
          lambda c, o: len(c["cfg"]["tiers"]) > 1 or len(c["cfg"]["coins"]) > 1,
          {"quick": 120, "thorough": 3000}, describe=lambda c: "coins=%d tiers=%d" % (len(c["cfg"]["coins"]), len(c["cfg"]["tiers"])),
          shard=200, case_timeout=60),
]

LEVEL_TEXT = ("Machine-checked proof (Coq) over an integer model of the credits mode that, for every configuration with "
              "positive units-per-game and a monotone pricing table and for every history of operations, the balance "
              "stays within 0..max_credits*units_per_game, the pricing table equals the closed form of the greedy tier "
              "bonus (and n units inserted yield n + G(n)), a start/add-player deducts exactly one game price and only "
              "when affordable, and the coin audits equal the coins accepted; the model is tied to the working tree by "
              "running the real credits mode and the model on the same generated histories on every run.")
LEVEL_NOTE = ("Trusted: Coq kernel + vm_compute; no axioms. Model hand-written (fixed code: three fix patches); money on a 1/8 "
              "grid so floats are exact; game/attract interaction reduced to start, add player, rotation and end; the "
              "correspondence compares 19 observations after every operation plus the derived pricing table.")
TECHNIQUE = "Coq proof over hand-written executable model + differential correspondence (vm_compute) + direct property oracle"
DESIGN_REF = "DESIGN.md section 3, C20"
