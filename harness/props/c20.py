"""C20 — Credits: balance follows the pricing table and stays within bounds."""
from fractions import Fraction

from vlib import Suite, zlist, zlit, coqlist, blit

ID = "C20"
READY = True
RULE = ("credits: one real machine (credits mode + real attract/game modes on the virtual clock) is booted per case from "
        "a generated credits: section (coin values and prices in eighths OR in cents — 30% decimal currencies whose doubles "
        "are inexact —, 0-3 extra pricing tiers incl. skipped ones, max_credits 0/N, both expiration times, credit events, "
        "free_play at boot, balls_per_game, persist_credits_while_off_time 0/30/120/3600 s) and driven by a history of 10-60 "
        "operations (coin switches, service switch, credit events, start button incl. bursts of 2-4 presses inside one run "
        "of the event queue, 1-3 start presses while a test handler holds the player_adding queue for 0.125-61 s, ball ends, game end, waits on a 125 ms grid, toggle/enable free/credit play, credits_reset, "
        "earnings_reset, power cycles); after every operation the machine variables, game state, tier counter, earnings, "
        "posted events, the stored free_play variable and the persist flag / timeout of credit_units are observed.  "
        "Histories are biased to run into the maximum with a multi-unit coin, to cross tier wrap-arounds and game starts, "
        "and (30% of the multi-ball configurations) to play two games with money inserted before and after ball 2 of "
        "player 1 of the second game.  non-trivial = an accepted coin and at least one of: cap reached, tier bonus "
        "granted, start denied/accepted, expiry fired; distinct by case hash.  reboot: short histories around 1-2 power "
        "cycles (the machine is stopped, a new one is booted from the data the TestDataManagers wrote, its clock set to "
        "power-off time + off time, off times on both sides of the persistence time); non-trivial = a power cycle with a "
        "non-zero balance or a changed free_play setting.  units: coin-value/price/tier combinations in eighths and in "
        "cents that are NOT restricted to the exact domain (unit not a divisor of the price, lower/equal later tiers, "
        "negative bonuses); the derived unit (exact double), units per game, wrap-around and pricing table are compared "
        "with the float-faithful model and the oracle checks that a game costs the configured price; non-trivial = more "
        "than one coin value or tier")
TRUSTED_BASE = [
    "Coq 8.16.1 kernel (coqc), vm_compute for the refutation witnesses, the bounded-exhaustive float theorem and for evaluating the model in the correspondence run; no native_compute",
    "axioms: none (every Print Assumptions is 'Closed under the global context')",
    "hand-written model coq/C20/Model.v of credits.py (+ the start/add-player/rotation skeleton of game.py, the credit_units "
    "part of machine_vars.py, the read path of settings_controller.py), tied to the working tree by correspondence: "
    "harness/props/c20.py runs the real credits mode inside a real MachineController (mpf.tests TestMachineController on "
    "the virtual clock, TestDataManager as disk) and the model on the same histories",
    "coq/C20/Float.v: binary64 as exact rationals (round-to-nearest-even to 53 bits; same construction as coq/C12), used for "
    "value/price/unit arithmetic; Python's float() of a decimal literal and json/yaml round trip are taken to be correctly rounded",
    "`while x >= t` loops of _calculate_pricing_tiers are modelled by integer division",
    "the direct oracle (Python) evaluates bounds, start gate, display, earnings, game price, the money-level pricing formula "
    "with its own tier-epoch rule, and the power-cycle clauses on the implementation's observations",
]
ASSUMPTIONS = [
    "fixes/C20-cap-overshoot.patch, C20-freeplay-boot-units.patch, C20-duplicate-credit-handlers.patch (commits 8c88f5c, ebe35ba, "
    "5503f26 in /repo) AND fixes/C20-decimal-prices-float-truncation.patch (new, to be applied) — the model is of the fixed code",
    "configuration domain of the history suites: every coin value and tier price is (ideally) a whole number of the computed "
    "credit unit, event credits a whole number of units, first tier gives 1 credit, yields are monotone (otherwise the code raises or rounds; see NOTES.md)",
    "configuration is constant during a run (max_credits and prices are templates in MPF)",
    "no extra balls, no slam tilt; operations are at least 125 ms apart and never coincide with an expiry deadline or a power-on",
    "held player_adding queues only in the shape StartHeld n w: n presses in one event-queue run, all queues released together after w ms, nothing else during the hold",
    "earnings money sums of cent configurations are compared after rounding to the nearest cent (float accumulation error < 1e-6)",
]

TICK = 0.125
OP_MS = 125
MAX_PLAYERS = 4


# ------------------------------------------------------------------------------------------------
# generator-side arithmetic (only used to stay inside the model's stated domain)
def py_cu(coins, tiers, scale=8):
    price = tiers[0][0] if tiers else scale
    m = min(coins) if coins else price
    if m == price:
        return m
    if m < price:
        return min(price - m, m)
    return min(m - price, price)


def eff_tiers(tiers, scale=8):
    """tiers the code keeps (price >= last kept price), in money terms"""
    kept = []
    for p, cr in tiers:
        if kept and p < kept[-1][0]:
            continue
        kept.append((p, cr))
    return kept


def money_yield(tiers, m, scale=8):
    """credits (Fraction) that m minor units buy: greedy from the most expensive tier, rest at the base price"""
    kept = eff_tiers(tiers) or [(scale, 1)]
    r = m
    cr = Fraction(0)
    for p, c in reversed(kept):
        k = r // p
        cr += k * c
        r -= k * p
    return cr + Fraction(r, kept[0][0])


def cfg_in_domain(cfg):
    coins, tiers = cfg["coins"], cfg["tiers"]
    S = cfg.get("scale", 8)
    cu = py_cu(coins, tiers, S)
    if cu <= 0:
        return False
    price = tiers[0][0] if tiers else S
    if price % cu or any(v % cu for v in coins) or any(p % cu or p <= 0 for p, _ in tiers):
        return False
    if tiers and tiers[0][1] != 1:
        return False
    upg = price // cu
    if any((q * upg) % 4 for q in cfg["evq"]):
        return False
    kept = eff_tiers(tiers)
    top = kept[-1][0] if kept else S
    ys = [money_yield(tiers, u * cu, S) for u in range(top // cu + 2)]
    return all(a <= b for a, b in zip(ys, ys[1:]))


COINSETS = [[2], [2, 8], [2, 2, 8], [4, 8], [8], [8, 16], [2, 4, 8], [4], [16], [], [4, 16], [2, 16], [6, 12]]
PRICES = [2, 4, 4, 6, 8, 8, 12, 16, 24]
# decimal currencies (cents): values that are not exact in binary
COINSETS_C = [[10], [10, 20, 50], [10, 50, 100], [5], [5, 10, 25], [20, 50], [20], [10, 20, 50, 100, 200], [5, 20],
              [50, 100], [10, 30], [], [1, 5]]
PRICES_C = [30, 60, 70, 50, 100, 15, 35, 40, 90, 110, 120, 150, 3, 7]
PERSIST = [0, 30, 30, 120, 3600, 3600]
REBOOT_OFF = [1030, 10030, 29030, 31030, 60030, 119030, 121030, 3599030, 3601030, 7200030]


def gen_cfg(rng, decimal=None):
    if decimal is None:
        decimal = rng.random() < 0.3
    S = 100 if decimal else 8
    for _ in range(400):
        coins = list(rng.choice(COINSETS_C if decimal else COINSETS))
        tiers = []
        if rng.random() < 0.9:
            p1 = rng.choice(PRICES_C if decimal else PRICES)
            tiers.append([p1, 1])
            p = p1
            for _ in range(rng.choice([0, 1, 1, 2, 3])):
                if rng.random() < 0.12:
                    p2 = max(1, p - rng.choice([1, 2, 4]))      # lower than the previous one: the code skips it
                    tiers.append([p2, rng.randint(1, 6)])
                    continue
                cu0 = max(1, py_cu(coins, tiers, S))
                p = p + cu0 * rng.choice([1, 2, 2, 3, 4, 6, 8, 12])
                base = -(-p // p1)
                tiers.append([p, base + rng.choice([0, 1, 1, 2, 3, 5])])
        cu = py_cu(coins, tiers, S)
        price = tiers[0][0] if tiers else S
        upg = price // cu if cu > 0 else 0
        evq = rng.choice([[4], [4, 8], [4, 12], [2, 4], [1, 4], []])
        evq = [q for q in evq if upg and (q * upg) % 4 == 0]
        cfg = {"coins": coins, "labels": [rng.choice([None, "K%d" % i]) for i in range(len(coins))], "tiers": tiers,
               "max": rng.choice([0, 0, 1, 2, 3, 3, 5, 8, 12]),
               "frac_ms": rng.choice([0, 0, 5060, 10060, 20060]), "all_ms": rng.choice([0, 0, 15060, 30060, 60060]),
               "evq": evq, "boot_fp": rng.random() < 0.15, "bpg": rng.choice([1, 2, 3]),
               "persist_s": rng.choice(PERSIST), "scale": S}
        if cfg_in_domain(cfg):
            return cfg
    return {"coins": [2, 8], "labels": [None, "R"], "tiers": [[4, 1], [16, 5]], "max": 12, "frac_ms": 10060,
            "all_ms": 30060, "evq": [4], "boot_fp": False, "bpg": 2, "persist_s": 30, "scale": 8}


def gen_ops(rng, cfg, n, reboot_p=0.004):
    ops = []
    nco, nev = len(cfg["coins"]), len(cfg["evq"])
    big = max(range(nco), key=lambda k: cfg["coins"][k]) if nco else None
    if cfg["boot_fp"] and rng.random() < 0.85:
        ops.append(rng.choice([["toggle"], ["credit"]]))
    if cfg["max"] and rng.random() < 0.5:
        # walk up to just below the maximum with service credits, then a multi-unit coin
        ops += [["svc"]] * max(0, cfg["max"] - rng.choice([0, 1, 1, 2]))
        if nco and rng.random() < 0.5:
            ops.append(["coin", rng.randrange(nco)])
        if big is not None:
            ops.append(["coin", big])
    if not cfg["boot_fp"] and rng.random() < 0.15:
        # a game on ball 1 with exactly k game prices left, then k+1.. presses at once
        k = rng.choice([1, 1, 2])
        ops += [["svc"]] * (k + 1) + [["start"], ["starts", k + rng.choice([1, 1, 2])]]
    if not cfg["boot_fp"] and cfg["bpg"] >= 2 and nco and rng.random() < 0.3:
        # two games; in the second one money is inserted on ball 1 and again after ball 2 of player 1 has started
        # (tier counting restarts there, once per game, in every game)
        ops += [["svc"]] * rng.choice([2, 3]) + [["start"]] + [["endball"]] * rng.choice([1, 1, 2])
        ops += [rng.choice([["endgame"], ["endgame"], ["endball"]])] if cfg["bpg"] == 2 else [["endgame"]]
        if rng.random() < 0.3:
            ops.append(["endgame"])
        ops += [["start"]] + [["coin", big]] * rng.choice([1, 1, 2, 3]) + [["endball"]] + [["coin", big]] * rng.choice([1, 2, 3])
    while len(ops) < n:
        r = rng.random()
        if r < reboot_p:
            ops.append(["reboot", rng.choice(REBOOT_OFF)])
        elif r < reboot_p + 0.03:
            # start presses while a handler holds the player_adding queue, sometimes longer than an expiry time
            if nco and rng.random() < 0.5:
                ops.append(["coin", rng.randrange(nco)])
            ops.append(["held", rng.choice([1, 1, 2, 3]), rng.choice([125, 1000, 5000, 12000, 21000, 35000, 61000])])
        elif r < 0.40 and nco:
            k = big if rng.random() < 0.4 else rng.randrange(nco)
            ops += [["coin", k]] * rng.choice([1, 1, 1, 2, 3, 5])
        elif r < 0.48:
            ops.append(["svc"])
        elif r < 0.54 and nev:
            ops.append(["ev", rng.randrange(nev)])
        elif r < 0.68:
            if rng.random() < 0.35:
                ops.append(["starts", rng.choice([2, 2, 3, 4])])     # presses inside one run of the event queue
            else:
                ops += [["start"]] * rng.choice([1, 1, 2])
        elif r < 0.76:
            ops.append(["endball"])
        elif r < 0.79:
            ops.append(["endgame"])
        elif r < 0.89:
            ops.append(["wait", rng.choice([125, 1000, 5000, 5000, 10000, 15000, 30000, 60000, 125 * rng.randint(1, 400)])])
        elif r < 0.92:
            ops.append(["toggle"])
        elif r < 0.935:
            ops.append(["free"])
        elif r < 0.97:
            ops.append(["credit"])
        elif r < 0.985:
            ops.append(["rc"])
        else:
            ops.append(["re"])
    return ops[:n + 14]


def gen(rng, tier, i):
    cfg = gen_cfg(rng)
    return {"cfg": cfg, "ops": gen_ops(rng, cfg, rng.choice([10, 20, 30, 45, 60]))}


def gen_reboot(rng, tier, i):
    """short histories around power cycles: balance, free_play setting and earnings against the data files"""
    cfg = gen_cfg(rng)
    if rng.random() < 0.8:
        cfg["persist_s"] = rng.choice([30, 30, 120, 3600])
    ops = gen_ops(rng, cfg, rng.choice([4, 8, 12]), reboot_p=0.0)[:14]
    for _ in range(rng.choice([1, 1, 2])):
        if rng.random() < 0.5:
            ops.append(["wait", rng.choice([125, 1000, 10000, 25000, 35000, 100000, 125000])])
        ops.append(["reboot", rng.choice(REBOOT_OFF)])
        ops += gen_ops(rng, cfg, rng.choice([2, 4, 8]), reboot_p=0.0)[:10] if rng.random() < 0.8 else []
        if cfg["boot_fp"] and rng.random() < 0.5:
            ops.append(rng.choice([["toggle"], ["credit"]]))
    return {"cfg": cfg, "ops": ops}


# ------------------------------------------------------------------------------------------------
# implementation side
def scale_of(cfg):
    return cfg.get("scale", 8)


def money(cfg, v):
    """the float the configuration file contains for v minor units (ticks of 1/8: exact; cents: nearest double)"""
    return v / float(scale_of(cfg))


def machine_config(cfg):
    nco = len(cfg["coins"])
    switches = {"s_c%d" % k: {"number": None} for k in range(nco)}
    switches["s_esc"] = {"number": None}
    switches["s_start"] = {"number": None, "tags": "start"}
    credits = {
        "max_credits": cfg["max"], "free_play": bool(cfg["boot_fp"]), "service_credits_switch": "s_esc",
        "persist_credits_while_off_time": "%ds" % cfg.get("persist_s", 0),
        "switches": [dict({"switch": "s_c%d" % k, "value": money(cfg, cfg["coins"][k]), "type": "money"},
                          **({"label": cfg["labels"][k]} if cfg["labels"][k] else {})) for k in range(nco)],
        "events": [{"event": "verif_credit_%d" % j, "credits": q / 4.0, "type": "award"} for j, q in enumerate(cfg["evq"])],
        "pricing_tiers": [{"price": money(cfg, p), "credits": cr} for p, cr in cfg["tiers"]],
        "fractional_credit_expiration_time": "%dms" % cfg["frac_ms"],
        "credit_expiration_time": "%dms" % cfg["all_ms"],
    }
    return {"modes": ["credits"], "machine": {"min_balls": 0}, "game": {"balls_per_game": cfg["bpg"]},
            "switches": switches, "credits": credits}


MODES = {"credits": {"mode": {"priority": 11000, "start_events": "machine_reset_phase_3", "stop_on_ball_end": False}}}


def first_price(cfg):
    return cfg["tiers"][0][0] if cfg["tiers"] else scale_of(cfg)


def run_impl(case):
    import copy
    from fractions import Fraction as Fr
    from rig import Rig
    from unittest.mock import MagicMock
    cfg = case["cfg"]
    S = scale_of(cfg)
    mcfg = machine_config(cfg)
    cnt = {"ne": 0, "mx": 0, "ad": 0}
    box = {}

    def h_ne(**kwargs):
        cnt["ne"] += 1

    def h_mx(**kwargs):
        cnt["mx"] += 1

    def h_ad(**kwargs):
        cnt["ad"] += 1

    def boot(data, t):
        r = Rig(mcfg, modes=MODES, mock_data=data, mock_loop=(lambda rg: rg.loop.set_time(t)))
        r.start()
        box["r"] = r
        m = r.machine
        m.events.add_handler("not_enough_credits", h_ne)
        m.events.add_handler("max_credits_reached", h_mx)
        m.events.add_handler("credits_added", h_ad)
        m.playfield.add_ball = MagicMock()
        m.ball_controller.num_balls_known = 3
        cnt["ne"] = cnt["mx"] = cnt["ad"] = 0
        return r

    def disk(r):
        out = {}
        for name, dm in (("machine_vars", r.machine.variables.machine_var_data_manager),
                         ("earnings", r.machine.modes["credits"].data_manager)):
            out[name] = copy.deepcopy(dm.written_data if dm.written_data is not None else dm.data)
        return out

    def to_minor(x):
        """money audit (float sum) in minor units; exact for ticks, nearest integer for cents when within 1e-6"""
        y = float(x) * S
        return round(y) if abs(y - round(y)) < 1e-6 else y

    r = boot({}, 0.0)
    try:
        def snap():
            m = box["r"].machine
            cm = m.modes["credits"]
            v = m.variables
            g = m.game
            e = cm.earnings
            cuv = v.machine_vars.get("credit_units")
            tmo = cuv.get("timeout") if cuv else None
            out = {
                "units": v.get_machine_var("credit_units") or 0,
                "string": v.get_machine_var("credits_string"),
                "value": v.get_machine_var("credits_value"),
                "wnd": [v.get_machine_var("credits_whole_num") or 0, v.get_machine_var("credits_numerator") or 0,
                        v.get_machine_var("credits_denominator") or 0],
                "fp": bool(m.settings.get_setting_value("free_play")),
                "fpvar": v.get_machine_var("free_play"),
                "ingame": g is not None,
                "npl": g.num_players if g is not None else 0,
                "cpl": g.player.number if g is not None and g.player else 0,
                "ball": g.player.ball if g is not None and g.player else 0,
                "tc": cm.credit_units_for_pricing_tiers,
                "earn": {k: (x if isinstance(x, (int, str)) else repr(x)) for k, x in e.items()},
                "earn_ticks": [to_minor(e.get("2 Total Earnings money", 0))] +
                              [to_minor(e.get("%s Earnings money" % lb, 0)) for lb in cfg["labels"] if lb],
                "ev": [cnt["ne"], cnt["mx"], cnt["ad"]],
                # persistence of the balance: persist flag and timeout (ms of model time: virtual clock - 1 ms boot)
                "pers": int(bool(cuv and cuv.get("persist"))),
                "pexp": int(round((tmo - 100000.0 - 0.001) * 1000)) if tmo else -1,
                "t": int(round((box["r"].now() - 0.001) * 1000)),
            }
            cnt["ne"] = cnt["mx"] = cnt["ad"] = 0
            return out

        def derived():
            cm = box["r"].machine.modes["credits"]
            W = cm.pricing_tiers_wrap_around
            cu = Fr(cm.credit_unit) if cm.credit_unit else Fr(0)
            return {"cu": [cu.numerator, cu.denominator], "cuf": float(cm.credit_unit), "upg": cm.credit_units_per_game,
                    "W": W, "table": [cm.pricing_table.get(u, 0) for u in range(int(W) + 1)]}

        out = {"derived": derived(), "boot": snap(), "rows": []}
        for o in case["ops"]:
            try:
                r = box["r"]
                m = r.machine
                cm = m.modes["credits"]
                k = o[0]
                pend = {nm: cm.delay.delays[nm][0].when() for nm in ("clear_fractional_credits", "clear_all_credits")
                        if nm in cm.delay.delays}
                if k == "coin":
                    r.hit_and_release_switch("s_c%d" % o[1])
                elif k == "svc":
                    r.hit_and_release_switch("s_esc")
                elif k == "ev":
                    m.events.post("verif_credit_%d" % o[1])
                elif k == "start":
                    r.hit_and_release_switch("s_start")
                elif k == "starts":
                    for _ in range(o[1]):
                        m.switch_controller.process_switch("s_start", state=1, logical=True)
                        m.switch_controller.process_switch("s_start", state=0, logical=True)
                elif k == "held":
                    # a handler holds every player_adding queue; o[1] presses inside one event-queue run; the queues
                    # are released, in order, o[2] ms later
                    held = []

                    def hold(queue, **kwargs):
                        queue.wait()
                        held.append(queue)
                    m.events.add_handler("player_adding", hold)
                    for _ in range(o[1]):
                        m.switch_controller.process_switch("s_start", state=1, logical=True)
                        m.switch_controller.process_switch("s_start", state=0, logical=True)
                    r.advance(o[2] / 1000.0)
                    m.events.remove_handler(hold)
                    for q in held:
                        q.clear()
                elif k == "endball":
                    if m.game is not None:
                        m.game.balls_in_play = 0
                elif k == "endgame":
                    if m.game is not None:
                        m.game.end_game()
                elif k == "toggle":
                    m.events.post("toggle_credit_play")
                elif k == "free":
                    m.events.post("enable_free_play")
                elif k == "credit":
                    m.events.post("enable_credit_play")
                elif k == "rc":
                    m.events.post("credits_reset")
                elif k == "re":
                    m.events.post("earnings_reset")
                elif k == "reboot":
                    # power off: what the data managers wrote so far is all that survives; power on o[1] ms later
                    data = disk(r)
                    t_off = r.now()
                    r._exception = None
                    r.stop()
                    box.pop("r")
                    pend = {}
                    r = boot(data, t_off + o[1] / 1000.0)
                r.advance(o[1] / 1000.0 if k == "wait" else OP_MS / 1000.0)
                exc = r.exception()
                if exc:
                    raise exc["exception"] if isinstance(exc, dict) and "exception" in exc else RuntimeError(str(exc))
            except Exception as e:   # noqa: what the code raises is data
                out["crash"] = {"at": len(out["rows"]), "type": type(e).__name__, "msg": str(e)[:200]}
                break
            row = snap()
            row["expdue"] = [int(nm in pend and pend[nm] <= r.now()) for nm in
                             ("clear_fractional_credits", "clear_all_credits")]
            out["rows"].append(row)
        if "r" in box:
            out["derived_end"] = derived()
        return out
    finally:
        if "r" in box:
            box["r"]._exception = None
            box["r"].stop()


def to_int(x):
    """exact int or None"""
    try:
        if isinstance(x, bool):
            return int(x)
        if isinstance(x, int):
            return x
        if isinstance(x, float) and x == int(x):
            return int(x)
    except (OverflowError, ValueError):
        pass
    return None


def row_z(cfg, row, prev):
    e = row["earn"]
    coins = e.get("1 Total Coins money", 0)
    pcoins = prev["earn"].get("1 Total Coins money", 0)
    accepted = max(0, coins - pcoins)    # earnings_reset empties the audits
    vals = [row["units"], 1 if row["fp"] else 0]
    vals += [0, 0, 0] if row["fp"] else row["wnd"]
    vals += [1 if row["ingame"] else 0, row["npl"], row["cpl"], row["ball"], row["tc"], coins, row["earn_ticks"][0],
             e.get("3 Total Paid Games", 0), e.get("service_credit Awards", 0), e.get("award Awards", 0)]
    vals += [row["pers"], row["pexp"]]
    vals += row["ev"] + [accepted]
    res = []
    for x in vals:
        z = to_int(x)
        res.append(z if z is not None else -999999)   # non-integer observation: can never equal the model
    return res


def coq_cfg(cfg):
    return "(mkCfg %s %s %s %s %s %s %s %s %s %s)" % (
        zlist(cfg["coins"]), coqlist("(%s,%s)" % (zlit(p), zlit(c)) for p, c in cfg["tiers"]), zlit(cfg["max"]),
        zlit(cfg["frac_ms"]), zlit(cfg["all_ms"]), zlist(cfg["evq"]), blit(cfg["boot_fp"]), zlit(cfg["bpg"]),
        zlit(cfg.get("persist_s", 0) * 1000), zlit(scale_of(cfg)))


def coq_op(o):
    k = o[0]
    return {"coin": lambda: "Coin %d" % o[1], "svc": lambda: "Service", "ev": lambda: "CreditEv %d" % o[1],
            "start": lambda: "Start", "starts": lambda: "StartBurst %d" % o[1], "endball": lambda: "EndBall", "endgame": lambda: "EndGame",
            "wait": lambda: "Wait %d" % o[1], "toggle": lambda: "ToggleFree", "free": lambda: "EnableFree",
            "credit": lambda: "EnableCredit", "rc": lambda: "ResetCredits", "re": lambda: "ResetEarnings",
            "reboot": lambda: "Reboot %d" % o[1], "held": lambda: "StartHeld %d %d" % (o[1], o[2])}[k]()


def first_row(d):
    first = [d["cu"][0], d["cu"][1], to_int(d["upg"]), to_int(d["W"])] + [to_int(x) for x in d["table"]]
    return [x if x is not None else -999999 for x in first]


def coq_case(case, out):
    cfg = case["cfg"]
    if not cfg_in_domain(cfg):
        return None
    rows = [first_row(out["derived"])]
    prev = out["boot"]
    for row in out["rows"]:
        rows.append(row_z(cfg, row, prev))
        prev = row
    # a crash leaves the observation list shorter than the history: the model then disagrees (by construction)
    return "((%s, %s), %s)" % (coq_cfg(cfg), coqlist(coq_op(o) for o in case["ops"]),
                               coqlist(zlist(r) for r in rows))


# ------------------------------------------------------------------------------------------------
# direct oracle: the property's predicate on the implementation's observations (no use of the Coq model)
def fmt_credits(units, upg):
    if upg <= 0:
        return "0"
    w, n = units // upg, units % upg
    if n:
        return "%d %d/%d" % (w, n, upg) if w else "%d/%d" % (n, upg)
    return str(w)


def e_paid(row):
    x = row["earn"].get("3 Total Paid Games", 0)
    return x if isinstance(x, int) else -1


def oracle(case, out):
    cfg = case["cfg"]
    fails = []

    def fail(sig, what):
        if not any(f["sig"] == sig for f in fails):
            fails.append({"sig": sig, "what": what})

    if "crash" in out:
        c = out["crash"]
        fail("crash:" + c["type"], "the credits mode raised %s (%s) at operation %d %r" %
             (c["type"], c["msg"], c["at"], case["ops"][c["at"]]))
    S = scale_of(cfg)
    price = first_price(cfg)
    dd = out["derived_end"] if "derived_end" in out else out["derived"]
    upg = to_int(dd["upg"])
    if not upg or upg <= 0:
        if not fails:
            fail("no-credit-units", "credit_units_per_game is %r after the run" % (upg,))
        return fails
    # a game costs the configured price (the configuration is inside the domain where the unit divides it)
    if cfg_in_domain(cfg) and abs(upg * dd["cuf"] * S - price) > 1e-6:
        fail("game-price", "a game costs %d units of %r = %r, the configured price is %r" %
             (upg, dd["cuf"], upg * dd["cuf"], price / float(S)))
    prev = out["boot"]
    oflag = False        # tier counting already restarted in this game (None = not known to the oracle)
    last_change = None   # model time (ms) of the last observed change of the balance in this boot
    # the oracle's own bookkeeping of the two expiry deadlines (ms): armed by an accepted coin, a credit event and a
    # game end in credit play; removed by a game start in credit play and by a power cycle
    dls = {"frac": None, "all": None}
    dl_ms = {"frac": cfg["frac_ms"], "all": cfg["all_ms"]}
    exp_coins, exp_ticks = 0, 0
    exp_key = {lb: [0, 0] for lb in cfg["labels"] if lb}
    money = 0            # ticks inserted in the current pricing-tier epoch; None = epoch start not known to the oracle
    for i, (o, row) in enumerate(zip(case["ops"], out["rows"])):
        k = o[0]
        u, pu = to_int(row["units"]), to_int(prev["units"])
        where = "after operation %d %r" % (i, o)
        if u is None:
            fail("balance-not-int", "credit_units is %r %s" % (row["units"], where))
            break
        # bounds ----------------------------------------------------------------------------------
        if u < 0:
            fail("negative-balance", "credit_units = %d %s" % (u, where))
        if cfg["max"] > 0 and Fraction(u, upg) > cfg["max"] and not Fraction(pu, upg) > cfg["max"]:
            fail("cap-overshoot", "balance %s credits exceeds max_credits %d %s (was %s)" %
                 (fmt_credits(u, upg), cfg["max"], where, fmt_credits(pu, upg)))
        # display ---------------------------------------------------------------------------------
        if row["fp"]:
            if row["string"] != "FREE PLAY":
                fail("display-stale", "free play but credits_string = %r %s" % (row["string"], where))
        else:
            want = "CREDITS " + fmt_credits(u, upg)
            if row["string"] != want or row["value"] != fmt_credits(u, upg):
                fail("display-stale", "credit_units = %d (%s) but credits_string = %r / credits_value = %r %s" %
                     (u, want, row["string"], row["value"], where))
        # an expiry deadline fell inside this operation: the exact-delta checks below are skipped for it
        can_expire = any(row["expdue"])
        # start gate ------------------------------------------------------------------------------
        if k in ("start", "starts", "held"):
            began = row["ingame"] and not prev["ingame"]
            added = row["npl"] - (prev["npl"] if prev["ingame"] else 0) if row["ingame"] else 0
            if not prev["fp"] and not row["fp"]:
                blocked_by_game = prev["ingame"] and (prev["npl"] >= MAX_PLAYERS or prev["ball"] > 1)
                burst_defect = (k in ("starts", "held") and o[1] >= 2 and prev["ingame"] and not blocked_by_game and
                                upg <= pu < upg * o[1] and added == o[1] and u == 0 and
                                e_paid(row) - e_paid(prev) == o[1])
                if burst_defect:
                    # exactly what the recorded defect produces: all presses approved against the same balance,
                    # deductions floored at 0
                    fail("start-burst-unpaid", "%d presses in one event-queue run with %s credits: %d players added, "
                         "balance %d -> 0 units (price %d units each) %s" % (o[1], fmt_credits(pu, upg), added, pu, upg, where))
                elif added > 0:
                    if pu < upg * added:
                        fail("start-without-price", "%d player(s) added with only %s credits %s" %
                             (added, fmt_credits(pu, upg), where))
                    exp = pu - upg * added
                    if u != exp and not can_expire:
                        fail("start-deduction", "player added: balance went %d -> %d units, price is %d units %s" %
                             (pu, u, upg, where))
                elif not blocked_by_game:
                    if pu >= upg:
                        fail("start-denied", "start/add refused with %s credits %s" % (fmt_credits(pu, upg), where))
                    if row["ev"][0] < 1:
                        fail("start-denied-silent", "start/add refused without not_enough_credits %s" % where)
                    if u != pu and not can_expire:
                        fail("start-deduction", "refused start changed the balance %d -> %d %s" % (pu, u, where))
            if began and not prev["fp"]:
                money = 0
        # tier progress restarts when ball 2 of player 1 starts, once per game, in every game played in credit play
        if k == "endball" and row["ingame"] and row["cpl"] == 1 and row["ball"] == 2 and not row["fp"]:
            if oflag is None:
                money = None
            elif not oflag:
                money = 0
            oflag = True
        if prev["ingame"] and not row["ingame"] and k != "reboot":
            # the game ended; in free play the credits mode does not watch games (a restart that already
            # happened in that game is then not known to be forgotten: the oracle assumes nothing)
            oflag = (None if oflag else False) if prev["fp"] else False
        # power cycle -------------------------------------------------------------------------------
        if k == "reboot":
            P = cfg.get("persist_s", 0) * 1000
            t_on = prev["t"] + o[1]
            keep = bool(prev["pers"]) and (prev["pexp"] < 0 or prev["pexp"] >= t_on)
            if P > 0 and pu and not prev["pers"]:
                fail("reboot-balance", "persist_credits_while_off_time is %d s but the balance %d is not persisted %s" %
                     (P // 1000, pu, where))
            if P > 0 and last_change is not None and prev["pexp"] >= 0 and prev["pexp"] < last_change + P:
                fail("reboot-balance", "balance last changed at %d ms, persisted for %d ms, but expires at %d ms %s" %
                     (last_change, P, prev["pexp"], where))
            wantu = pu if keep else 0
            if u != wantu:
                fail("reboot-balance", "power cycle of %d ms: balance %d -> %d units, expected %d (persist %d s, "
                     "written data expire at %r, power on at %d ms) %s" % (o[1], pu, u, wantu, P // 1000, prev["pexp"], t_on, where))
            if row["fp"] != prev["fp"]:
                fail("reboot-setting", "free_play setting was %r before the power cycle and reads %r after it %s" %
                     (prev["fp"], row["fp"], where))
            if row["earn"] != prev["earn"]:
                fail("reboot-earnings", "earnings changed over a power cycle: %r -> %r %s" % (prev["earn"], row["earn"], where))
            if row["ingame"] or row["tc"] != 0:
                fail("reboot-state", "game / tier progress survived a power cycle %s" % where)
            money = 0
            oflag = False
            last_change = None
        # stored setting = setting read back
        if row["fpvar"] is not None and bool(row["fpvar"]) != row["fp"]:
            fail("setting-readback", "machine var free_play = %r but the setting reads %r %s" % (row["fpvar"], row["fp"], where))
        if u != pu and k != "reboot":
            last_change = prev["t"]
        # earnings --------------------------------------------------------------------------------
        if k == "re":
            exp_coins, exp_ticks = 0, 0
            exp_key = {lb: [0, 0] for lb in exp_key}
        if k == "coin" and not prev["fp"]:
            exp_coins += 1
            exp_ticks += cfg["coins"][o[1]]
            lb = cfg["labels"][o[1]]
            if lb:
                exp_key[lb][0] += 1
                exp_key[lb][1] += cfg["coins"][o[1]]
        e = row["earn"]
        got = (e.get("1 Total Coins money", 0), row["earn_ticks"][0])
        if got != (exp_coins, exp_ticks):
            fail("earnings-mismatch", "audits say %s coins / %s ticks, accepted were %d coins / %d ticks %s" %
                 (got[0], got[1], exp_coins, exp_ticks, where))
        for n, lb in enumerate(x for x in cfg["labels"] if x):
            gk = (e.get("%s Coins money" % lb, 0), row["earn_ticks"][1 + n])
            if gk != tuple(exp_key[lb]):
                fail("earnings-mismatch", "keyed audits of %s say %s, accepted %s %s" % (lb, gk, exp_key[lb], where))
        # balance formula -------------------------------------------------------------------------
        delta = None
        if not prev["fp"]:
            if k == "svc":
                delta = Fraction(1)
            elif k == "ev":
                delta = Fraction(cfg["evq"][o[1]], 4)
            elif k == "coin" and money is not None:
                v = cfg["coins"][o[1]]
                delta = money_yield(cfg["tiers"], money + v, S) - money_yield(cfg["tiers"], money, S)
                money += v
        elif k in ("coin", "svc", "ev"):
            delta = Fraction(0)
        if delta is not None:
            before = Fraction(pu, upg)
            want = before + delta
            if cfg["max"] > 0 and want > cfg["max"]:
                want = max(before, Fraction(cfg["max"]))
            if Fraction(u, upg) != want and not can_expire:
                fail("balance-formula", "%r: balance went %s -> %s credits, the pricing table yields %s %s" %
                     (o, fmt_credits(pu, upg), fmt_credits(u, upg), want, where))
        # the oracle's own deadlines: effects of the operation at its start, then what falls due until its end
        began_now = row["ingame"] and not prev["ingame"] and k != "reboot"
        ended_now = prev["ingame"] and not row["ingame"] and k != "reboot"
        if k == "reboot":
            dls = {"frac": None, "all": None}
        elif not prev["fp"]:
            if k in ("coin", "ev") or ended_now:
                for nm in dls:
                    if dl_ms[nm]:
                        dls[nm] = prev["t"] + dl_ms[nm]
            if began_now:
                dls = {"frac": None, "all": None}
        own_due = [dls[nm] is not None and dls[nm] <= row["t"] for nm in ("frac", "all")]
        for nm, d_ in zip(("frac", "all"), own_due):
            if d_:
                dls[nm] = None
        if k == "wait" and u != pu and not any(own_due):
            fail("expiry", "wait: balance went %d -> %d units although no expiry deadline is due (deadlines are armed by "
                 "coins, credit events and game ends, and removed when a game starts) %s" % (pu, u, where))
        # expirations: while nothing else happens, the balance only changes by a due expiry, which keeps the whole
        # credits (fractional expiry) or clears everything
        if k == "wait":
            if row["expdue"][1]:
                wantu = 0
            elif row["expdue"][0]:
                wantu = pu - pu % upg
            else:
                wantu = pu
            if u != wantu:
                fail("expiry", "wait: balance went %d -> %d units (units per game %d, due expiries %r) %s" %
                     (pu, u, upg, row["expdue"], where))
        # epoch bookkeeping of the oracle: what it does not want to assume makes the epoch unknown
        if k == "rc":
            money = 0
        if row["expdue"][1]:
            money = None       # clear_all_credits may have fired (it restarts the tiers)
        prev = row
    return fails


# ------------------------------------------------------------------------------------------------
def shrink(case):
    ops = case["ops"]
    n = len(ops)
    if n > 1:
        yield {"cfg": case["cfg"], "ops": ops[:n // 2]}
        yield {"cfg": case["cfg"], "ops": ops[:n - 1]}
    for i in range(n):
        yield {"cfg": case["cfg"], "ops": ops[:i] + ops[i + 1:]}
    cfg = case["cfg"]
    for key, val in (("frac_ms", 0), ("all_ms", 0), ("evq", [])):
        if cfg[key] != val and not (key == "evq" and any(o[0] == "ev" for o in ops)):
            c2 = dict(cfg)
            c2[key] = val
            yield {"cfg": c2, "ops": ops}
    if len(cfg["tiers"]) > 1:
        c2 = dict(cfg)
        c2["tiers"] = cfg["tiers"][:-1]
        if cfg_in_domain(c2):
            yield {"cfg": c2, "ops": ops}


def nontrivial(case, out):
    rows = out.get("rows", [])
    coin = any(o[0] == "coin" for o in case["ops"])
    capped = any(r["ev"][1] for r in rows)
    denied = any(r["ev"][0] for r in rows)
    started = any(r["ingame"] for r in rows)
    bonus = any(x for x in out["derived"]["table"])
    return coin and (capped or denied or started or bonus)


def describe(case):
    c = case["cfg"]
    return "tiers=%d max=%s exp=%s fpboot=%s money=%s" % (
        len(c["tiers"]), "0" if not c["max"] else "N", "y" if (c["frac_ms"] or c["all_ms"]) else "n",
        "y" if c["boot_fp"] else "n", "cents" if c.get("scale", 8) == 100 else "eighths")


# ------------------------------------------------------------------------------------------------
# suite "units": _calculate_credit_units/_calculate_pricing_tiers on arbitrary (also inexact) coin/price combinations
def gen_units(rng, tier, i):
    if rng.random() < 0.5:
        # decimal currency: cents; the doubles for these values are inexact
        S = 100
        pool = [1, 2, 5, 10, 20, 25, 30, 50, 60, 70, 100, 200]
        coins = [rng.choice(pool) for _ in range(rng.choice([0, 1, 1, 2, 3]))]
        tiers = []
        if rng.random() < 0.9:
            p = rng.choice([3, 5, 7, 10, 15, 20, 30, 35, 40, 50, 60, 70, 80, 90, 100, 110, 120, 130, 150, 170, 190, 230, 290])
            tiers.append([p, 1])
            for _ in range(rng.choice([0, 0, 1, 2, 3])):
                p = max(1, p + rng.choice([-20, 0, 10, 20, 30, 50, 70, 90, 100, 130]))
                tiers.append([p, rng.randint(1, 12)])
    else:
        S = 8
        coins = [rng.choice([1, 2, 3, 4, 5, 6, 8, 10, 12, 16, 20]) for _ in range(rng.choice([0, 1, 1, 2, 3]))]
        tiers = []
        if rng.random() < 0.9:
            p = rng.choice([1, 2, 3, 4, 5, 6, 8, 10, 12, 16, 20, 24])
            tiers.append([p, 1])
            for _ in range(rng.choice([0, 0, 1, 2, 3])):
                p = max(1, p + rng.choice([-2, 0, 1, 2, 3, 4, 5, 8, 12]))
                tiers.append([p, rng.randint(1, 12)])
    return {"cfg": {"coins": coins, "labels": [None] * len(coins), "tiers": tiers, "max": 0, "frac_ms": 0, "all_ms": 0,
                    "evq": [], "boot_fp": False, "bpg": 1, "persist_s": 0, "scale": S}, "ops": []}


def oracle_units(case, out):
    cfg = case["cfg"]
    if "crash" in out:
        return [{"sig": "crash:" + out["crash"]["type"], "what": "boot/ops raised %s" % out["crash"]["msg"]}]
    d = out["derived"]
    S = scale_of(cfg)
    cuf, upg = d["cuf"] * S, to_int(d["upg"])        # the unit in minor units (float)
    price = first_price(cfg)
    bad = []
    if upg is None or cuf <= 0 or upg <= 0:
        bad.append("credit unit %r / units per game %r" % (d["cuf"], d["upg"]))
    else:
        if abs(cuf * upg - price) > 1e-6:
            bad.append("a game costs %d units of %r = %r minor units, configured price is %d" % (upg, cuf, cuf * upg, price))
        for v in cfg["coins"]:
            if abs(v / cuf - round(v / cuf)) > 1e-6:
                bad.append("coin of %d minor units is not a whole number of credit units (%r): the code raises on it" % (v, cuf))
    if not bad:
        return []
    # exactly the recorded defect?  (the unit is min(|price - min coin|, min coin, price) instead of a common divisor;
    # the price is then not a whole number of units and int() cuts it)
    ecu = py_cu(cfg["coins"], cfg["tiers"], S)
    nondiv = ecu > 0 and (price % ecu != 0 or any(v % ecu for v in cfg["coins"]))
    if nondiv and abs(cuf - ecu) < 1e-6 and upg == price // ecu:
        return [{"sig": "credit-unit-not-divisor", "what": "; ".join(bad)}]
    return [{"sig": "unit-calc-other", "what": "; ".join(bad)}]


def coq_case_units(case, out):
    if "crash" in out:
        return None
    return "((%s, (@nil op)), %s)" % (coq_cfg(case["cfg"]), coqlist([zlist(first_row(out["derived"]))]))


def shrink_units(case):
    cfg = case["cfg"]
    for i in range(len(cfg["coins"])):
        c2 = dict(cfg, coins=cfg["coins"][:i] + cfg["coins"][i + 1:], labels=cfg["labels"][1:])
        yield {"cfg": c2, "ops": []}
    if len(cfg["tiers"]) > 1:
        yield {"cfg": dict(cfg, tiers=cfg["tiers"][:-1]), "ops": []}


HDR = "From C20 Require Import Model.\n"

def nontrivial_reboot(case, out):
    rows = out.get("rows", [])
    prev = out.get("boot")
    for o, row in zip(case["ops"], rows):
        if o[0] == "reboot" and prev and (prev["units"] or prev["fp"] != bool(case["cfg"]["boot_fp"])):
            return True
        prev = row
    return False


SUITES = [
    Suite("credits", gen, run_impl, HDR, coq_case, oracle, shrink, nontrivial,
          {"quick": 400, "thorough": 12000}, describe=describe, shard=60, case_timeout=120),
    Suite("reboot", gen_reboot, run_impl, HDR, coq_case, oracle, shrink, nontrivial_reboot,
          {"quick": 90, "thorough": 3000}, describe=describe, shard=45, case_timeout=120),
    Suite("units", gen_units, run_impl, HDR, coq_case_units, oracle_units, shrink_units,
          lambda c, o: len(c["cfg"]["tiers"]) > 1 or len(c["cfg"]["coins"]) > 1,
          {"quick": 160, "thorough": 4000},
          describe=lambda c: "coins=%d tiers=%d scale=%d" % (len(c["cfg"]["coins"]), len(c["cfg"]["tiers"]), c["cfg"].get("scale", 8)),
          shard=200, case_timeout=60),
]

LEVEL_TEXT = ("Machine-checked proof (Coq) over a model of the credits mode that, for every configuration with positive "
              "units-per-game and a monotone pricing table and for EVERY history of operations (coins, service credits, credit "
              "events, starts and bursts, ball/game ends, expiry timers, free-play toggles and re-entries, resets, power cycles): "
              "the balance stays within 0..max_credits*units_per_game; the balance equals units bought (n + G(m+n) - G(m) per coin, "
              "G = closed form of the greedy tier bonus, m = money of the current tier epoch) minus one game price per player "
              "started minus what the maximum / an expiry / a reset / a power cycle removed (balance_formula, with the exact "
              "epoch-restart rule and the loss-free corollary); a start/add-player deducts exactly one game price and only when "
              "affordable; the coin audits equal the coins accepted; a power cycle keeps the balance iff it is on disk and not "
              "expired, and keeps the free_play setting and the earnings.  The unit/price/tier computation is modelled with "
              "binary64 arithmetic; of the unfixed code 'units per game = price/unit' is refuted (0.30/0.10 -> 2), of the fixed "
              "code it is proved bounded-exhaustively for the coin values of real decimal currencies.  The model is tied to the "
              "working tree by running the real credits mode and the model on the same generated histories on every run.")
LEVEL_NOTE = ("Trusted: Coq kernel + vm_compute; no axioms. Model hand-written (fixed code: four fix patches, one of them new). "
              "Float part: binary64 on exact rationals; the agreement of fixed float and ideal arithmetic is proved only on a finite "
              "family (general statement needs an error analysis). Game/attract interaction reduced to start, add player, rotation "
              "and end; held player_adding queues only as operation StartHeld (start_held_partial / start_held_expiry_refuted). "
              "The correspondence compares 21 observations after every operation plus the derived unit and pricing table.")
TECHNIQUE = ("Coq proof over hand-written executable model (ghost-account refinement for the balance formula, binary64-on-rationals "
             "for money) + differential correspondence (vm_compute) + direct property oracle")
DESIGN_REF = "DESIGN.md section 3, C20"
