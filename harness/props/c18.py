"""C18 — Logic blocks count, accrue and sequence exactly as specified.

One case = one machine boot with several counters / accruals / sequences configured at machine level from a
generated config, driven through their own control events on one virtual-time line (125 ms grid).  Per block the
harness records every logicblock_<n>_updated/_hit/_complete, counter_<n>_hit and <n>_timeout event (with its
virtual time) and, after every operation, a snapshot (value, enabled, completed, ignore_hits, pending delays).
The Coq model (coq/C18/Model.v: `run`) is evaluated on the same configuration and operation groups and must
produce exactly the same observation list; the oracle below re-evaluates the property's own predicate (value
formula, hit events per accepted hit, completion once and follow-up) on the implementation's output.
"""
from vlib import Suite, zlit, coqlist, blit, opt

ID = "C18"
READY = True
RULE = ("blocks: per boot 8 machine-level logic blocks (4 counters, 2 accruals, 2 sequences) with generated "
        "configuration (direction, interval incl. 0 and sign opposite to the direction, start, goal incl. already "
        "reached / none, reset/disable_on_complete, hit window, timeout, with/without enable_events); each driven by "
        "8-28 operation groups (count/step/enable/disable/reset/restart/add/subtract/jump, events shared between two "
        "roles or two steps) at instants on the 125 ms grid chosen to fall inside the window, at the window end, at the "
        "timeout instant and past several timeout periods; non-trivial = the block history contains an accepted hit and "
        "at least one of: completion, ignored hit (disabled or in window), timeout, out-of-order step; distinct by case hash")
TRUSTED_BASE = [
    "Coq 8.16.1 kernel (coqc), vm_compute for evaluating the model in the correspondence run; no native_compute",
    "axioms: none (every Print Assumptions is 'Closed under the global context')",
    "hand-written model coq/C18/Model.v tied to /repo by correspondence: harness/props/c18.py boots real machines "
    "(harness/rig.py, virtual clock) and compares full per-block event traces and state snapshots with the model",
    "MPF's EventManager (dispatch order by priority), DelayManager and the test clock are used as they are; the order of "
    "handlers on one shared event (enable 20 > restart 5 > reset 4 > count 0; sequence step k+1 before step k; accrual "
    "steps in config order) is encoded in the harness and validated by the same comparison",
]
ASSUMPTIONS = [
    "blocks live at machine level (persist_state false); the mode-stop interaction belongs to C07",
    "integer configuration values; delays are multiples of 125 ms (>= 125 ms) and all instants lie on the 125 ms grid",
    "advance_random_events (uses random.shuffle) is not exercised",
]

T0 = 2000           # first instant at which an operation may be posted (ms); boot happens at 0
GRID = 125

# ------------------------------------------------------------------------------------------------
# generation


def gen_cfg(rng, kind):
    c = {"kind": kind, "roc": rng.random() < 0.55, "doc": rng.random() < 0.5,
         "timeout": rng.choice([0, 0, 0, 125, 375, 750, 1000, 2000]),
         "boot_enabled": rng.random() < 0.4}
    if kind == "counter":
        c["down"] = rng.random() < 0.4
        c["interval"] = rng.choice([1, 1, 1, 2, 3, -1, -2, 0])
        c["start"] = rng.choice([0, 0, 0, 5, -3, 10, 2])
        hv = -abs(c["interval"]) if c["down"] else abs(c["interval"])
        r = rng.random()
        if r < 0.15:
            c["goal"] = None
        elif r < 0.8:
            c["goal"] = c["start"] + hv * rng.choice([1, 2, 2, 3, 3, 4]) + rng.choice([0, 0, 0, 1, -1])
        elif r < 0.9:
            c["goal"] = c["start"]                    # reached from the start
        else:
            c["goal"] = c["start"] - (3 if not c["down"] else -3)   # long passed
        c["window"] = rng.choice([0, 0, 0, 125, 250, 500, 1000])
        c["n"] = 0
    else:
        c["n"] = rng.choice([1, 2, 3, 3, 4])
        c.update(down=False, interval=1, start=0, goal=None, window=0)
    return c


def gen_ops(rng, c, length):
    """list of [dt_ms, evname, amount_or_None, [model ops]]"""
    kind = c["kind"]
    out = []
    n = c["n"]
    for _ in range(length):
        r = rng.random()
        cands = [0, 0, 125, 125, 125, 250, 250, 375, 500, 750, 1000]
        if c["window"]:
            cands += [c["window"], c["window"], max(0, c["window"] - 125), c["window"] + 125]
        if c["timeout"]:
            cands += [c["timeout"], c["timeout"], max(0, c["timeout"] - 125), c["timeout"] + 125, 3 * c["timeout"]]
        dt = rng.choice(cands)
        r = rng.random()
        if r < 0.55:
            if kind == "counter":
                e = ("count", None, [["Count"]])
            else:
                # mostly the next useful step, sometimes any step, sometimes an event shared by two steps
                rr = rng.random()
                if rr < 0.2 and n >= 2:
                    k = rng.randrange(n - 1)
                    if kind == "sequence":
                        e = ("x%d" % k, None, [["Hit", k + 1], ["Hit", k]])   # handler priority = step
                    else:
                        e = ("x%d" % k, None, [["Hit", k], ["Hit", k + 1]])   # equal priority: config order
                else:
                    k = rng.randrange(n)
                    e = ("s%d" % k, None, [["Hit", k]])
        elif r < 0.63:
            e = ("disable", None, [["Disable"]])
        elif r < 0.72:
            e = ("enable", None, [["Enable"]]) if not c["boot_enabled"] else ("restart", None, [["Restart"]])
        elif r < 0.79:
            e = ("reset", None, [["Reset"]])
        elif r < 0.85:
            e = ("restart", None, [["Restart"]])
        elif r < 0.89:
            e = ("rd", None, [["Restart"], ["Disable"]])
        elif kind == "counter":
            rr = rng.random()
            a = rng.choice([0, 1, 1, 2, 3, 5, -1, -2])
            if rr < 0.25:
                e = ("add", a, [["Add", a]])
            elif rr < 0.45:
                e = ("sub", a, [["Sub", a]])
            elif rr < 0.65:
                j = rng.choice([c["start"], c["goal"] if c["goal"] is not None else 0, 0, 1, -1,
                                (c["goal"] or 0) - 1, (c["goal"] or 0) + 1])
                e = ("jump", j, [["Jump", j]])
            elif rr < 0.85:
                e = ("cr", None, [["Reset"], ["Count"]])
            elif not c["boot_enabled"]:
                e = ("ec", None, [["Enable"], ["Count"]])
            else:
                e = ("count", None, [["Count"]])
        else:
            k = rng.randrange(n)
            e = ("s%d" % k, None, [["Hit", k]])
        out.append([dt, e[0], e[1], e[2]])
    return out


def gen_case(rng, tier, i):
    kinds = ["counter"] * 4 + ["accrual"] * 2 + ["sequence"] * 2
    blocks = []
    timeline = []
    for b, kind in enumerate(kinds):
        c = gen_cfg(rng, kind)
        blocks.append(c)
        t = T0 + GRID * rng.randrange(0, 4)
        ops = gen_ops(rng, c, rng.randint(8, 28))
        # enable soon when the block starts disabled, most of the time
        if not c["boot_enabled"] and rng.random() < 0.8:
            ops.insert(rng.randrange(0, 3), [rng.choice([0, 125, 250]), "enable", None, [["Enable"]]])
        for dt, ev, amount, mops in ops:
            t += dt
            timeline.append([t, b, ev, amount, mops])
    timeline.sort(key=lambda x: x[0])      # stable: keeps each block's own order
    end = max(x[0] for x in timeline) + rng.choice([0, 125, 1000, 2500])
    return {"blocks": blocks, "timeline": timeline, "end": end}


# ------------------------------------------------------------------------------------------------
# implementation side


def machine_config(blocks):
    cfg = {"counters": {}, "accruals": {}, "sequences": {}}
    for b, c in enumerate(blocks):
        nm = "b%d" % b
        d = {"disable_events": "%s_disable, %s_rd" % (nm, nm),
             "reset_events": "%s_reset" % nm,
             "restart_events": "%s_restart, %s_rd" % (nm, nm),
             "reset_on_complete": bool(c["roc"]), "disable_on_complete": bool(c["doc"])}
        if c["timeout"]:
            d["logic_block_timeout"] = "%dms" % c["timeout"]
        if c["kind"] == "counter":
            if not c["boot_enabled"]:
                d["enable_events"] = "%s_enable, %s_ec" % (nm, nm)
                d["count_events"] = "%s_count, %s_cr, %s_ec" % (nm, nm, nm)
            else:
                d["count_events"] = "%s_count, %s_cr" % (nm, nm)
            d["reset_events"] = "%s_reset, %s_cr" % (nm, nm)
            d["direction"] = "down" if c["down"] else "up"
            d["count_interval"] = c["interval"]
            d["starting_count"] = c["start"]
            if c["goal"] is not None:
                d["count_complete_value"] = c["goal"]
            if c["window"]:
                d["multiple_hit_window"] = "%dms" % c["window"]
            d["control_events"] = [{"action": "add", "event": "%s_add" % nm, "value": "amount"},
                                   {"action": "subtract", "event": "%s_sub" % nm, "value": "amount"},
                                   {"action": "jump", "event": "%s_jump" % nm, "value": "amount"}]
            cfg["counters"][nm] = d
        else:
            if not c["boot_enabled"]:
                d["enable_events"] = "%s_enable" % nm
            evs = []
            for k in range(c["n"]):
                names = ["%s_s%d" % (nm, k)]
                if k + 1 < c["n"]:
                    names.append("%s_x%d" % (nm, k))
                if k >= 1:
                    names.append("%s_x%d" % (nm, k - 1))
                evs.append(", ".join(names))
            d["events"] = evs
            cfg["accruals" if c["kind"] == "accrual" else "sequences"][nm] = d
    return {k: v for k, v in cfg.items() if v}


def _canon_val(v):
    if isinstance(v, bool):
        return ["?", repr(v)]
    if isinstance(v, int):
        return v
    if isinstance(v, list) and all(isinstance(x, bool) for x in v):
        return [bool(x) for x in v]
    return ["?", repr(v)]


def run_case(case):
    from rig import Rig
    blocks = case["blocks"]
    rig = Rig(machine_config(blocks))
    rig.start()
    try:
        m = rig.machine
        logs = [[] for _ in blocks]
        devs = []

        def ms():
            x = rig.now() * 1000.0
            r = int(round(x))
            return r if abs(x - r) < 1e-6 else -1

        def mk(b, what):
            def handler(**kwargs):
                kw = {k: _canon_val(v) for k, v in kwargs.items()}
                logs[b].append(["ev", ms(), what, [[k, kw[k]] for k in sorted(kw)]])
            return handler

        for b, c in enumerate(blocks):
            nm = "b%d" % b
            coll = {"counter": m.counters, "accrual": m.accruals, "sequence": m.sequences}[c["kind"]]
            devs.append(coll[nm])
            m.events.add_handler("logicblock_%s_updated" % nm, mk(b, "updated"))
            m.events.add_handler("logicblock_%s_hit" % nm, mk(b, "hit"))
            m.events.add_handler("logicblock_%s_complete" % nm, mk(b, "complete"))
            m.events.add_handler("%s_timeout" % nm, mk(b, "timeout"))
            if c["kind"] == "counter":
                m.events.add_handler("counter_%s_hit" % nm, mk(b, "legacyhit"))

        def snap(b):
            d = devs[b]
            v = d.value
            logs[b].append(["snap", ms(), _canon_val(list(v) if isinstance(v, list) else v),
                            bool(d.enabled), bool(d.completed), bool(getattr(d, "ignore_hits", False)),
                            bool(d.delay.check("timeout")), bool(d.delay.check("ignore_hits_within_window"))])

        if rig.now() != 0.001:
            return {"error": "unexpected boot time %r" % rig.now()}
        rig.advance(T0 / 1000.0 - rig.now())
        if rig.now() != T0 / 1000.0:
            return {"error": "could not align the clock: %r" % rig.now()}
        for t, b, ev, amount, _ in case["timeline"]:
            now = rig.now()
            if t / 1000.0 > now:
                rig.advance(t / 1000.0 - now)
            if rig.now() != t / 1000.0:
                return {"error": "clock off grid: %r vs %r" % (rig.now(), t)}
            if amount is None:
                rig.post("b%d_%s" % (b, ev))
            else:
                rig.post("b%d_%s" % (b, ev), amount=amount)
            snap(b)
        if end_time(case) / 1000.0 > rig.now():
            rig.advance(end_time(case) / 1000.0 - rig.now())
        for b in range(len(blocks)):
            snap(b)
        exc = rig.exception()
        out = {"logs": logs}
        if exc:
            out["exception"] = repr(exc)[:300]
        return out
    finally:
        rig.stop()


# ------------------------------------------------------------------------------------------------
# Coq printers

def coq_cfg(c):
    kind = {"counter": "KCounter", "accrual": "KAccrual", "sequence": "KSequence"}[c["kind"]]
    return "(mkCfg %s %d%%nat %s %s %s %s %s %s %s %s %s)" % (
        kind, c["n"], blit(c["down"]), zlit(c["interval"]), zlit(c["start"]), opt(c["goal"], zlit),
        blit(c["roc"]), blit(c["doc"]), zlit(c["window"]), zlit(c["timeout"]), blit(c["boot_enabled"]))


def coq_op(o):
    if o[0] == "Hit":
        return "(Hit %d%%nat)" % o[1]
    if o[0] in ("Add", "Sub", "Jump"):
        return "(%s %s)" % (o[0], zlit(o[1]))
    return o[0]


BAD = "(OEv (-1) ETimeout)"      # never produced by the model: a malformed observation always mismatches


def coq_hr(kw):
    if "hits" in kw or "remaining" in kw:
        if isinstance(kw.get("hits"), int) and isinstance(kw.get("remaining"), int):
            return "(Some (%s, %s))" % (zlit(kw["hits"]), zlit(kw["remaining"]))
        return None
    return "None"


def coq_obs(c, item, shared=False):
    if item[0] == "snap":
        _, t, v, en, comp, ign, tp, wp = item
        if c["kind"] == "accrual":
            if not isinstance(v, list) or (v and not isinstance(v[0], bool)):
                return BAD
            vz, vl = 0, v
        else:
            if not isinstance(v, int):
                return BAD
            vz, vl = v, []
        return "(OSnap %s %s %s %s %s %s %s %s)" % (zlit(t), zlit(vz), coqlist(blit(x) for x in vl), blit(en),
                                                    blit(comp), blit(ign), blit(tp), blit(wp))
    _, t, what, kwl = item
    kw = dict((k, v) for k, v in kwl)
    keys = sorted(kw)
    if what == "updated":
        if keys != ["enabled", "value"] or kw["enabled"] != ["?", "True"] and kw["enabled"] != ["?", "False"]:
            return BAD
        en = kw["enabled"] == ["?", "True"]
        v = kw["value"]
        if c["kind"] == "accrual":
            if not isinstance(v, list) or (v and not isinstance(v[0], bool)):
                return BAD
            if shared:
                # known finding updated-value-aliased observed on this dispatch (aliased_groups): value not compared
                return "(OEv %s (EUpdatedAny %s))" % (zlit(t), blit(en))
            return "(OEv %s (EUpdated 0 %s %s))" % (zlit(t), coqlist(blit(x) for x in v), blit(en))
        if not isinstance(v, int):
            return BAD
        return "(OEv %s (EUpdated %s [] %s))" % (zlit(t), zlit(v), blit(en))
    if what in ("hit", "legacyhit"):
        con = "EHit" if what == "hit" else "ELegacyHit"
        if c["kind"] == "counter":
            if not set(keys) <= {"count", "hits", "remaining"} or not isinstance(kw.get("count"), int):
                return BAD
            hr = coq_hr(kw)
            if hr is None:
                return BAD
            return "(OEv %s (%s %s %s))" % (zlit(t), con, zlit(kw["count"]), hr)
        if keys != ["step"] or not isinstance(kw["step"], int):
            return BAD
        return "(OEv %s (%s %s None))" % (zlit(t), con, zlit(kw["step"]))
    if what == "complete":
        return "(OEv %s EComplete)" % zlit(t) if not keys else BAD
    if what == "timeout":
        return "(OEv %s ETimeout)" % zlit(t) if not keys else BAD
    return BAD


def end_time(case):
    return max([T0, case["end"]] + [x[0] for x in case["timeline"]])


def block_groups(case, b):
    g = [(t, mops) for t, bb, ev, amount, mops in case["timeline"] if bb == b]
    g.append((end_time(case), []))
    return g


def aliased_groups(log):
    """recorded defect updated-value-aliased (accruals): indices of the log items of every dispatch in which some
    update event's value list already shows the step of a LATER hit of the same dispatch (the event carries the live
    list, so a later hit is visible in an earlier update).  On such a dispatch the value argument of the update
    events is not compared with the model."""
    res = set()
    start = 0
    for end, it in enumerate(log):
        if it[0] != "snap":
            continue
        seg = range(start, end)
        found = False
        for j in seg:
            if log[j][2] != "updated":
                continue
            v = dict(log[j][3]).get("value")
            if not isinstance(v, list):
                continue
            own = j + 1 if j + 1 < end and log[j + 1][2] == "hit" else -1    # the hit this update was posted with
            for i in range(j + 1, end):
                if log[i][2] == "hit" and i != own:
                    k = dict(log[i][3]).get("step")
                    if isinstance(k, int) and not isinstance(k, bool) and 0 <= k < len(v) and v[k] is True:
                        found = True
        if found:
            res.update(seg)
        start = end + 1
    return res


def coq_case(case, out):
    if "logs" not in out:
        return None
    ins, exps = [], []
    for b, c in enumerate(case["blocks"]):
        groups = block_groups(case, b)
        ins.append("(%s, %s)" % (coq_cfg(c), coqlist("(%s, %s)" % (zlit(t), coqlist(coq_op(o) for o in mops))
                                                       for t, mops in groups)))
        log = out["logs"][b]
        lenient = aliased_groups(log) if c["kind"] == "accrual" else set()
        terms = [coq_obs(c, it, j in lenient) for j, it in enumerate(log)]
        exps.append(coqlist(terms))
    return "(%s, %s)" % (coqlist(ins), coqlist(exps))


HDR = ("From C18 Require Import Model.\n"
       "Definition run (i : list (cfg * list (Z * list op))) : list (list obs) := map C18.Model.run i.\n"
       "Definition out_eqb : list (list obs) -> list (list obs) -> bool := list_eqb C18.Model.out_eqb.\n")


# ------------------------------------------------------------------------------------------------
# oracle: the property's own predicate, evaluated on the implementation's observations only.
# It keeps the bookkeeping the property text talks about (enabled?, inside the window?, hits accepted since the last
# reset, completed since the last reset) and takes the observed <name>_timeout events as resets; it knows nothing of
# delays, event order inside an operation or the update events.

def oracle_block(c, groups, log):
    fails = []

    def fail(sig, what):
        if not any(f["sig"] == sig for f in fails):
            fails.append({"sig": sig, "what": what})

    kind = c["kind"]
    hv = (-abs(c["interval"]) if c["down"] else abs(c["interval"])) if kind == "counter" else 0
    n = c["n"]
    enabled = bool(c["boot_enabled"])
    completed = False
    base, nacc = c["start"], 0                  # counter: value = base + hv * nacc
    steps = [False] * n                         # accrual
    pos = 0                                     # sequence
    last_accept = None                          # counter: instant of the last accepted hit

    def reached(v):
        if c["goal"] is None:
            return False
        return v <= c["goal"] if c["down"] else v >= c["goal"]

    def do_reset():
        nonlocal completed, base, nacc, steps, pos
        completed = False
        base, nacc = c["start"], 0
        steps = [False] * n
        pos = 0

    # split the log into one segment per snapshot
    segs, cur = [], []
    for it in log:
        if it[0] == "snap":
            segs.append((cur, it))
            cur = []
        else:
            cur.append(it)
    if cur or len(segs) != len(groups):
        fail("trace-shape", "number of snapshots %d != number of operation groups %d" % (len(segs), len(groups)))
        return fails
    for (t, mops), (evs, sn) in zip(groups, segs):
        if any(it[1] < 0 for it in evs) or sn[1] != t:
            fail("time-off-grid", "an event was observed at a non-integral millisecond")
        exp_hits, exp_complete, exp_vals = [], 0, []
        for it in evs:
            if it[2] == "timeout":
                do_reset()
        for o in mops:
            goal_now = False
            if o[0] == "Enable":
                enabled = True
            elif o[0] == "Disable":
                enabled = False
            elif o[0] == "Reset":
                do_reset()
            elif o[0] == "Restart":
                do_reset()
                enabled = True
            elif o[0] == "Count" and kind == "counter":
                inwin = c["window"] and last_accept is not None and t - last_accept < c["window"]
                if enabled and not inwin:
                    nacc += 1
                    last_accept = t
                    exp_hits.append(base + hv * nacc)
                    exp_vals.append(base + hv * nacc)
                    goal_now = reached(base + hv * nacc)
            elif o[0] in ("Add", "Sub", "Jump") and kind == "counter":
                if o[0] == "Add":
                    base += o[1]
                elif o[0] == "Sub":
                    base -= o[1]
                else:
                    base, nacc = o[1], 0
                goal_now = reached(base + hv * nacc)
            elif o[0] == "Hit" and kind == "accrual":
                if enabled and o[1] < n:
                    if not steps[o[1]]:
                        steps[o[1]] = True
                        exp_hits.append(o[1])
                        exp_vals.append(list(steps))
                    goal_now = all(steps)
            elif o[0] == "Hit" and kind == "sequence":
                if enabled and o[1] == pos:
                    pos += 1
                    exp_hits.append(pos)
                    exp_vals.append(pos)
                    goal_now = pos >= n
            if goal_now and not completed:
                exp_complete += 1
                completed = True
                if c["roc"]:
                    do_reset()
                if c["doc"]:
                    enabled = False
        # observed
        hits = [dict(it[3]) for it in evs if it[2] == "hit"]
        legacy = [dict(it[3]) for it in evs if it[2] == "legacyhit"]
        ncomp = sum(1 for it in evs if it[2] == "complete")
        key = "count" if kind == "counter" else "step"
        if [h.get(key) for h in hits] != exp_hits or (kind == "counter" and legacy != hits):
            fail("hit-events", "hit events %r posted at t=%d, the accepted hits are %r" % (hits, t, exp_hits))
        else:
            # the update event posted together with each hit event carries the value at that moment
            upd_vals = []
            for j, it in enumerate(evs):
                if it[2] == "hit":
                    i = j - 1
                    while i >= 0 and evs[i][2] == "legacyhit":
                        i -= 1
                    upd_vals.append(dict(evs[i][3]).get("value") if i >= 0 and evs[i][2] == "updated" else None)
            for j, (got, want) in enumerate(zip(upd_vals, exp_vals)):
                if got != want:
                    if kind == "accrual" and j + 1 < len(exp_vals) and got == exp_vals[-1]:
                        fail("updated-value-aliased", "logicblock_<accrual>_updated posted for step %r at t=%d shows "
                             "%r: a later hit of the same dispatch is already visible (live list in the event)"
                             % (exp_hits[j], t, got))
                    else:
                        fail("updated-value", "update event posted with hit %r at t=%d carries value %r, state was %r"
                             % (exp_hits[j], t, got, want))
        if ncomp != exp_complete:
            fail("complete-events", "%d completion events at t=%d, %d completions reached" % (ncomp, t, exp_complete))
        val = sn[2]
        if kind == "counter" and val != base + hv * nacc:
            fail("value-formula", "counter value %r at t=%d, start/accepted-hit formula gives %d" % (val, t, base + hv * nacc))
        if kind == "accrual" and val != steps:
            fail("accrual-steps", "accrual state %r at t=%d, steps hit since the last reset: %r" % (val, t, steps))
        if kind == "sequence" and val != pos:
            fail("sequence-order", "sequence position %r at t=%d, in-order steps so far: %d" % (val, t, pos))
        if sn[3] != enabled or sn[4] != completed:
            fail("post-state", "enabled/completed = %r/%r at t=%d, expected %r/%r" % (sn[3], sn[4], t, enabled, completed))
    return fails


def oracle(case, out):
    if "error" in out:
        return [{"sig": "rig-clock", "what": out["error"]}]
    fails = []
    if out.get("exception"):
        fails.append({"sig": "exception", "what": "the machine raised: %s" % out["exception"]})
    for b, c in enumerate(case["blocks"]):
        for f in oracle_block(c, block_groups(case, b), out["logs"][b]):
            if not any(g["sig"] == f["sig"] for g in fails):
                fails.append(dict(f, what="block b%d (%s): %s" % (b, c["kind"], f["what"])))
    return fails


# ------------------------------------------------------------------------------------------------
def shrink(case):
    blocks, tl = case["blocks"], case["timeline"]
    # keep a single block
    if len(blocks) > 1:
        for b in range(len(blocks)):
            yield {"blocks": [blocks[b]], "timeline": [[t, 0, ev, a, m] for t, bb, ev, a, m in tl if bb == b],
                   "end": case["end"]}
    # drop operations (halves first, then single ones)
    n = len(tl)
    if n > 3:
        yield dict(case, timeline=tl[:n // 2])
        yield dict(case, timeline=tl[n // 2:])
    for i in range(n - 1, -1, -1):
        if n > 1:
            yield dict(case, timeline=tl[:i] + tl[i + 1:])
    if tl and case["end"] > tl[-1][0]:
        yield dict(case, end=tl[-1][0])
    # simplify the configuration
    for b, c in enumerate(blocks):
        for k, v in (("timeout", 0), ("window", 0), ("doc", False), ("roc", False)):
            if c.get(k):
                yield dict(case, blocks=blocks[:b] + [dict(c, **{k: v})] + blocks[b + 1:])


def _block_facts(case, out, b):
    evs = [it for it in out["logs"][b] if it[0] == "ev"]
    nh = sum(1 for it in evs if it[2] == "hit")
    ops = [o for t, bb, ev, a, m in case["timeline"] if bb == b for o in m if o[0] in ("Count", "Hit")]
    return {"hits": nh, "complete": any(it[2] == "complete" for it in evs),
            "timeout": any(it[2] == "timeout" for it in evs), "ignored": len(ops) > nh}


def nontrivial(case, out):
    if "logs" not in out:
        return False
    for b in range(len(case["blocks"])):
        f = _block_facts(case, out, b)
        if f["hits"] and (f["complete"] or f["timeout"] or f["ignored"]):
            return True
    return False


def describe(case):
    n = len(case["timeline"])
    return "ops=%s" % ("<60" if n < 60 else "60-120" if n < 120 else "120-180" if n < 180 else ">=180")


SUITES = [
    Suite("blocks", gen_case, run_case, HDR, coq_case, oracle, shrink, nontrivial,
          {"quick": 240, "thorough": 4000}, shard=40, describe=describe, case_timeout=120),
]

LEVEL_TEXT = ("Machine-checked proof (Coq) over an executable model of Counter/Accrual/Sequence (state: enabled, completed, "
              "value, hit-window flag, the two pending delays) that for every configuration and every history of operations "
              "and delay expiries the counter value equals start + direction*interval*(accepted hits since the last reset), "
              "hit events are posted once per accepted hit, a completion event is posted exactly when an operation reaches "
              "the goal of a not-yet-completed block and is followed by the configured reset/disable, accruals complete on "
              "any order of their steps and sequences only advance on the current step; the model is tied to /repo on every "
              "run by comparing complete event traces and state snapshots of real machine-level blocks on a virtual clock.")
LEVEL_NOTE = ("Trusted: Coq kernel + vm_compute; no axioms. Model hand-written; correspondence validates it against the working "
              "tree (EventManager, DelayManager and the test clock are the real ones). Mode-level blocks / player persistence "
              "are not modelled (C07/C11).")
TECHNIQUE = "Coq proof over hand-written executable model + differential correspondence (vm_compute) + direct property oracle"
DESIGN_REF = "DESIGN.md section 3, C18"
