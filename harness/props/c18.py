"""C18 — Logic blocks count, accrue and sequence exactly as specified.

Three suites, each one real machine boot per case on the virtual clock (125 ms grid):
 * blocks:  several counters / accruals / sequences configured at machine level, driven through their own control
            events; per block the harness records every logicblock_<n>_updated/_hit/_complete, counter_<n>_hit and
            <n>_timeout event (with its virtual time) and, after every operation, a snapshot (value, enabled, completed,
            ignore_hits, pending delays).  Model: coq/C18/Model.v `run`.
 * delayed: the same blocks whose control events also exist in a delayed variant (`count_events: {ev: 500ms}` ...),
            posted in bursts closer together than the delay.  Model: coq/C18/Delayed.v `run_delayed` (every post its
            own delivery at post time + delay).
 * modes:   blocks configured in a game mode that is started and stopped during the history (with and without
            persist_state, start_enabled / enable_events defaults, starting_count / count_complete_value as machine
            variable templates that change).  Model: coq/C18/MBlock.v `mrun_case`.
The Coq model is evaluated on the same configuration and operations and must produce exactly the same observation
list; the oracle below re-evaluates the property's own predicate (value formula, hit events per accepted hit,
completion once and follow-up, timeout instants, mode life cycle) on the implementation's output.
"""
from vlib import Suite, zlit, coqlist, blit, opt

ID = "C18"
READY = True
RULE = ("blocks: per boot 8 machine-level logic blocks (4 counters, 2 accruals, 2 sequences) with generated "
        "configuration (direction, interval incl. 0 and sign opposite to the direction, start, goal incl. already "
        "reached / none, reset/disable_on_complete, hit window, timeout, with/without enable_events); each driven by "
        "8-28 operation groups (count/step/enable/disable/reset/restart/add/subtract/jump, events shared between two "
        "roles or two steps) at instants on the 125 ms grid chosen to fall inside the window, at the window end, at the "
        "timeout instant and past several timeout periods; non-trivial = the block history contains an accepted hit and "
        "at least one of: completion, ignored hit (disabled or in window), timeout, out-of-order step. "
        "delayed: per boot 4 blocks (3 counters + accrual or sequence) whose count/enable/disable/reset/restart events "
        "also exist with a delay of 125-1000 ms; 4-10 rounds of: a burst of 2-4 posts of one delayed event 125 ms .. "
        "one delay apart (undelayed operations in between), a single delayed post, or an undelayed operation; the due "
        "instants of one block's deliveries are pairwise distinct; blocks in which a delivery falls on the due instant "
        "of the block's own timeout / hit-window delay (order unspecified by asyncio) are detected on the implementation "
        "(probe of the pending deadlines one grid step before) and left out of comparison and oracle; non-trivial = "
        "two posts of one delayed event in flight together. "
        "modes: per boot one game mode with 5 blocks (3 counters, accrual, sequence; persist_state / start_enabled / "
        "enable_events drawn per block; 35% with reset_on_complete = disable_on_complete = false), 8-22 operation groups "
        "per block incl. operations while the mode is not running, mode start/stop toggles 125 ms - 2 s apart incl. "
        "repeated starts and stops while stopped, changes of the machine variables behind starting_count and "
        "count_complete_value; non-trivial = a block was hit while running, operated while not running and the mode "
        "started at least twice.  Distinct by case hash.")
TRUSTED_BASE = [
    "Coq 8.16.1 kernel (coqc), vm_compute for evaluating the model in the correspondence run; no native_compute",
    "axioms: none (every Print Assumptions is 'Closed under the global context')",
    "hand-written model coq/C18/Model.v + Delayed.v + MBlock.v tied to /repo by correspondence: harness/props/c18.py boots "
    "real machines (harness/rig.py, virtual clock) and compares full per-block event traces and state snapshots with the model",
    "MPF's EventManager (dispatch order by priority), DelayManager, mode controller, machine variables and the test clock "
    "are used as they are; the order of handlers on one shared event (enable 20 > restart 5 > reset 4 > count 0; sequence "
    "step k+1 before step k; accrual steps in config order) is encoded in the harness and validated by the same comparison",
    "a timer due at instant t fires before anything the harness posts at t (asyncio runs due timers while the clock "
    "advances); the relative order of two timers due at the same instant is not relied upon",
]
ASSUMPTIONS = [
    "integer configuration values; delays are multiples of 125 ms (>= 125 ms) and all instants lie on the 125 ms grid",
    "delayed control events: machine-level blocks only (mode-level delayed control events use the mode's DelayManager and "
    "are dropped at mode stop: not exercised); a delivery due at the same instant as the block's own timeout / window "
    "delay is excluded (counted in NOTES.md: about a fifth of the delayed blocks)",
    "mode-level blocks: one game, one player, no ball end during the history (player change / per-player restore is "
    "C07/C11); delayed control events and advance_random_events are not exercised there",
    "advance_random_events (uses random.shuffle) is not exercised",
]

T0 = 2000           # first instant at which an operation may be posted (ms); boot happens at 0
GRID = 125

# ------------------------------------------------------------------------------------------------
# generation


def gen_cfg(rng, kind):
    c = {"kind": kind, "roc": rng.random() < 0.55, "doc": rng.random() < 0.5,
         "timeout": rng.choice([0, 0, 0, 125, 375, 750, 1000, 2000]),
         "boot_enabled": rng.random() < 0.4}
    if kind == "counter":
        c["down"] = rng.random() < 0.4
        c["interval"] = rng.choice([1, 1, 1, 2, 3, -1, -2, 0])
        c["start"] = rng.choice([0, 0, 0, 5, -3, 10, 2])
        hv = -abs(c["interval"]) if c["down"] else abs(c["interval"])
        r = rng.random()
        if r < 0.15:
            c["goal"] = None
        elif r < 0.8:
            c["goal"] = c["start"] + hv * rng.choice([1, 2, 2, 3, 3, 4]) + rng.choice([0, 0, 0, 1, -1])
        elif r < 0.9:
            c["goal"] = c["start"]                    # reached from the start
        else:
            c["goal"] = c["start"] - (3 if not c["down"] else -3)   # long passed
        c["window"] = rng.choice([0, 0, 0, 125, 250, 500, 1000])
        c["n"] = 0
    else:
        c["n"] = rng.choice([1, 2, 3, 3, 4])
        c.update(down=False, interval=1, start=0, goal=None, window=0)
    return c


def gen_ops(rng, c, length):
    """list of [dt_ms, evname, amount_or_None, [model ops]]"""
    kind = c["kind"]
    out = []
    n = c["n"]
    for _ in range(length):
        r = rng.random()
        cands = [0, 0, 125, 125, 125, 250, 250, 375, 500, 750, 1000]
        if c["window"]:
            cands += [c["window"], c["window"], max(0, c["window"] - 125), c["window"] + 125]
        if c["timeout"]:
            cands += [c["timeout"], c["timeout"], max(0, c["timeout"] - 125), c["timeout"] + 125, 3 * c["timeout"]]
        dt = rng.choice(cands)
        r = rng.random()
        if r < 0.55:
            if kind == "counter":
                e = ("count", None, [["Count"]])
            else:
                # mostly the next useful step, sometimes any step, sometimes an event shared by two steps
                rr = rng.random()
                if rr < 0.2 and n >= 2:
                    k = rng.randrange(n - 1)
                    if kind == "sequence":
                        e = ("x%d" % k, None, [["Hit", k + 1], ["Hit", k]])   # handler priority = step
                    else:
                        e = ("x%d" % k, None, [["Hit", k], ["Hit", k + 1]])   # equal priority: config order
                else:
                    k = rng.randrange(n)
                    e = ("s%d" % k, None, [["Hit", k]])
        elif r < 0.63:
            e = ("disable", None, [["Disable"]])
        elif r < 0.72:
            e = ("enable", None, [["Enable"]]) if not c["boot_enabled"] else ("restart", None, [["Restart"]])
        elif r < 0.79:
            e = ("reset", None, [["Reset"]])
        elif r < 0.85:
            e = ("restart", None, [["Restart"]])
        elif r < 0.89:
            e = ("rd", None, [["Restart"], ["Disable"]])
        elif kind == "counter":
            rr = rng.random()
            a = rng.choice([0, 1, 1, 2, 3, 5, -1, -2])
            if rr < 0.25:
                e = ("add", a, [["Add", a]])
            elif rr < 0.45:
                e = ("sub", a, [["Sub", a]])
            elif rr < 0.65:
                j = rng.choice([c["start"], c["goal"] if c["goal"] is not None else 0, 0, 1, -1,
                                (c["goal"] or 0) - 1, (c["goal"] or 0) + 1])
                e = ("jump", j, [["Jump", j]])
            elif rr < 0.85:
                e = ("cr", None, [["Reset"], ["Count"]])
            elif not c["boot_enabled"]:
                e = ("ec", None, [["Enable"], ["Count"]])
            else:
                e = ("count", None, [["Count"]])
        else:
            k = rng.randrange(n)
            e = ("s%d" % k, None, [["Hit", k]])
        out.append([dt, e[0], e[1], e[2]])
    return out


def gen_case(rng, tier, i):
    kinds = ["counter"] * 4 + ["accrual"] * 2 + ["sequence"] * 2
    blocks = []
    timeline = []
    for b, kind in enumerate(kinds):
        c = gen_cfg(rng, kind)
        blocks.append(c)
        t = T0 + GRID * rng.randrange(0, 4)
        ops = gen_ops(rng, c, rng.randint(8, 28))
        # enable soon when the block starts disabled, most of the time
        if not c["boot_enabled"] and rng.random() < 0.8:
            ops.insert(rng.randrange(0, 3), [rng.choice([0, 125, 250]), "enable", None, [["Enable"]]])
        for dt, ev, amount, mops in ops:
            t += dt
            timeline.append([t, b, ev, amount, mops])
    timeline.sort(key=lambda x: x[0])      # stable: keeps each block's own order
    end = max(x[0] for x in timeline) + rng.choice([0, 125, 1000, 2500])
    return {"blocks": blocks, "timeline": timeline, "end": end}


# ---- delayed control events (count_events: {ev: 500ms} ...) ---------------------------------------

DELAYS = [125, 250, 250, 375, 500, 500, 750, 1000]


def gen_delayed_block(rng, kind, t):
    """configuration + posts [t, ev, amount, model ops, delay] of one block whose control events also exist in a
    delayed variant (d<role>); bursts of the same delayed event closer together than its delay, mixed with undelayed
    operations.  The due instants of a block's deliveries are pairwise distinct (their order would be unspecified)."""
    c = gen_cfg(rng, kind)
    if rng.random() < 0.65:
        c["timeout"] = 0
    if kind == "counter" and rng.random() < 0.6:
        c["window"] = 0
    roles = ["disable", "reset", "restart"] + (["count"] if kind == "counter" else []) + \
            ([] if c["boot_enabled"] else ["enable"])
    c["delays"] = {r: rng.choice(DELAYS) for r in roles if r == "count" or rng.random() < 0.7}
    if not c["delays"]:
        c["delays"]["reset"] = rng.choice(DELAYS)
    n = c["n"]
    mops = {"count": [["Count"]], "enable": [["Enable"]], "disable": [["Disable"]], "reset": [["Reset"]],
            "restart": [["Restart"]]}
    dues = set()
    out = []

    def hit():
        if kind == "counter":
            return ("count", None, [["Count"]])
        k = rng.randrange(n)
        return ("s%d" % k, None, [["Hit", k]])

    def plain():
        r = rng.random()
        if r < 0.5:
            return hit()
        role = rng.choice(["disable", "reset", "restart"] + ([] if c["boot_enabled"] else ["enable", "enable"]))
        return (role, None, mops[role])

    def emit(dt, e, delay=0):
        nonlocal t
        t += dt
        if delay:
            while t + delay in dues:
                t += GRID
            dues.add(t + delay)
        out.append([t, e[0], e[1], e[2], delay])

    def delayed(role):
        return ("d" + role, None, mops[role])

    if not c["boot_enabled"] and rng.random() < 0.8:
        emit(rng.choice([0, 125]), ("enable", None, mops["enable"]))
    for _ in range(rng.randint(4, 10)):
        r = rng.random()
        gaps = [0, 125, 125, 250, 250, 375, 500, 1000]
        if r < 0.5:
            # burst: 2-4 posts of one delayed event closer together than its delay
            role = rng.choice(sorted(c["delays"]) + (["count"] * 3 if "count" in c["delays"] else []))
            d = c["delays"][role]
            emit(rng.choice(gaps), delayed(role), d)
            for _ in range(rng.randint(1, 3)):
                if rng.random() < 0.4:
                    emit(rng.choice([0, 125]), plain())
                emit(rng.choice([125, 125, 250, max(125, d - 125), d]), delayed(role), d)
        elif r < 0.7:
            role = rng.choice(sorted(c["delays"]))
            emit(rng.choice(gaps), delayed(role), c["delays"][role])
        else:
            emit(rng.choice(gaps), plain())
    return c, out


def gen_case_delayed(rng, tier, i):
    kinds = ["counter", "counter", "counter", rng.choice(["accrual", "sequence"])]
    blocks, timeline = [], []
    for b, kind in enumerate(kinds):
        c, posts = gen_delayed_block(rng, kind, T0 + GRID * rng.randrange(0, 4))
        blocks.append(c)
        timeline += [[t, b, ev, amount, m, d] for t, ev, amount, m, d in posts]
    timeline.sort(key=lambda x: x[0])
    end = max(x[0] + x[5] for x in timeline) + rng.choice([0, 125, 1000, 2500])
    return {"blocks": blocks, "timeline": timeline, "end": end}


# ------------------------------------------------------------------------------------------------
# implementation side


def _evs(nm, names, delayed=None):
    """control event setting: plain string list, or {event: delay_ms} when some event is configured with a delay"""
    if not delayed:
        return ", ".join("%s_%s" % (nm, x) for x in names)
    d = {"%s_%s" % (nm, x): 0 for x in names}
    d["%s_%s" % (nm, delayed[0])] = "%dms" % delayed[1]
    return d


def block_config(nm, c):
    """(config section, settings) of one block"""
    dl = c.get("delays") or {}

    def ev(role, names):
        return _evs(nm, names, ("d" + role, dl[role]) if role in dl else None)
    d = {"disable_events": ev("disable", ["disable", "rd"]),
         "reset_events": ev("reset", ["reset"]),
         "restart_events": ev("restart", ["restart", "rd"]),
         "reset_on_complete": bool(c["roc"]), "disable_on_complete": bool(c["doc"])}
    if c["timeout"]:
        d["logic_block_timeout"] = "%dms" % c["timeout"]
    if c["kind"] == "counter":
        if not c["boot_enabled"]:
            d["enable_events"] = ev("enable", ["enable", "ec"])
            d["count_events"] = ev("count", ["count", "cr", "ec"])
        else:
            d["count_events"] = ev("count", ["count", "cr"])
        d["reset_events"] = ev("reset", ["reset", "cr"])
        d["direction"] = "down" if c["down"] else "up"
        d["count_interval"] = c["interval"]
        d["starting_count"] = c["start"]
        if c["goal"] is not None:
            d["count_complete_value"] = c["goal"]
        if c["window"]:
            d["multiple_hit_window"] = "%dms" % c["window"]
        d["control_events"] = [{"action": "add", "event": "%s_add" % nm, "value": "amount"},
                               {"action": "subtract", "event": "%s_sub" % nm, "value": "amount"},
                               {"action": "jump", "event": "%s_jump" % nm, "value": "amount"}]
        return "counters", d
    if not c["boot_enabled"]:
        d["enable_events"] = ev("enable", ["enable"])
    evs = []
    for k in range(c["n"]):
        names = ["%s_s%d" % (nm, k)]
        if k + 1 < c["n"]:
            names.append("%s_x%d" % (nm, k))
        if k >= 1:
            names.append("%s_x%d" % (nm, k - 1))
        evs.append(", ".join(names))
    d["events"] = evs
    return ("accruals" if c["kind"] == "accrual" else "sequences"), d


def machine_config(blocks):
    cfg = {}
    for b, c in enumerate(blocks):
        sec, d = block_config("b%d" % b, c)
        cfg.setdefault(sec, {})["b%d" % b] = d
    return cfg


def _canon_val(v):
    if isinstance(v, bool):
        return ["?", repr(v)]
    if isinstance(v, int):
        return v
    if isinstance(v, list) and all(isinstance(x, bool) for x in v):
        return [bool(x) for x in v]
    return ["?", repr(v)]


def run_case(case):
    from rig import Rig
    blocks = case["blocks"]
    rig = Rig(machine_config(blocks))
    rig.start()
    try:
        m = rig.machine
        logs = [[] for _ in blocks]
        devs = []

        def ms():
            x = rig.now() * 1000.0
            r = int(round(x))
            return r if abs(x - r) < 1e-6 else -1

        def mk(b, what):
            def handler(**kwargs):
                kw = {k: _canon_val(v) for k, v in kwargs.items()}
                logs[b].append(["ev", ms(), what, [[k, kw[k]] for k in sorted(kw)]])
            return handler

        for b, c in enumerate(blocks):
            nm = "b%d" % b
            coll = {"counter": m.counters, "accrual": m.accruals, "sequence": m.sequences}[c["kind"]]
            devs.append(coll[nm])
            m.events.add_handler("logicblock_%s_updated" % nm, mk(b, "updated"))
            m.events.add_handler("logicblock_%s_hit" % nm, mk(b, "hit"))
            m.events.add_handler("logicblock_%s_complete" % nm, mk(b, "complete"))
            m.events.add_handler("%s_timeout" % nm, mk(b, "timeout"))
            if c["kind"] == "counter":
                m.events.add_handler("counter_%s_hit" % nm, mk(b, "legacyhit"))

        def snap(b):
            d = devs[b]
            v = d.value
            logs[b].append(["snap", ms(), _canon_val(list(v) if isinstance(v, list) else v),
                            bool(d.enabled), bool(d.completed), bool(getattr(d, "ignore_hits", False)),
                            bool(d.delay.check("timeout")), bool(d.delay.check("ignore_hits_within_window"))])

        if rig.now() != 0.001:
            return {"error": "unexpected boot time %r" % rig.now()}
        rig.advance(T0 / 1000.0 - rig.now())
        if rig.now() != T0 / 1000.0:
            return {"error": "could not align the clock: %r" % rig.now()}
        ties = set()
        for what, t, b, arg in agenda(case):
            now = rig.now()
            if t / 1000.0 > now:
                rig.advance(t / 1000.0 - now)
            if rig.now() != t / 1000.0:
                return {"error": "clock off grid: %r vs %r" % (rig.now(), t)}
            if what == "post":
                ev, amount = arg
                if amount is None:
                    rig.post("b%d_%s" % (b, ev))
                else:
                    rig.post("b%d_%s" % (b, ev), amount=amount)
                snap(b)
            elif what == "dsnap":       # a delayed control event of block b was due at t: the timer has fired
                snap(b)
            else:                       # probe one grid step before a delivery: is one of the block's own delays
                for name in ("timeout", "ignore_hits_within_window"):      # due at the same instant (a tie)?
                    dl = devs[b].delay.delays.get(name)
                    if dl is not None and abs(dl[0].when() * 1000.0 - arg) < 1e-3:
                        ties.add(b)
        if end_time(case) / 1000.0 > rig.now():
            rig.advance(end_time(case) / 1000.0 - rig.now())
        for b in range(len(blocks)):
            snap(b)
        exc = rig.exception()
        out = {"logs": logs}
        if ties:
            out["ties"] = sorted(ties)
        if exc:
            out["exception"] = repr(exc)[:300]
        return out
    finally:
        rig.stop()


# ------------------------------------------------------------------------------------------------
# Coq printers

def coq_cfg(c):
    kind = {"counter": "KCounter", "accrual": "KAccrual", "sequence": "KSequence"}[c["kind"]]
    return "(mkCfg %s %d%%nat %s %s %s %s %s %s %s %s %s)" % (
        kind, c["n"], blit(c["down"]), zlit(c["interval"]), zlit(c["start"]), opt(c["goal"], zlit),
        blit(c["roc"]), blit(c["doc"]), zlit(c["window"]), zlit(c["timeout"]), blit(c["boot_enabled"]))


def coq_op(o):
    if o[0] == "Hit":
        return "(Hit %d%%nat)" % o[1]
    if o[0] in ("Add", "Sub", "Jump"):
        return "(%s %s)" % (o[0], zlit(o[1]))
    return o[0]


BAD = "(OEv (-1) ETimeout)"      # never produced by the model: a malformed observation always mismatches


def coq_hr(kw):
    if "hits" in kw or "remaining" in kw:
        if isinstance(kw.get("hits"), int) and isinstance(kw.get("remaining"), int):
            return "(Some (%s, %s))" % (zlit(kw["hits"]), zlit(kw["remaining"]))
        return None
    return "None"


def coq_obs(c, item, shared=False):
    if item[0] == "snap":
        _, t, v, en, comp, ign, tp, wp = item
        if c["kind"] == "accrual":
            if not isinstance(v, list) or (v and not isinstance(v[0], bool)):
                return BAD
            vz, vl = 0, v
        else:
            if not isinstance(v, int):
                return BAD
            vz, vl = v, []
        return "(OSnap %s %s %s %s %s %s %s %s)" % (zlit(t), zlit(vz), coqlist(blit(x) for x in vl), blit(en),
                                                    blit(comp), blit(ign), blit(tp), blit(wp))
    _, t, what, kwl = item
    kw = dict((k, v) for k, v in kwl)
    keys = sorted(kw)
    if what == "updated":
        if keys != ["enabled", "value"] or kw["enabled"] != ["?", "True"] and kw["enabled"] != ["?", "False"]:
            return BAD
        en = kw["enabled"] == ["?", "True"]
        v = kw["value"]
        if c["kind"] == "accrual":
            if not isinstance(v, list) or (v and not isinstance(v[0], bool)):
                return BAD
            if shared:
                # known finding updated-value-aliased observed on this dispatch (aliased_groups): value not compared
                return "(OEv %s (EUpdatedAny %s))" % (zlit(t), blit(en))
            return "(OEv %s (EUpdated 0 %s %s))" % (zlit(t), coqlist(blit(x) for x in v), blit(en))
        if not isinstance(v, int):
            return BAD
        return "(OEv %s (EUpdated %s [] %s))" % (zlit(t), zlit(v), blit(en))
    if what in ("hit", "legacyhit"):
        con = "EHit" if what == "hit" else "ELegacyHit"
        if c["kind"] == "counter":
            if not set(keys) <= {"count", "hits", "remaining"} or not isinstance(kw.get("count"), int):
                return BAD
            hr = coq_hr(kw)
            if hr is None:
                return BAD
            return "(OEv %s (%s %s %s))" % (zlit(t), con, zlit(kw["count"]), hr)
        if keys != ["step"] or not isinstance(kw["step"], int):
            return BAD
        return "(OEv %s (%s %s None))" % (zlit(t), con, zlit(kw["step"]))
    if what == "complete":
        return "(OEv %s EComplete)" % zlit(t) if not keys else BAD
    if what == "timeout":
        return "(OEv %s ETimeout)" % zlit(t) if not keys else BAD
    return BAD


def _delay(x):
    return x[5] if len(x) > 5 else 0


def end_time(case):
    return max([T0, case["end"]] + [x[0] + _delay(x) for x in case["timeline"]])


def agenda(case):
    """what the harness does, in this order: ("post", t, b, (event, amount)) followed by a snapshot of block b;
    ("dsnap", t, b, None): snapshot of b at the instant a delayed control event posted earlier is due (timers due
    at t fire while the clock advances to t, i.e. before anything posted at t); ("probe", t, b, due): one grid step
    before the delivery due at `due`, look for one of the block's own delays due at that same instant."""
    items = []
    for i, x in enumerate(case["timeline"]):
        t, b, ev, amount = x[0], x[1], x[2], x[3]
        items.append((t, 1, i, "post", b, (ev, amount)))
        d = _delay(x)
        if d:
            items.append((t + d, 0, i, "dsnap", b, None))
            items.append((t + d - GRID, 2, i, "probe", b, t + d))
    items.sort(key=lambda it: it[:3])
    return [(it[3], it[0], it[4], it[5]) for it in items]


def deliver(posts):
    """posts [(t, delay, ops)] in posting order -> operation groups [(instant, ops)]: a delayed post leaves an empty
    group at its instant and its operations at t + delay, each inserted after every group due no later."""
    groups = []

    def insert(d, ops):
        i = 0
        while i < len(groups) and groups[i][0] <= d:
            i += 1
        groups.insert(i, (d, ops))
    for t, d, ops in posts:
        if d:
            insert(t, [])
            insert(t + d, ops)
        else:
            insert(t, ops)
    return groups


def block_posts(case, b):
    p = [(x[0], _delay(x), x[4]) for x in case["timeline"] if x[1] == b]
    p.append((end_time(case), 0, []))
    return p


def block_groups(case, b):
    return deliver(block_posts(case, b))


def aliased_groups(log):
    """recorded defect updated-value-aliased (accruals): indices of the log items of every dispatch in which some
    update event's value list already shows the step of a LATER hit of the same dispatch (the event carries the live
    list, so a later hit is visible in an earlier update).  On such a dispatch the value argument of the update
    events is not compared with the model."""
    res = set()
    start = 0
    for end, it in enumerate(log):
        if it[0] not in ("snap", "nosnap"):
            continue
        seg = range(start, end)
        found = False
        for j in seg:
            if log[j][2] != "updated":
                continue
            v = dict(log[j][3]).get("value")
            if not isinstance(v, list):
                continue
            own = j + 1 if j + 1 < end and log[j + 1][2] == "hit" else -1    # the hit this update was posted with
            for i in range(j + 1, end):
                if log[i][2] == "hit" and i != own:
                    k = dict(log[i][3]).get("step")
                    if isinstance(k, int) and not isinstance(k, bool) and 0 <= k < len(v) and v[k] is True:
                        found = True
        if found:
            res.update(seg)
        start = end + 1
    return res


def _coq_case(case, out, delayed):
    if "logs" not in out:
        return None
    ins, exps = [], []
    for b, c in enumerate(case["blocks"]):
        if b in out.get("ties", ()):
            continue        # a delivery and one of the block's own delays were due at the same instant: order unspecified
        if delayed:
            ins.append("(%s, %s)" % (coq_cfg(c), coqlist("(%s, %s, %s)" % (zlit(t), zlit(d), coqlist(coq_op(o) for o in mops))
                                                           for t, d, mops in block_posts(case, b))))
        else:
            ins.append("(%s, %s)" % (coq_cfg(c), coqlist("(%s, %s)" % (zlit(t), coqlist(coq_op(o) for o in mops))
                                                           for t, mops in block_groups(case, b))))
        log = out["logs"][b]
        lenient = aliased_groups(log) if c["kind"] == "accrual" else set()
        terms = [coq_obs(c, it, j in lenient) for j, it in enumerate(log)]
        exps.append(coqlist(terms))
    return "(%s, %s)" % (coqlist(ins), coqlist(exps))


def coq_case(case, out):
    return _coq_case(case, out, False)


def coq_case_delayed(case, out):
    return _coq_case(case, out, True)


HDR = ("From C18 Require Import Model.\n"
       "Definition run (i : list (cfg * list (Z * list op))) : list (list obs) := map C18.Model.run i.\n"
       "Definition out_eqb : list (list obs) -> list (list obs) -> bool := list_eqb C18.Model.out_eqb.\n")

HDR_D = ("From C18 Require Import Model Delayed.\n"
         "Definition run (i : list (cfg * list (Z * Z * list op))) : list (list obs) := map C18.Delayed.run_delayed i.\n"
         "Definition out_eqb : list (list obs) -> list (list obs) -> bool := list_eqb C18.Model.out_eqb.\n")


# ------------------------------------------------------------------------------------------------
# oracle: the property's own predicate, evaluated on the implementation's observations only.
# It keeps the bookkeeping the property text talks about (enabled?, inside the window?, hits accepted since the last
# reset, completed since the last reset, when the timeout is due, whether the block's mode runs); it knows nothing of
# the window delay, event order inside an operation or the update events.

def oracle_block(c, groups, log):
    fails = []

    def fail(sig, what):
        if not any(f["sig"] == sig for f in fails):
            fails.append({"sig": sig, "what": what})

    kind = c["kind"]
    hv = (-abs(c["interval"]) if c["down"] else abs(c["interval"])) if kind == "counter" else 0
    n = c["n"]
    mode = c.get("mode")                        # block configured in a mode: {"start_enabled", "enable_events", "persist"}
    running = mode is None                      # a machine-level block always exists
    if mode is None:
        enabled = bool(c["boot_enabled"])
    else:
        enabled = False
    completed = False
    start, goal = c["start"], c["goal"]         # current values (templates may change)
    base, nacc = start, 0                       # counter: value = base + hv * nacc
    steps = [False] * n                         # accrual
    pos = 0                                     # sequence
    last_accept = None                          # counter: instant of the last accepted hit
    T = c["timeout"]
    tdead = T if (T and enabled) else None      # when the block's timeout is due (armed by the enable at boot, t = 0)
    saved = False                               # a state kept in the player (persist_state) exists

    def reached(v):
        if goal is None:
            return False
        return v <= goal if c["down"] else v >= goal

    def do_reset():
        nonlocal completed, base, nacc, steps, pos
        completed = False
        base, nacc = start, 0
        steps = [False] * n
        pos = 0

    # split the log into one segment per snapshot
    segs, cur = [], []
    for it in log:
        if it[0] in ("snap", "nosnap"):
            segs.append((cur, it))
            cur = []
        else:
            cur.append(it)
    if cur or len(segs) != len(groups):
        fail("trace-shape", "number of snapshots %d != number of operation groups %d" % (len(segs), len(groups)))
        return fails
    for (t, mops), (evs, sn) in zip(groups, segs):
        if any(it[1] < 0 for it in evs) or sn[1] != t:
            fail("time-off-grid", "an event was observed at a non-integral millisecond")
        exp_hits, exp_complete, exp_vals = [], 0, []
        # the timeout runs from the last enable / reset / restart / timeout and is stopped by disable, by completion and
        # by the end of the block's mode; it resets the block every period.  A timeout due at t comes before what is
        # posted at t.
        exp_tmo = []
        while tdead is not None and tdead <= t:
            exp_tmo.append(tdead)
            do_reset()
            tdead += T
        got_tmo = [it[1] for it in evs if it[2] == "timeout"]
        if got_tmo != exp_tmo:
            fail("timeout-events", "<name>_timeout posted at %r up to t=%d, the timeout (%d ms, running from the last "
                 "enable/reset/restart/timeout, stopped by disable and completion) was due at %r" % (got_tmo, t, T, exp_tmo))
        for o in mops:
            goal_now = False
            if o[0] == "MSetGoal":
                goal = o[1]
                continue
            if o[0] == "MSetStart":
                start = o[1]
                continue
            if o[0] == "MStart":
                if not running:
                    running = True
                    last_accept = None
                    tdead = None
                    if not (mode["persist"] and saved):
                        do_reset()
                        se = mode["start_enabled"]
                        enabled = se if se is not None else not mode["enable_events"]
                        if enabled and T:
                            tdead = t + T
                continue
            if o[0] == "MStop":
                if running:
                    running = False
                    saved = bool(mode["persist"])
                    tdead = None
                    last_accept = None
                continue
            if not running:
                continue                        # the block's mode is not running: nothing happens
            if o[0] == "Enable":
                enabled = True
                tdead = t + T if T else None
            elif o[0] == "Disable":
                enabled = False
                tdead = None
            elif o[0] == "Reset":
                do_reset()
                tdead = t + T if T else None
            elif o[0] == "Restart":
                do_reset()
                enabled = True
                tdead = t + T if T else None
            elif o[0] == "Count" and kind == "counter":
                inwin = c["window"] and last_accept is not None and t - last_accept < c["window"]
                if enabled and not inwin:
                    nacc += 1
                    last_accept = t
                    exp_hits.append(base + hv * nacc)
                    exp_vals.append(base + hv * nacc)
                    goal_now = reached(base + hv * nacc)
            elif o[0] in ("Add", "Sub", "Jump") and kind == "counter":
                if o[0] == "Add":
                    base += o[1]
                elif o[0] == "Sub":
                    base -= o[1]
                else:
                    base, nacc = o[1], 0
                goal_now = reached(base + hv * nacc)
            elif o[0] == "Hit" and kind == "accrual":
                if enabled and o[1] < n:
                    if not steps[o[1]]:
                        steps[o[1]] = True
                        exp_hits.append(o[1])
                        exp_vals.append(list(steps))
                    goal_now = all(steps)
            elif o[0] == "Hit" and kind == "sequence":
                if enabled and o[1] == pos:
                    pos += 1
                    exp_hits.append(pos)
                    exp_vals.append(pos)
                    goal_now = pos >= n
            if goal_now and not completed:
                exp_complete += 1
                completed = True
                tdead = None
                if c["roc"]:
                    do_reset()
                    tdead = t + T if T else None
                if c["doc"]:
                    enabled = False
                    tdead = None
        # observed
        hits = [dict(it[3]) for it in evs if it[2] == "hit"]
        legacy = [dict(it[3]) for it in evs if it[2] == "legacyhit"]
        ncomp = sum(1 for it in evs if it[2] == "complete")
        key = "count" if kind == "counter" else "step"
        if [h.get(key) for h in hits] != exp_hits or (kind == "counter" and legacy != hits):
            fail("hit-events", "hit events %r posted at t=%d, the accepted hits are %r" % (hits, t, exp_hits))
        else:
            # the update event posted together with each hit event carries the value at that moment
            upd_vals = []
            for j, it in enumerate(evs):
                if it[2] == "hit":
                    i = j - 1
                    while i >= 0 and evs[i][2] == "legacyhit":
                        i -= 1
                    upd_vals.append(dict(evs[i][3]).get("value") if i >= 0 and evs[i][2] == "updated" else None)
            for j, (got, want) in enumerate(zip(upd_vals, exp_vals)):
                if got != want:
                    if kind == "accrual" and j + 1 < len(exp_vals) and got == exp_vals[-1]:
                        fail("updated-value-aliased", "logicblock_<accrual>_updated posted for step %r at t=%d shows "
                             "%r: a later hit of the same dispatch is already visible (live list in the event)"
                             % (exp_hits[j], t, got))
                    else:
                        fail("updated-value", "update event posted with hit %r at t=%d carries value %r, state was %r"
                             % (exp_hits[j], t, got, want))
        if ncomp != exp_complete:
            fail("complete-events", "%d completion events at t=%d, %d completions reached" % (ncomp, t, exp_complete))
        if sn[0] == "nosnap" or not running:
            if (sn[0] == "nosnap") == running:
                fail("mode-lifecycle", "at t=%d the block %s a state, its mode is %srunning"
                     % (t, "has no" if sn[0] == "nosnap" else "has", "" if running else "not "))
            continue
        val = sn[2]
        if kind == "counter" and val != base + hv * nacc:
            fail("value-formula", "counter value %r at t=%d, start/accepted-hit formula gives %d" % (val, t, base + hv * nacc))
        if kind == "accrual" and val != steps:
            fail("accrual-steps", "accrual state %r at t=%d, steps hit since the last reset: %r" % (val, t, steps))
        if kind == "sequence" and val != pos:
            fail("sequence-order", "sequence position %r at t=%d, in-order steps so far: %d" % (val, t, pos))
        if sn[3] != enabled or sn[4] != completed:
            fail("post-state", "enabled/completed = %r/%r at t=%d, expected %r/%r" % (sn[3], sn[4], t, enabled, completed))
    return fails


def oracle(case, out):
    if "error" in out:
        return [{"sig": "rig-clock", "what": out["error"]}]
    fails = []
    if out.get("exception"):
        fails.append({"sig": "exception", "what": "the machine raised: %s" % out["exception"]})
    for b, c in enumerate(case["blocks"]):
        if b in out.get("ties", ()):
            continue
        for f in oracle_block(c, block_groups(case, b), out["logs"][b]):
            if not any(g["sig"] == f["sig"] for g in fails):
                fails.append(dict(f, what="block b%d (%s): %s" % (b, c["kind"], f["what"])))
    return fails


# ------------------------------------------------------------------------------------------------
def shrink(case):
    blocks, tl = case["blocks"], case["timeline"]
    # keep a single block
    if len(blocks) > 1:
        for b in range(len(blocks)):
            yield {"blocks": [blocks[b]], "timeline": [[x[0], 0] + list(x[2:]) for x in tl if x[1] == b],
                   "end": case["end"]}
    # drop operations (halves first, then single ones)
    n = len(tl)
    if n > 3:
        yield dict(case, timeline=tl[:n // 2])
        yield dict(case, timeline=tl[n // 2:])
    for i in range(n - 1, -1, -1):
        if n > 1:
            yield dict(case, timeline=tl[:i] + tl[i + 1:])
    if tl and case["end"] > tl[-1][0]:
        yield dict(case, end=tl[-1][0])
    # simplify the configuration
    for b, c in enumerate(blocks):
        for k, v in (("timeout", 0), ("window", 0), ("doc", False), ("roc", False)):
            if c.get(k):
                yield dict(case, blocks=blocks[:b] + [dict(c, **{k: v})] + blocks[b + 1:])


def _block_facts(case, out, b):
    evs = [it for it in out["logs"][b] if it[0] == "ev"]
    nh = sum(1 for it in evs if it[2] == "hit")
    ops = [o for x in case["timeline"] if x[1] == b for o in x[4] if o[0] in ("Count", "Hit")]
    return {"hits": nh, "complete": any(it[2] == "complete" for it in evs),
            "timeout": any(it[2] == "timeout" for it in evs), "ignored": len(ops) > nh}


def nontrivial(case, out):
    if "logs" not in out:
        return False
    for b in range(len(case["blocks"])):
        f = _block_facts(case, out, b)
        if f["hits"] and (f["complete"] or f["timeout"] or f["ignored"]):
            return True
    return False


def describe(case):
    n = len(case["timeline"])
    return "ops=%s" % ("<60" if n < 60 else "60-120" if n < 120 else "120-180" if n < 180 else ">=180")


# ---- blocks configured in a mode: life cycle, persist_state, template values ------------------------
TM0 = 4000          # first instant of the mode-level timelines (the game of the rig has started by then)


def gen_case_modes(rng, tier, i):
    """one game mode m1 with 5 blocks (3 counters, accrual, sequence); the mode is started and stopped several times
    while the blocks receive their events (also while the mode is not running); counters take starting_count and
    count_complete_value from machine variables that change during the history."""
    kinds = ["counter", "counter", "counter", "accrual", "sequence"]
    blocks, timeline = [], []
    span = 0
    for b, kind in enumerate(kinds):
        c = gen_cfg(rng, kind)
        r = rng.random()
        if r < 0.35:
            c["roc"], c["doc"] = False, False           # stays completed and enabled: further hits after completion
        ee = rng.random() < 0.5
        c["boot_enabled"] = not ee                      # (which events exist: see block_config / gen_ops)
        c["mode"] = {"enable_events": ee, "start_enabled": rng.choice([None, None, True, False]),
                     "persist": rng.random() < 0.5}
        blocks.append(c)
        t = TM0 + GRID * rng.randrange(0, 4)
        ops = gen_ops(rng, c, rng.randint(8, 22))
        if ee and rng.random() < 0.6:
            ops.insert(rng.randrange(0, 4), [rng.choice([0, 125, 250]), "enable", None, [["Enable"]]])
        for dt, ev, amount, mops in ops:
            t += dt
            timeline.append([t, b, ev, amount, mops])
            if kind == "counter" and rng.random() < 0.12:
                if c["goal"] is not None and rng.random() < 0.6:
                    g = c["goal"] + rng.choice([-2, -1, 1, 2, 3])
                    timeline.append([t, b, "@goal", g, [["MSetGoal", g]]])
                else:
                    z = c["start"] + rng.choice([-2, 1, 2, 5])
                    timeline.append([t, b, "@start", z, [["MSetStart", z]]])
        span = max(span, t)
    # mode starts / stops: the first start early, then 2-6 toggles, sometimes a repeated start / a stop while stopped
    t = TM0 + GRID * rng.randrange(0, 6)
    running = False
    while t < span:
        r = rng.random()
        if r < 0.8:
            ev = "stop" if running else "start"
        else:
            ev = "start" if running else "stop"
        if ev == "start":
            running = True
        else:
            running = False
        timeline.append([t, -1, "m1_" + ev, None, [["MStart" if ev == "start" else "MStop"]]])
        t += GRID * rng.choice([1, 2, 3, 4, 6, 8, 12, 16])
    timeline.sort(key=lambda x: x[0])
    end = max(x[0] for x in timeline) + rng.choice([0, 125, 1000, 2500])
    return {"blocks": blocks, "timeline": timeline, "end": end}


def mode_block_groups(case, b):
    g = [(x[0], x[4]) for x in case["timeline"] if x[1] in (b, -1)]
    g.append((end_time(case), []))
    return g


def run_case_modes(case):
    from rig import FakeGameRig
    blocks = case["blocks"]
    mode_cfg = {"mode": {"start_events": "m1_start", "stop_events": "m1_stop", "priority": 200, "game_mode": True}}
    mvars = {}
    for b, c in enumerate(blocks):
        nm = "b%d" % b
        sec, d = block_config(nm, c)
        if c["mode"]["start_enabled"] is not None:
            d["start_enabled"] = bool(c["mode"]["start_enabled"])
        if c["mode"]["persist"]:
            d["persist_state"] = True
        if c["kind"] == "counter":
            d["starting_count"] = "machine.%s_start" % nm
            mvars["%s_start" % nm] = {"initial_value": c["start"], "value_type": "int", "persist": False}
            if c["goal"] is not None:
                d["count_complete_value"] = "machine.%s_goal" % nm
                mvars["%s_goal" % nm] = {"initial_value": c["goal"], "value_type": "int", "persist": False}
        mode_cfg.setdefault(sec, {})[nm] = d
    rig = FakeGameRig({"modes": ["m1"], "machine_vars": mvars}, modes={"m1": mode_cfg})
    rig.start()
    try:
        m = rig.machine
        logs = [[] for _ in blocks]
        devs = []

        def ms():
            x = rig.now() * 1000.0
            r = int(round(x))
            return r if abs(x - r) < 1e-6 else -1

        def mk(b, what):
            def handler(**kwargs):
                kw = {k: _canon_val(v) for k, v in kwargs.items()}
                logs[b].append(["ev", ms(), what, [[k, kw[k]] for k in sorted(kw)]])
            return handler

        for b, c in enumerate(blocks):
            nm = "b%d" % b
            coll = {"counter": m.counters, "accrual": m.accruals, "sequence": m.sequences}[c["kind"]]
            devs.append(coll[nm])
            m.events.add_handler("logicblock_%s_updated" % nm, mk(b, "updated"))
            m.events.add_handler("logicblock_%s_hit" % nm, mk(b, "hit"))
            m.events.add_handler("logicblock_%s_complete" % nm, mk(b, "complete"))
            m.events.add_handler("%s_timeout" % nm, mk(b, "timeout"))
            if c["kind"] == "counter":
                m.events.add_handler("counter_%s_hit" % nm, mk(b, "legacyhit"))

        def snap(b):
            d = devs[b]
            v = d.value
            if d._state is None:
                if v is not None or d.enabled or d.completed:
                    logs[b].append(["ev", ms(), "bad-nostate", []])
                logs[b].append(["nosnap", ms()])
                return
            logs[b].append(["snap", ms(), _canon_val(list(v) if isinstance(v, list) else v),
                            bool(d.enabled), bool(d.completed), bool(getattr(d, "ignore_hits", False)),
                            bool(d.delay.check("timeout")), bool(d.delay.check("ignore_hits_within_window"))])

        rig.advance(1.0 - rig.now())
        rig.start_game()
        if m.game is None or m.game.player is None or rig.now() > TM0 / 1000.0:
            return {"error": "game did not start in time: %r" % rig.now()}
        rig.advance(TM0 / 1000.0 - rig.now())
        if rig.now() != TM0 / 1000.0:
            return {"error": "could not align the clock: %r" % rig.now()}
        for x in case["timeline"]:
            t, b, ev, amount = x[0], x[1], x[2], x[3]
            now = rig.now()
            if t / 1000.0 > now:
                rig.advance(t / 1000.0 - now)
            if rig.now() != t / 1000.0:
                return {"error": "clock off grid: %r vs %r" % (rig.now(), t)}
            if ev == "@goal":
                m.variables.set_machine_var("b%d_goal" % b, amount)
                rig.advance(0)
            elif ev == "@start":
                m.variables.set_machine_var("b%d_start" % b, amount)
                rig.advance(0)
            elif b < 0:
                rig.post(ev)
            elif amount is None:
                rig.post("b%d_%s" % (b, ev))
            else:
                rig.post("b%d_%s" % (b, ev), amount=amount)
            for bb in (range(len(blocks)) if b < 0 else [b]):
                snap(bb)
        if m.game is None or m.game.player is None:
            return {"error": "the game ended"}
        if end_time(case) / 1000.0 > rig.now():
            rig.advance(end_time(case) / 1000.0 - rig.now())
        for b in range(len(blocks)):
            snap(b)
        exc = rig.exception()
        out = {"logs": logs}
        if exc:
            out["exception"] = repr(exc)[:300]
        return out
    finally:
        rig.stop()


def coq_mop(o):
    if o[0] in ("MStart", "MStop"):
        return o[0]
    if o[0] in ("MSetGoal", "MSetStart"):
        return "(%s %s)" % (o[0], zlit(o[1]))
    return "(MOp %s)" % coq_op(o)


def coq_case_modes(case, out):
    if "logs" not in out:
        return None
    ins, exps = [], []
    for b, c in enumerate(case["blocks"]):
        mo = c["mode"]
        mc = "(mkM %s %s %s)" % (opt(mo["start_enabled"], blit), blit(mo["enable_events"]), blit(mo["persist"]))
        ins.append("(%s, %s, %s)" % (mc, coq_cfg(c), coqlist("(%s, %s)" % (zlit(t), coqlist(coq_mop(o) for o in mops))
                                                             for t, mops in mode_block_groups(case, b))))
        terms = []
        for it in out["logs"][b]:
            if it[0] == "nosnap":
                terms.append("(MNoState %s)" % zlit(it[1]))
            else:
                terms.append("(MO %s)" % coq_obs(c, it))
        exps.append(coqlist(terms))
    return "(%s, %s)" % (coqlist(ins), coqlist(exps))


HDR_M = ("From C18 Require Import Model MBlock.\n"
         "Definition run (i : list (mcfg * cfg * list (Z * list mop))) : list (list mobs) := map C18.MBlock.mrun_case i.\n"
         "Definition out_eqb : list (list mobs) -> list (list mobs) -> bool := list_eqb C18.MBlock.mout_eqb.\n")


def oracle_modes(case, out):
    if "error" in out:
        return [{"sig": "rig-clock", "what": out["error"]}]
    fails = []
    if out.get("exception"):
        fails.append({"sig": "exception", "what": "the machine raised: %s" % out["exception"]})
    for b, c in enumerate(case["blocks"]):
        for f in oracle_block(c, mode_block_groups(case, b), out["logs"][b]):
            if not any(g["sig"] == f["sig"] for g in fails):
                fails.append(dict(f, what="block b%d (%s, in mode): %s" % (b, c["kind"], f["what"])))
    return fails


def shrink_modes(case):
    blocks, tl = case["blocks"], case["timeline"]
    if len(blocks) > 1:
        for b in range(len(blocks)):
            yield {"blocks": [blocks[b]], "end": case["end"],
                   "timeline": [[x[0], 0 if x[1] == b else -1] + list(x[2:]) for x in tl if x[1] in (b, -1)]}
    n = len(tl)
    if n > 3:
        yield dict(case, timeline=tl[:n // 2])
    for i in range(n - 1, -1, -1):
        if n > 1:
            yield dict(case, timeline=tl[:i] + tl[i + 1:])
    if tl and case["end"] > tl[-1][0]:
        yield dict(case, end=tl[-1][0])
    for b, c in enumerate(blocks):
        for k, v in (("timeout", 0), ("window", 0), ("doc", False), ("roc", False)):
            if c.get(k):
                yield dict(case, blocks=blocks[:b] + [dict(c, **{k: v})] + blocks[b + 1:])


def nontrivial_modes(case, out):
    """some block posted a hit while its mode ran, received operations while it did not, and the mode was
    started at least twice"""
    if "logs" not in out:
        return False
    starts = sum(1 for x in case["timeline"] if x[2] == "m1_start")
    for log in out["logs"]:
        if any(it[0] == "ev" and it[2] == "hit" for it in log) and any(it[0] == "nosnap" for it in log) and starts >= 2:
            return True
    return False


def nontrivial_delayed(case, out):
    """a burst is in flight: two posts of one delayed event of a block less than its delay apart, and the block
    posted a hit or changed state"""
    if "logs" not in out:
        return False
    last = {}
    for x in case["timeline"]:
        d = _delay(x)
        if d:
            k = (x[1], x[2])
            if k in last and x[0] - last[k] < d and x[1] not in out.get("ties", ()):
                return True
            last[k] = x[0]
    return False


SUITES = [
    Suite("blocks", gen_case, run_case, HDR, coq_case, oracle, shrink, nontrivial,
          {"quick": 160, "thorough": 4000}, shard=21, describe=describe, case_timeout=120),
    Suite("delayed", gen_case_delayed, run_case, HDR_D, coq_case_delayed, oracle, shrink, nontrivial_delayed,
          {"quick": 60, "thorough": 1000}, shard=16, describe=describe, case_timeout=120),
    Suite("modes", gen_case_modes, run_case_modes, HDR_M, coq_case_modes, oracle_modes, shrink_modes, nontrivial_modes,
          {"quick": 60, "thorough": 1000}, shard=16, describe=describe, case_timeout=120),
]

LEVEL_TEXT = ("Machine-checked proof (Coq) over an executable model of Counter/Accrual/Sequence (state: enabled, completed, "
              "value, hit-window flag, the two pending delays) that for every configuration and every history of operations "
              "and delay expiries the counter value equals start + direction*|interval|*(accepted hits since the last reset) "
              "(spelled out for both directions, any interval, interval 0), hit events are posted once per accepted hit, a "
              "completion event is posted exactly when an operation reaches the goal of a not-yet-completed block and is "
              "followed by the configured reset/disable, accruals complete on any order of their steps and sequences only "
              "advance on the current step (one step for an event bound to two consecutive steps), a hit exactly at the end "
              "of the hit window counts; that control events configured with a delay are each delivered exactly once at post "
              "time + delay in due order (none replaces another: a plain counter counts every posted hit); and that a block "
              "configured in a mode ignores everything while the mode is not running, drops (or with persist_state keeps) "
              "its state at mode stop, starts enabled per start_enabled / enable_events, obeys the value formula across "
              "mode restarts and re-evaluates template values. The three models are tied to /repo on every run by comparing "
              "complete event traces and state snapshots of real blocks on a virtual clock.")
LEVEL_NOTE = ("Trusted: Coq kernel + vm_compute; no axioms. Models hand-written; correspondence validates them against the "
              "working tree (EventManager, DelayManager, modes, machine variables and the test clock are the real ones). "
              "Per-player restore across player changes is not modelled (C07/C11); deliveries tied with a block's own delay "
              "are excluded.")
TECHNIQUE = "Coq proof over hand-written executable model + differential correspondence (vm_compute) + direct property oracle"
DESIGN_REF = "DESIGN.md section 3, C18"
