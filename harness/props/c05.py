"""C05 — Ball requests make progress: no lost or stuck ejects.

(a) routing: find_path_to_target / find_one_available_ball / _setup_or_queue_eject_to_target of the real BallDevice
    class are run (unbound, on light stub devices) on generated device graphs and compared pointwise with the Coq
    functions; (b) the eject-attempt automaton must accept the per-device event sequence of simulated runs with fault
    sequences (same physical-world simulator as C04), and an independent oracle checks retry numbering, the
    max_eject_attempts bound, broken reports and that every device is idle / broken / justifiably waiting once the
    world is quiet.
"""
from collections import deque

from vlib import Suite, zlit, coqlist

from props import balls_common as bc

ID = "C05"
READY = True
RULE = ("routing: acyclic device graphs with 2-7 devices and 1-2 playfields, available_balls 0-2 per device, queries "
        "path / available ball / setup-or-queue for random (device, target) pairs; non-trivial = path of >= 3 hops "
        "or a queued request.  attempts: simulated machines as in C04 (two sources into one target, two-ball staging "
        "device, entrance-counted lock, double kick-outs, leaks, eject attempts held by a queue-event handler, an outhole "
        "with switch/event-confirmed late balls, a never-servable request (at the trough) queued in front of a servable "
        "one) with fault-heavy profiles (k consecutive stuck "
        "ejects, balls falling back, confirmations after the timeout, lost balls) and max_eject_attempts 0/2/3/4; "
        "non-trivial = at least one failed attempt.  game: a real game (start button, ball start) with a ball_save "
        "(unlimited, eject_delay 0.8-2.5 s) and a multiball as request sources; two balls in play, two drains "
        "0.1 s .. eject_delay+0.6 s apart, stuck ejects; non-trivial = at least two balls saved")
TRUSTED_BASE = [
    "Coq 8.16.1 kernel (coqc), vm_compute for the correspondence; no native_compute",
    "axioms: none",
    "hand-written model coq/C05/Model.v; routing tied pointwise to the real methods (bound to stub objects that carry "
    "config['eject_targets'], _source_devices, available_balls), automaton tied by trace acceptance of simulated runs",
    "the physical-world simulator and recorder of harness/props/balls_common.py",
]
ASSUMPTIONS = [
    "device graphs are acyclic (find_path_to_target has no visited set and recurses forever on a cycle that does not "
    "contain the target; real machine configs are validated to have a path)",
    "coil ejectors, confirm_eject_type target; player-controlled / mechanical ejects (unbounded wait by design) are "
    "not generated",
    "liveness is proved for the automaton only (every timed phase has an enabled timeout step and the number of "
    "attempts of one eject is bounded by max_eject_attempts); that asyncio delivers the timeouts is validated",
]
DESIGN_REF = "DESIGN.md section 3, C05"
TECHNIQUE = ("Coq proof over hand-written routing functions and attempt automaton + pointwise differential test of the "
             "routing methods + trace acceptance of simulated runs (vm_compute) + direct progress oracle")
LEVEL_TEXT = ("Machine-checked proof (Coq): every path returned by the routing functions follows eject_targets edges "
              "from the source to the requested target; a request is either served with such a chain or queued "
              "(never dropped) and it is queued only if no device upstream has an available ball; in the "
              "eject-attempt automaton attempts are numbered 0,1,2.. and with max_eject_attempts = m > 0 no eject makes "
              "more than m attempts: it ends in success, lost-ball report or eject_broken; every phase that waits on "
              "the physical world has an enabled timeout step (no silent hang). The routing functions are compared "
              "pointwise with the real methods; that the real coroutines follow the automaton is validated on "
              "sampled simulated runs, and timing (asyncio timeouts) is validated, not proved.")
LEVEL_NOTE = ("Proved: routing correctness and automaton bounds, all inputs. Validated only: the automaton tie (sampled "
              "runs), delivery of timeouts by the event loop, request re-serving on balldevice_balls_available "
              "(oracle: no servable queued request at quiescence).")


# ------------------------------------------------------------------------------------------------
# (a) routing
def gen_route(rng, tier, i):
    n = rng.choice([2, 3, 3, 4, 5, 6, 7])
    npf = rng.choice([1, 1, 2])
    g = []
    for d in range(n):
        ts = []
        later = list(range(d + 1, n))
        rng.shuffle(later)
        for t in later[:rng.choice([0, 1, 1, 2, 3])]:
            ts.append(t)
        for p in range(npf):
            if rng.random() < (0.5 if d < n - 1 else 0.9):
                ts.insert(rng.randrange(len(ts) + 1), 100 + p)
        g.append([d, ts])
    # devices are listed in a random order (machine.ball_devices order decides the order of _source_devices)
    order = list(range(n))
    if rng.random() < 0.5:
        rng.shuffle(order)
    g = [g[k] for k in order]
    avail = [[d, rng.choice([0, 0, 0, 1, 2])] for d in range(n)]
    kind = rng.choice(["path", "avail", "setup", "setup"])
    d = rng.randrange(n)
    if kind == "path":
        q = ["path", d, rng.choice(list(range(n)) + [100 + p for p in range(npf)])]
    elif kind == "avail":
        q = ["avail", d]
    else:
        q = ["setup", d, rng.choice([d] + list(range(n)) + [100 + p for p in range(npf)] * 2)]
    return {"g": g, "avail": avail, "q": q, "npf": npf}


def _stubs(case):
    from mpf.devices.ball_device.ball_device import BallDevice

    class Pf:
        def __init__(self, name):
            self.name = name
            self.available_balls = 0

        @staticmethod
        def is_playfield():
            return True

        def __repr__(self):
            return "<pf %s>" % self.name

    class Stub:
        find_path_to_target = BallDevice.find_path_to_target
        find_one_available_ball = BallDevice.find_one_available_ball
        _setup_or_queue_eject_to_target = BallDevice._setup_or_queue_eject_to_target

        def __init__(self, name):
            self.name = name
            self.config = {"eject_targets": []}
            self._source_devices = []
            self._ball_requests = deque()
            self.available_balls = 0
            self.chains = []

        @staticmethod
        def is_playfield():
            return False

        def setup_eject_chain(self, path, player_controlled=False):
            self.chains.append([p.name for p in path])

        def __repr__(self):
            return "<dev %s>" % self.name

    objs = {}
    for d, _ in case["g"]:
        objs[d] = Stub(d)
    for p in range(case["npf"]):
        objs[100 + p] = Pf(100 + p)
    for d, ts in case["g"]:
        objs[d].config["eject_targets"] = [objs[t] for t in ts]
    # _configure_targets: sources in machine.ball_devices order
    for d, _ in case["g"]:
        for s, ts in case["g"]:
            if d in ts:
                objs[d]._source_devices.append(objs[s])
    for d, a in case["avail"]:
        objs[d].available_balls = a
    return objs


def run_route(case):
    objs = _stubs(case)
    q = case["q"]
    if q[0] == "path":
        r = objs[q[1]].find_path_to_target(objs[q[2]])
        return {"kind": 1, "path": [p.name for p in r]} if r else {"kind": 0, "path": []}
    if q[0] == "avail":
        r = objs[q[1]].find_one_available_ball()
        return {"kind": 1, "path": [p.name for p in r]} if r else {"kind": 0, "path": []}
    d = objs[q[1]]
    try:
        ok = d._setup_or_queue_eject_to_target(objs[q[2]])
    except AssertionError:
        return {"kind": 0, "path": []}
    if ok:
        chains = [c for o in objs.values() if hasattr(o, "chains") for c in o.chains]
        return {"kind": 1, "path": chains[0] if len(chains) == 1 else [-1], "starter":
                [o.name for o in objs.values() if hasattr(o, "chains") and o.chains]}
    return {"kind": 2, "path": [], "queued": [[t.name, pc] for t, pc in d._ball_requests]}


def zl(xs):
    return "[" + ";".join(zlit(x) for x in xs) + "]"


def coq_route(case, out):
    g = coqlist("(%s,%s)" % (zlit(d), zl(ts)) for d, ts in case["g"])
    av = coqlist("(%s,%s)" % (zlit(d), zlit(a)) for d, a in case["avail"])
    q = case["q"]
    qt = "QPath %s %s" % (zlit(q[1]), zlit(q[2])) if q[0] == "path" else "QAvail %s" % zlit(q[1]) if q[0] == "avail" \
        else "QSetup %s %s" % (zlit(q[1]), zlit(q[2]))
    return "((%s, %s, %s), (%s, %s))" % (g, av, qt, zlit(out["kind"]), zl(out["path"]))


def _edges(case):
    return {d: ts for d, ts in case["g"]}


def _reach(case, d, target):
    """is there a route d -> target whose intermediate hops are devices (the property's own notion)"""
    e = _edges(case)
    seen, todo = set(), [d]
    while todo:
        x = todo.pop()
        if x in seen:
            continue
        seen.add(x)
        for t in e.get(x, []):
            if t == target:
                return True
            if t < 100:
                todo.append(t)
    return False


def _upstream_available(case, d):
    e = _edges(case)
    av = dict(map(tuple, case["avail"]))
    seen, todo = {d}, [d]
    while todo:
        x = todo.pop()
        for s, ts in e.items():
            if x in ts and s not in seen:
                if av.get(s, 0) > 0:
                    return True
                seen.add(s)
                todo.append(s)
    return False


def oracle_route(case, out):
    fails = []
    e = _edges(case)
    av = dict(map(tuple, case["avail"]))
    q = case["q"]
    p = out["path"]

    def hops_ok(path):
        return all(path[i + 1] in e.get(path[i], []) for i in range(len(path) - 1))
    if q[0] == "path":
        if out["kind"] == 1:
            if not (p[0] == q[1] and p[-1] == q[2] and hops_ok(p) and len(p) >= 2):
                fails.append({"sig": "bad-path", "what": "find_path_to_target returned %r for %r" % (p, q)})
        elif _reach(case, q[1], q[2]):
            fails.append({"sig": "path-not-found", "what": "target reachable but find_path_to_target found none: %r" % q})
    elif q[0] == "avail":
        if out["kind"] == 1:
            if not (p[-1] == q[1] and len(p) >= 2 and av.get(p[0], 0) > 0 and hops_ok(p)):
                fails.append({"sig": "bad-available-path", "what": "find_one_available_ball returned %r for %r" % (p, q)})
        elif _upstream_available(case, q[1]):
            fails.append({"sig": "available-ball-not-found", "what": "a source upstream has a ball but none found: %r" % q})
    else:
        d, t = q[1], q[2]
        if out["kind"] == 1:
            if not (p and p != [-1] and p[-1] == t and hops_ok(p) and av.get(p[0], 0) > 0 and out["starter"] == [p[0]]
                    and (d in p)):
                fails.append({"sig": "bad-chain", "what": "request %r set up chain %r" % (q, p)})
        elif out["kind"] == 2:
            if out["queued"] != [[t, False]]:
                fails.append({"sig": "request-dropped", "what": "request %r neither served nor queued: %r" % (q, out)})
            if (av.get(d, 0) > 0 and d != t) or _upstream_available(case, d):
                fails.append({"sig": "queued-although-servable", "what": "request %r queued although a ball is available" % q})
        else:
            if d == t or _reach(case, d, t):
                fails.append({"sig": "request-refused", "what": "request %r raised although the target is reachable" % q})
    return fails


def shrink_route(case):
    g = case["g"]
    for i in range(len(g)):
        for j in range(len(g[i][1])):
            g2 = [[d, list(ts)] for d, ts in g]
            del g2[i][1][j]
            yield dict(case, g=g2)


def nontrivial_route(case, out):
    return out["kind"] == 2 or len(out["path"]) >= 3


# ------------------------------------------------------------------------------------------------
# (b) attempts
def gen_att(rng, tier, i):
    if rng.random() < 0.4:
        return bc.gen_case(rng, tier, i, profile=rng.choice(bc.TEMPLATES + ["double_kick", "cap2_mid_eject"]))
    c = bc.gen_case(rng, tier, i, profile=rng.choice(["faulty", "faulty", "busy"]))
    t = c["topo"]
    t["att_trough"] = rng.choice([0, 2, 3, 4])
    t["att_plunger"] = rng.choice([0, 2, 3, 4])
    t["att_lock"] = rng.choice([0, 2, 3])
    # runs of consecutive failures
    for d, key, to_pf in (("trough", "t_trough", False), ("plunger", "t_plunger", True), ("lock", "t_lock", True)):
        if rng.random() < 0.5:
            k = rng.choice([1, 2, 3, 4, 5])
            pos = rng.randrange(0, 3)
            kind = rng.choice(["stuck", "fallback", "mixed"])
            run = []
            for _ in range(k):
                kk = kind if kind != "mixed" else rng.choice(["stuck", "fallback"])
                run.append(["stuck"] if kk == "stuck" else ["fallback", 50, rng.choice([300, 900, t[key] + 400])])
            c["faults"][d][pos:pos] = run
    c["script"] = [a for a in c["script"] if a[1] != "request"]
    return c


def run_att(case):
    return bc.run_world(case)


def project(case, out):
    """per device: list of automaton events from the raw log"""
    devs = bc.device_table(case["topo"])
    start = next(i for i, it in enumerate(out["log"]) if it[0] == "T")
    ev = {d: [] for d in devs}
    cur = {d: "idle" for d in devs}
    for it in out["log"][start:]:
        if it[0] == "W" and it[1] in devs:
            d = it[1]
            if it[2] == "state" and it[3] != it[4]:
                ev[d].append(("S", bc.STATES.index(it[4])))
                cur[d] = it[4]
            elif it[2] == "count" and isinstance(it[3], int) and it[4] == it[3] - 1 and \
                    cur[d] in ("ball_left", "failed_confirm"):
                ev[d].append(("D",))
        elif it[0] == "P":
            for d in devs:
                pre = "balldevice_%s_" % d
                if it[1].startswith(pre):
                    suf, a = it[1][len(pre):], it[2]
                    if suf == "ball_eject_attempt":
                        ev[d].append(("A", int(a["num_attempts"])))
                    elif suf == "ejecting_ball":
                        ev[d].append(("E", int(a["num_attempts"])))
                    elif suf == "ball_eject_success":
                        ev[d].append(("OK",))
                    elif suf == "ball_eject_failed":
                        ev[d].append(("F", 1 if a["retry"] else 0, int(a["num_attempts"])))
                    elif suf == "broken":
                        ev[d].append(("B",))
    return devs, ev


def ev_term(e):
    k = e[0]
    if k == "S":
        return "AState %s" % zlit(e[1])
    if k == "D":
        return "ACountDec"
    if k == "A":
        return "AAttempt %s" % zlit(e[1])
    if k == "E":
        return "AEjecting %s" % zlit(e[1])
    if k == "OK":
        return "ASuccess"
    if k == "F":
        return "AFailed %s %s" % (zlit(e[1]), zlit(e[2]))
    return "ABroken"


def coq_att(case, out):
    if out.get("error") or out.get("sim_error"):
        return None
    devs, ev = project(case, out)
    inp = coqlist("(%s, %s)" % (zlit(devs[d]["att"]), coqlist(ev_term(e) for e in ev[d])) for d in devs)
    return "(%s, %s)" % (inp, coqlist("[-1]" for _ in devs))


def oracle_att(case, out):
    fails = []
    if out.get("sim_error"):
        return [{"sig": "simulator-bug", "what": out["sim_error"]}]
    if out.get("error"):
        return [{"sig": "mpf-exception", "what": "MPF raised: %s" % out["error"]}]
    devs, ev = project(case, out)
    for d in devs:
        mx = devs[d]["att"]
        fail_n = 0          # failures of the current eject
        last_fail_retry = None
        broken = False
        for e in ev[d]:
            if e[0] == "A":
                if e[1] != fail_n:
                    fails.append({"sig": "attempt-numbering", "what": "%s: attempt %d announced after %d failures" %
                                  (d, e[1], fail_n)})
                if mx and e[1] >= mx:
                    fails.append({"sig": "too-many-attempts", "what": "%s: attempt number %d with max_eject_attempts %d" %
                                  (d, e[1], mx)})
                if broken:
                    fails.append({"sig": "attempt-after-broken", "what": "%s attempts an eject after reporting broken" % d})
            elif e[0] == "F":
                if e[2] == fail_n + 1:
                    fail_n += 1         # attempt failed (timeout / ball came back)
                # e[2] == fail_n: ball lost report, the eject is over
                last_fail_retry = e[1]
                if mx and e[1] == 1 and e[2] >= mx and e[2] == fail_n:
                    pass
            elif e[0] == "OK":
                fail_n = 0
            elif e[0] == "D":
                fail_n = 0
            elif e[0] == "B":
                broken = True
                if last_fail_retry != 0:
                    fails.append({"sig": "broken-without-final-failed", "what": "%s reported broken without a final "
                                  "ball_eject_failed(retry=False)" % d})
                if not mx or fail_n < mx:
                    fails.append({"sig": "broken-too-early", "what": "%s broken after %d failures, max %d" % (d, fail_n, mx)})
        if mx and fail_n >= mx and not broken:
            fails.append({"sig": "exhausted-not-broken", "what": "%s failed %d times (max %d) but never reported broken" %
                          (d, fail_n, mx)})
    # quiescence: the world has been quiet for >= 120 s of virtual time or came to rest
    fin = out.get("final")
    if fin:
        snap, truth = fin["snap"], fin["truth"]
        if not truth["transit"]:
            for d, v in devs.items():
                st = snap[d][3]
                t = v["target"]
                if st in ("idle", "eject_broken"):
                    continue
                if st == "waiting_for_ball" and truth["dev"][d] == 0 and v["sources"]:
                    # nothing to eject: by design it waits for a ball from upstream -- unless every source sits idle
                    # with nothing queued although it could serve
                    lazy = all(snap[s_][3] == "idle" and fin["idle"][s_] and snap[s_][5] == 0 for s_ in v["sources"]) and \
                        any(snap[s_][2] > 0 and truth["dev"][s_] > 0 for s_ in v["sources"])
                    if not lazy:
                        continue
                if st == "waiting_for_target_ready" and t in devs and truth["dev"][t] >= devs[t]["cap"]:
                    continue        # target is full (e.g. it is broken with a ball inside)
                if st == "waiting_for_target_ready" and t in devs and any(
                        it[0] == "P" and it[1] in ("balldevice_%s_ball_missing" % s2, "balldevice_%s_ball_eject_failed" % s2)
                        for s2 in devs[t]["sources"] if s2 != d for it in out["log"]):
                    # another source's ball towards the same target fell back or was booked as lost: its incoming-ball
                    # entry was removed, but nobody wakes the sources waiting in wait_for_ready_to_receive
                    # (fixes/C05-wake-source-when-incoming-ball-removed.patch)
                    fails.append({"sig": "stuck-waiting-for-slot-of-lost-incoming-ball", "what": "%s waits for room in "
                                  "%s for ever although %s has room: the slot was promised to a ball of another source "
                                  "that was booked as lost" % (d, t, t)})
                    continue
                if st == "waiting_for_ball" and truth["dev"][d] == 0 and fin.get("spont_loss", {}).get(d):
                    # the ball left the idle device uncommanded and an eject was requested before MPF had booked the loss
                    # (idle_missing_ball_timeout): "Lost ball between ejects. Ignoring." -- the eject waits for ever
                    fails.append({"sig": "stuck-after-uncommanded-ball-loss", "what": "%s waits for a ball for ever: its "
                                  "ball left uncommanded shortly before the eject was requested; counted_balls=%d, "
                                  "physically empty" % (d, snap[d][0])})
                    continue
                fails.append({"sig": "stuck-device", "what": "world quiet but %s stays in state %s (holds %d balls; "
                              "target %s holds %s; sources %s)" %
                              (d, st, truth["dev"][d], t, truth["dev"].get(t, "-"), v["sources"])})
            # a queued request that could be served
            fails += bc.starved_requests(case, out)
    return fails


def gen_game(rng, tier, i):
    return bc.gen_case(rng, tier, i, profile="save_twice")


def oracle_game(case, out):
    """every ball the game counts as in play (ball start, multiball add, ball save) is physically delivered"""
    fails = oracle_att(case, out)
    fin = out.get("final")
    if out.get("error") or out.get("sim_error") or not fin or not fin.get("game"):
        return fails
    g, snap, truth = fin["game"], fin["snap"], fin["truth"]
    devs = bc.device_table(case["topo"])
    if g["running"] and not truth["transit"] and all(snap[d][3] != "eject_broken" for d in devs):
        physical = truth["loose"] + truth["dev"]["plunger"]
        if physical < g["balls_in_play"]:
            saves = sum(e[1] for e in g["events"] if e[0] == "ball_save_bs_saving_ball")
            fails.append({"sig": "ball-in-play-not-delivered", "what": "world quiet: game.balls_in_play=%d but only %d "
                          "balls are on the playfield / in the plunger (%d balls were saved by the ball save)" %
                          (g["balls_in_play"], physical, saves)})
        elif physical > g["balls_in_play"]:
            fails.append({"sig": "more-balls-than-in-play", "what": "world quiet: game.balls_in_play=%d but %d balls are "
                          "on the playfield / in the plunger" % (g["balls_in_play"], physical)})
    return fails


def nontrivial_game(case, out):
    fin = out.get("final") or {}
    g = fin.get("game") or {}
    return sum(1 for e in g.get("events", []) if e[0] == "ball_save_bs_saving_ball") >= 2


def nontrivial_att(case, out):
    return any(it[0] == "P" and it[1].endswith("_ball_eject_failed") for it in out.get("log", []))


def describe_att(case):
    t = case["topo"]
    return "%s max=%d/%d/%d lock=%d" % (case.get("profile"), t["att_trough"], t["att_plunger"], t["att_lock"],
                                        t.get("lock_k", 0))


HDR_ROUTE = "From C05 Require Import Model.\nDefinition run := route_run.\nDefinition out_eqb := route_out_eqb.\n"
HDR_ATT = ("From C05 Require Import Model.\nDefinition run (l : list (Z * list aev)) := map auto_run l.\n"
           "Definition out_eqb := list_eqb auto_out_eqb.\n"
           "Definition fstonly (l : list Z) := match l with x :: _ => [x] | [] => [] end.\n")
HDR_ATT = HDR_ATT.replace("map auto_run l", "map (fun i => match auto_run i with x :: _ => [x] | [] => [] end) l")

SUITES = [
    Suite("routing", gen_route, run_route, HDR_ROUTE, coq_route, oracle_route, shrink_route, nontrivial_route,
          {"quick": 3000, "thorough": 60000}, shard=500),
    Suite("attempts", gen_att, run_att, HDR_ATT, coq_att, oracle_att, bc.shrink_case, nontrivial_att,
          {"quick": 220, "thorough": 5000}, describe=describe_att, shard=40, case_timeout=120),
    Suite("game", gen_game, run_att, HDR_ATT, coq_att, oracle_game, bc.shrink_case, nontrivial_game,
          {"quick": 60, "thorough": 1500}, describe=describe_att, shard=30, case_timeout=120),
]
