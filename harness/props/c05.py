"""C05 — Ball requests make progress: no lost or stuck ejects.

(a) routing: find_path_to_target / find_one_available_ball / _setup_or_queue_eject_to_target of the real BallDevice
    class are run (unbound, on light stub devices) on generated device graphs and compared pointwise with the Coq
    functions; (a2) queues: sequences of requests / balls entering / ejects taken on the real request methods, compared
    with Requests.v; (b) the eject-attempt automaton must accept the per-device event sequence of simulated runs with
    fault sequences (same physical-world simulator as C04), the wait/waker model Waits.v must reproduce the state of
    every device's synchronisation objects at every quiescent tick, and an independent oracle checks retry numbering,
    the max_eject_attempts bound, broken reports and that every device is idle / broken / justifiably waiting once the
    world is quiet (a device in state idle that sits on a request counts as stuck); (c) game: ball_save / multiball as
    request sources; (d) idleloss: uncommanded ball loss at an idle device against IdleLoss.v.
"""
from collections import deque

from vlib import Suite, zlit, coqlist

from props import balls_common as bc

ID = "C05"
READY = True
RULE = ("routing: acyclic device graphs with 2-7 devices and 1-2 playfields, available_balls 0-2 per device, queries "
        "path / available ball / setup-or-queue for random (device, target) pairs; non-trivial = path of >= 3 hops "
        "or a queued request.  queues: the same graphs with 3-12 operations (request_ball / eject to a random target at a "
        "random device, a claimed ball entering a device, an eject taken off a queue) run on the real request methods with a "
        "FIFO queue for balldevice_balls_available; non-trivial = a chain was set up, an event was dispatched and something "
        "stays queued or >= 2 chains.  attempts: simulated machines as in C04 (two sources into one target, two-ball "
        "staging device, entrance-counted lock, double kick-outs, leaks, eject attempts held by a queue-event handler, an "
        "outhole with switch/event-confirmed late balls, a never-servable request queued in front of a servable one), plus "
        "C05-only templates: lost_confirmed (a switch/event-confirmed ball never reaches a 1-3 place staging device, or "
        "arrives within +-1.2 s of its ball_missing_timeout; requests and ejects to the playfield before and after the "
        "incoming-ball timeout) and hold_release (a real ball_hold over the lock releases one/all balls, runs of failed "
        "ejects, second release mid-eject, a ball jumping out before the release); fault-heavy profiles (k consecutive "
        "stuck ejects, balls falling back, confirmations after the timeout, lost and stray balls) and max_eject_attempts "
        "0/2/3/4; non-trivial = at least one failed attempt.  game: a real game (start button, ball start) with a "
        "ball_save (unlimited, eject_delay 0.8-2.5 s) and a multiball as request sources; two balls in play, two drains "
        "0.1 s .. eject_delay+0.6 s apart, stuck ejects; non-trivial = at least two balls saved.  idleloss: a lock without "
        "sources holding 1-2 balls; balls jump out uncommanded, ejects are requested 1.5-9 s later (inside / outside "
        "idle_missing_ball_timeout); non-trivial = an eject and a booked loss in one run")
TRUSTED_BASE = [
    "Coq 8.16.1 kernel (coqc), vm_compute for the correspondence; no native_compute",
    "axioms: none",
    "hand-written models coq/C05/Model.v (routing, attempt automaton), Waits.v (incoming-ball list, its events, lock and "
    "waiters), Requests.v (request deques / eject queues / ledger), Live.v (outcomes -> automaton trace), IdleLoss.v",
    "routing and queues tied pointwise to the real BallDevice methods bound to stub objects (config['eject_targets'], "
    "_source_devices, available_balls, _ball_requests, a recording outgoing handler, a FIFO event queue in device order)",
    "automaton, Waits.v and IdleLoss.v tied by replaying recorded real runs: class-level hooks of harness/props/"
    "balls_common.py (attribute writes, event posts, a logging list in place of IncomingBallsHandler._incoming_balls, wrappers "
    "of remove_incoming_ball / wait_for_ball_count_changed / incoming_balls_changed / start_eject / end_eject / "
    "_external_confirm) and the values of asyncio.Event/Lock objects read at quiescent ticks",
    "the physical-world simulator of harness/props/balls_common.py",
]
ASSUMPTIONS = [
    "device graphs are acyclic (find_path_to_target has no visited set and recurses forever on a cycle that does not "
    "contain the target; real machine configs are validated to have a path); completeness of the searches is proved for "
    "simple chains / routes within the search depth (fuel = number of devices + 1)",
    "coil ejectors, confirm_eject_type target / switch / event; player-controlled / mechanical ejects (unbounded wait by "
    "design) are not generated",
    "liveness (Live.v) is proved under fairness hypotheses on the world: every attempt gets an outcome; without a retry "
    "limit the world eventually lets a ball through or loses it.  The simulator satisfies them per run (every fired ball "
    "arrives, strays or is booked lost before the run is judged; held queue events are released); that asyncio delivers "
    "the timeouts is validated, not proved",
    "Waits.v treats one call plus everything IncomingBallsHandler._run does until it blocks again as one step "
    "(single-threaded loop); which of the two wake-up sites the tree has for timed-out balls is read off each run "
    "(the patch fixes/C05-wake-source-when-incoming-ball-times-out.patch is pending)",
    "IdleLoss.v: an eject with a ball in the device is atomic; a leak while an eject is pending is outside the model "
    "(excluded cases are counted)",
]
DESIGN_REF = "DESIGN.md section 3, C05"
TECHNIQUE = ("Coq proofs over hand-written models (routing functions, attempt automaton, wait/waker state machine of a "
             "target device, request/eject queue system, outcome-driven progress, idle ball loss) + pointwise differential "
             "tests of the real routing / request methods + replay of recorded real runs on the models (vm_compute) + "
             "direct progress oracle")
LEVEL_TEXT = ("Machine-checked proof (Coq), all inputs / histories: routing returns only valid chains, finds an available "
              "ball or a route whenever one exists within the search depth, and a request is served, queued (then nothing "
              "upstream is available) or refused (then no route) - never dropped, under any sequence of requests, balls "
              "entering and balls_available dispatches, with no ball promised twice and deques / eject queues served oldest "
              "first; attempts are numbered and with max_eject_attempts = m > 0 an eject is over after at most m attempts and "
              "eject_broken comes after exactly m (m = 0: retries for ever, finishes as soon as the world lets a ball "
              "through); under a fair world every queued eject is finished in order or the device reports itself broken; in "
              "the patched code every blocked coroutine of a target device (sources waiting for room, the own eject waiting "
              "for 'no incoming balls', the incoming-balls task) waits only while something that resolves it is still "
              "pending, and is released once the incoming balls are resolved.  The same statement is refuted, with "
              "executable witnesses that replay on the code, for /repo HEAD (a confirmed incoming ball times out: known "
              "finding + proposed fix), for the code before 5520da9, for an eject requested while an uncommanded ball loss "
              "is being booked (known finding) and for 'the oldest request is served when possible' (known finding).  "
              "Routing/request methods are compared pointwise with the real methods; that the real coroutines follow the "
              "automaton, the wait model and the idle-loss model is validated on recorded simulated runs at every quiescent "
              "tick; asyncio timing is validated, not proved.")
LEVEL_NOTE = ("Proved: routing soundness+completeness, request accounting / ledger / FIFO, automaton bounds (exact), "
              "outcome-driven liveness under stated fairness, wait/waker invariant of the patched code, refutations for the "
              "four defective behaviours.  Validated only: that the coroutines follow the models (sampled runs, every "
              "quiescent tick), delivery of timeouts by the event loop, physical delivery (oracle: quiescence, balls in "
              "play delivered, no stuck device, no device sitting on a request in state idle).")


# ------------------------------------------------------------------------------------------------
# (a) routing
def gen_route(rng, tier, i):
    n = rng.choice([2, 3, 3, 4, 5, 6, 7])
    npf = rng.choice([1, 1, 2])
    g = []
    for d in range(n):
        ts = []
        later = list(range(d + 1, n))
        rng.shuffle(later)
        for t in later[:rng.choice([0, 1, 1, 2, 3])]:
            ts.append(t)
        for p in range(npf):
            if rng.random() < (0.5 if d < n - 1 else 0.9):
                ts.insert(rng.randrange(len(ts) + 1), 100 + p)
        g.append([d, ts])
    # devices are listed in a random order (machine.ball_devices order decides the order of _source_devices)
    order = list(range(n))
    if rng.random() < 0.5:
        rng.shuffle(order)
    g = [g[k] for k in order]
    avail = [[d, rng.choice([0, 0, 0, 1, 2])] for d in range(n)]
    kind = rng.choice(["path", "avail", "setup", "setup"])
    d = rng.randrange(n)
    if kind == "path":
        q = ["path", d, rng.choice(list(range(n)) + [100 + p for p in range(npf)])]
    elif kind == "avail":
        q = ["avail", d]
    else:
        q = ["setup", d, rng.choice([d] + list(range(n)) + [100 + p for p in range(npf)] * 2)]
    return {"g": g, "avail": avail, "q": q, "npf": npf}


def _stubs(case):
    from mpf.devices.ball_device.ball_device import BallDevice

    class Pf:
        def __init__(self, name):
            self.name = name
            self.available_balls = 0

        @staticmethod
        def is_playfield():
            return True

        def __repr__(self):
            return "<pf %s>" % self.name

    class Stub:
        find_path_to_target = BallDevice.find_path_to_target
        find_one_available_ball = BallDevice.find_one_available_ball
        _setup_or_queue_eject_to_target = BallDevice._setup_or_queue_eject_to_target

        def __init__(self, name):
            self.name = name
            self.config = {"eject_targets": []}
            self._source_devices = []
            self._ball_requests = deque()
            self.available_balls = 0
            self.chains = []

        @staticmethod
        def is_playfield():
            return False

        def setup_eject_chain(self, path, player_controlled=False):
            self.chains.append([p.name for p in path])

        def __repr__(self):
            return "<dev %s>" % self.name

    objs = {}
    for d, _ in case["g"]:
        objs[d] = Stub(d)
    for p in range(case["npf"]):
        objs[100 + p] = Pf(100 + p)
    for d, ts in case["g"]:
        objs[d].config["eject_targets"] = [objs[t] for t in ts]
    # _configure_targets: sources in machine.ball_devices order
    for d, _ in case["g"]:
        for s, ts in case["g"]:
            if d in ts:
                objs[d]._source_devices.append(objs[s])
    for d, a in case["avail"]:
        objs[d].available_balls = a
    return objs


def run_route(case):
    objs = _stubs(case)
    q = case["q"]
    if q[0] == "path":
        r = objs[q[1]].find_path_to_target(objs[q[2]])
        return {"kind": 1, "path": [p.name for p in r]} if r else {"kind": 0, "path": []}
    if q[0] == "avail":
        r = objs[q[1]].find_one_available_ball()
        return {"kind": 1, "path": [p.name for p in r]} if r else {"kind": 0, "path": []}
    d = objs[q[1]]
    try:
        ok = d._setup_or_queue_eject_to_target(objs[q[2]])
    except AssertionError:
        return {"kind": 0, "path": []}
    if ok:
        chains = [c for o in objs.values() if hasattr(o, "chains") for c in o.chains]
        return {"kind": 1, "path": chains[0] if len(chains) == 1 else [-1], "starter":
                [o.name for o in objs.values() if hasattr(o, "chains") and o.chains]}
    return {"kind": 2, "path": [], "queued": [[t.name, pc] for t, pc in d._ball_requests]}


def zl(xs):
    return "[" + ";".join(zlit(x) for x in xs) + "]"


def coq_route(case, out):
    g = coqlist("(%s,%s)" % (zlit(d), zl(ts)) for d, ts in case["g"])
    av = coqlist("(%s,%s)" % (zlit(d), zlit(a)) for d, a in case["avail"])
    q = case["q"]
    qt = "QPath %s %s" % (zlit(q[1]), zlit(q[2])) if q[0] == "path" else "QAvail %s" % zlit(q[1]) if q[0] == "avail" \
        else "QSetup %s %s" % (zlit(q[1]), zlit(q[2]))
    return "((%s, %s, %s), (%s, %s))" % (g, av, qt, zlit(out["kind"]), zl(out["path"]))


def _edges(case):
    return {d: ts for d, ts in case["g"]}


def _reach(case, d, target):
    """is there a route d -> target whose intermediate hops are devices (the property's own notion)"""
    e = _edges(case)
    seen, todo = set(), [d]
    while todo:
        x = todo.pop()
        if x in seen:
            continue
        seen.add(x)
        for t in e.get(x, []):
            if t == target:
                return True
            if t < 100:
                todo.append(t)
    return False


def _upstream_available(case, d):
    e = _edges(case)
    av = dict(map(tuple, case["avail"]))
    seen, todo = {d}, [d]
    while todo:
        x = todo.pop()
        for s, ts in e.items():
            if x in ts and s not in seen:
                if av.get(s, 0) > 0:
                    return True
                seen.add(s)
                todo.append(s)
    return False


def oracle_route(case, out):
    fails = []
    e = _edges(case)
    av = dict(map(tuple, case["avail"]))
    q = case["q"]
    p = out["path"]

    def hops_ok(path):
        return all(path[i + 1] in e.get(path[i], []) for i in range(len(path) - 1))
    if q[0] == "path":
        if out["kind"] == 1:
            if not (p[0] == q[1] and p[-1] == q[2] and hops_ok(p) and len(p) >= 2):
                fails.append({"sig": "bad-path", "what": "find_path_to_target returned %r for %r" % (p, q)})
        elif _reach(case, q[1], q[2]):
            fails.append({"sig": "path-not-found", "what": "target reachable but find_path_to_target found none: %r" % q})
    elif q[0] == "avail":
        if out["kind"] == 1:
            if not (p[-1] == q[1] and len(p) >= 2 and av.get(p[0], 0) > 0 and hops_ok(p)):
                fails.append({"sig": "bad-available-path", "what": "find_one_available_ball returned %r for %r" % (p, q)})
        elif _upstream_available(case, q[1]):
            fails.append({"sig": "available-ball-not-found", "what": "a source upstream has a ball but none found: %r" % q})
    else:
        d, t = q[1], q[2]
        if out["kind"] == 1:
            if not (p and p != [-1] and p[-1] == t and hops_ok(p) and av.get(p[0], 0) > 0 and out["starter"] == [p[0]]
                    and (d in p)):
                fails.append({"sig": "bad-chain", "what": "request %r set up chain %r" % (q, p)})
        elif out["kind"] == 2:
            if out["queued"] != [[t, False]]:
                fails.append({"sig": "request-dropped", "what": "request %r neither served nor queued: %r" % (q, out)})
            if (av.get(d, 0) > 0 and d != t) or _upstream_available(case, d):
                fails.append({"sig": "queued-although-servable", "what": "request %r queued although a ball is available" % q})
        else:
            if d == t or _reach(case, d, t):
                fails.append({"sig": "request-refused", "what": "request %r raised although the target is reachable" % q})
    return fails


def shrink_route(case):
    g = case["g"]
    for i in range(len(g)):
        for j in range(len(g[i][1])):
            g2 = [[d, list(ts)] for d, ts in g]
            del g2[i][1][j]
            yield dict(case, g=g2)


def nontrivial_route(case, out):
    return out["kind"] == 2 or len(out["path"]) >= 3


# ------------------------------------------------------------------------------------------------
# (a2) request / eject queues: sequences of requests, claimed balls entering and ejects being taken, on the real
# methods (stub devices as above, but with the real setup_eject_chain / setup_eject_chain_next_hop /
# _source_device_balls_available / _balls_added_callback and a FIFO event queue for balldevice_balls_available)
def gen_queue(rng, tier, i):
    c = gen_route(rng, tier, i)
    n = len(c["g"])
    nodes = [d for d, _ in c["g"]]
    pfs = [100 + p for p in range(c["npf"])]
    ops = []
    for _ in range(rng.choice([3, 5, 8, 12])):
        r = rng.random()
        d = rng.choice(nodes)
        if r < 0.55:
            ops.append(["req", d, rng.choice([d, d] + nodes + pfs * 3)])
        elif r < 0.8:
            ops.append(["ball", d])
        else:
            ops.append(["pop", d])
    c["avail"] = [[d, rng.choice([0, 0, 0, 0, 1])] for d in range(n)]
    c["ops"] = ops
    del c["q"]
    return c


def run_queue(case):
    from collections import deque as dq
    from mpf.devices.ball_device.ball_device import BallDevice
    pending = []
    chains = []

    class Ev:
        @staticmethod
        def post_boolean(name, **kw):
            if name == "balldevice_balls_available":
                pending.append(name)

        @staticmethod
        def post(name, **kw):
            pass

    class Machine:
        events = Ev()

    class Pf:
        def __init__(self, name):
            self.name = name
            self.available_balls = 0

        @staticmethod
        def is_playfield():
            return True

    class OH:
        def __init__(self):
            self.q = []

        def add_eject_to_queue(self, eject):
            self.q.append(eject.target.name)

    class Dev:
        find_path_to_target = BallDevice.find_path_to_target
        find_one_available_ball = BallDevice.find_one_available_ball
        _setup_or_queue_eject_to_target = BallDevice._setup_or_queue_eject_to_target
        setup_eject_chain_next_hop = BallDevice.setup_eject_chain_next_hop
        _source_device_balls_available = BallDevice._source_device_balls_available
        _balls_added_callback = BallDevice._balls_added_callback
        _real_chain = BallDevice.setup_eject_chain
        machine = Machine()
        tags = []

        def __init__(self, name):
            self.name = name
            self.config = {"eject_targets": [], "eject_timeouts": {}, "max_eject_attempts": 0}
            self._source_devices = []
            self._ball_requests = dq()
            self.available_balls = 0
            self.outgoing_balls_handler = OH()

        def setup_eject_chain(self, path, player_controlled=False):
            chains.append([p.name for p in path])
            return self._real_chain(path, player_controlled)

        @staticmethod
        def is_playfield():
            return False

        def debug_log(self, *a, **kw):
            pass

        info_log = warning_log = debug_log

    objs = {}
    for d, _ in case["g"]:
        objs[d] = Dev(d)
    for p in range(case["npf"]):
        objs[100 + p] = Pf(100 + p)
    for d, ts in case["g"]:
        objs[d].config["eject_targets"] = [objs[t] for t in ts]
        objs[d].config["eject_timeouts"] = {objs[t]: 1000 for t in ts}
    for d, _ in case["g"]:
        for s_, ts in case["g"]:
            if d in ts:
                objs[d]._source_devices.append(objs[s_])
    for d, a in case["avail"]:
        objs[d].available_balls = a
    order = [objs[d] for d, _ in case["g"]]
    trace = []
    refused = 0
    issued = 0
    errors = []

    def drain():
        n = 0
        while pending and n < 200:
            pending.pop(0)
            n += 1
            trace.append(["dispatch"])
            for dev in order:
                # post_boolean: a handler that returns False ends the event (the real method returns None)
                if dev._source_device_balls_available() is False:
                    break

    for op in case["ops"]:
        try:
            if op[0] == "req":
                issued += 1
                trace.append(op)
                try:
                    objs[op[1]]._setup_or_queue_eject_to_target(objs[op[2]])
                except AssertionError as e:
                    if "Do not know how to eject" not in str(e):
                        raise
                    refused += 1
            elif op[0] == "ball":
                trace.append(op)
                objs[op[1]]._balls_added_callback(1, 0)
            else:
                trace.append(op)
                q = objs[op[1]].outgoing_balls_handler.q
                if q:
                    q.pop(0)
            drain()
        except Exception as e:      # what the real methods raise is data
            errors.append("%s: %s" % (type(e).__name__, str(e)[:200]))
            break
    return {"trace": trace, "dev": [[objs[d].available_balls] + list(objs[d].outgoing_balls_handler.q) for d, _ in case["g"]],
            "reqs": [[t.name for t, _pc in objs[d]._ball_requests] for d, _ in case["g"]],
            "pf": [objs[100 + p].available_balls for p in range(case["npf"])],
            "counts": [len(pending), len(chains), refused], "issued": issued, "chains": chains, "errors": errors}


def coq_queue(case, out):
    if out["errors"]:
        return None
    g = coqlist("(%s,%s)" % (zlit(d), zl(ts)) for d, ts in case["g"])
    av = coqlist("(%s,%s)" % (zlit(d), zlit(a)) for d, a in case["avail"])
    ops = []
    for t in out["trace"]:
        ops.append("QRequest %s %s" % (zlit(t[1]), zlit(t[2])) if t[0] == "req" else "QBallAdded %s" % zlit(t[1])
                   if t[0] == "ball" else "QPop %s" % zlit(t[1]) if t[0] == "pop" else "QDispatch")
    exp = [zl(x) for x in out["dev"]] + [zl(x) for x in out["reqs"]] + [zl(out["pf"]), zl(out["counts"])]
    return "((%s, %s, %s, %s), %s)" % (g, av, zl([100 + p for p in range(case["npf"])]), coqlist(ops), coqlist(exp))


def oracle_queue(case, out):
    fails = []
    if out["errors"]:
        return [{"sig": "queue-exception", "what": "request handling raised: %s" % out["errors"][0]}]
    queued = sum(len(r) for r in out["reqs"])
    if out["issued"] != out["counts"][1] + out["counts"][2] + queued:
        fails.append({"sig": "request-dropped", "what": "%d requests issued but %d chains set up + %d refused + %d queued" %
                      (out["issued"], out["counts"][1], out["counts"][2], queued)})
    if any(d[0] < 0 for d in out["dev"]) or any(a < 0 for a in out["pf"]):
        fails.append({"sig": "ball-promised-twice", "what": "available_balls negative: %r %r" % (out["dev"], out["pf"])})
    e = _edges(case)
    for ch in out["chains"]:
        if not all(ch[i + 1] in e.get(ch[i], []) for i in range(len(ch) - 1)):
            fails.append({"sig": "bad-chain", "what": "chain %r does not follow eject targets" % ch})
            break
    # eject queues are FIFO: what is left at a device is a suffix of what the chains queued there, in chain order
    for (d, _), row in zip(case["g"], out["dev"]):
        want = [ch[i + 1] for ch in out["chains"] for i in range(len(ch) - 1) if ch[i] == d]
        q = row[1:]
        if q != want[len(want) - len(q):] if q else False:
            fails.append({"sig": "eject-queue-order", "what": "device %r: queue %r is not a suffix of %r" % (d, q, want)})
            break
    # quiescent (no event pending): the oldest request of a device must not be servable
    if out["counts"][0] == 0:
        av = {d: row[0] for (d, _), row in zip(case["g"], out["dev"])}
        c2 = dict(case, avail=[[d, a] for d, a in av.items()])
        for (d, _), reqs in zip(case["g"], out["reqs"]):
            if reqs and av[d] > 0 and reqs[0] != d and not _upstream_available(c2, d) and \
                    sum(1 for t in reqs if t == d) >= 1:
                # exactly the recorded behaviour: every ball gives the deque two tries (one in _balls_added_callback,
                # one for the balldevice_balls_available it posts), each takes the head only and puts an unservable
                # request_ball (target = the device itself, needs a ball UPSTREAM) back at the end
                fails.append({"sig": "request-starves-behind-self-requests", "what": "device %r holds an available ball "
                              "and its oldest request (target %r) could use it, but request_ball()s of the device "
                              "itself were tried instead and no further event is pending: %r" % (d, reqs[0], reqs)})
                break
            if reqs and ((av[d] > 0 and reqs[0] != d) or _upstream_available(c2, d)):
                fails.append({"sig": "servable-request-queued", "what": "no event pending but the oldest request of "
                              "device %r (target %r) is still queued although a ball is available (own %d)" %
                              (d, reqs[0], av[d])})
                break
    return fails


def shrink_queue(case):
    ops = case["ops"]
    for i in range(len(ops)):
        yield dict(case, ops=ops[:i] + ops[i + 1:])


def nontrivial_queue(case, out):
    return out["counts"][1] >= 1 and any(t[0] == "dispatch" for t in out["trace"]) and \
        (sum(len(r) for r in out["reqs"]) > 0 or out["counts"][1] >= 2)


# ------------------------------------------------------------------------------------------------
# (b) attempts
def gen_att(rng, tier, i):
    r = rng.random()
    if r < 0.2:
        return bc.gen_case(rng, tier, i, profile=rng.choice(bc.C05_TEMPLATES + ["lost_confirmed"]))
    if r < 0.5:
        return bc.gen_case(rng, tier, i, profile=rng.choice(bc.TEMPLATES + ["double_kick", "cap2_mid_eject"]))
    c = bc.gen_case(rng, tier, i, profile=rng.choice(["faulty", "faulty", "busy"]))
    t = c["topo"]
    t["att_trough"] = rng.choice([0, 2, 3, 4])
    t["att_plunger"] = rng.choice([0, 2, 3, 4])
    t["att_lock"] = rng.choice([0, 2, 3])
    # runs of consecutive failures
    for d, key, to_pf in (("trough", "t_trough", False), ("plunger", "t_plunger", True), ("lock", "t_lock", True)):
        if rng.random() < 0.5:
            k = rng.choice([1, 2, 3, 4, 5])
            pos = rng.randrange(0, 3)
            kind = rng.choice(["stuck", "fallback", "mixed"])
            run = []
            for _ in range(k):
                kk = kind if kind != "mixed" else rng.choice(["stuck", "fallback"])
                run.append(["stuck"] if kk == "stuck" else ["fallback", 50, rng.choice([300, 900, t[key] + 400])])
            c["faults"][d][pos:pos] = run
    c["script"] = [a for a in c["script"] if a[1] != "request"]
    return c


def run_att(case):
    return bc.run_world(case)


def project(case, out):
    """per device: list of automaton events from the raw log"""
    devs = bc.device_table(case["topo"])
    start = next(i for i, it in enumerate(out["log"]) if it[0] == "T")
    ev = {d: [] for d in devs}
    cur = {d: "idle" for d in devs}
    for it in out["log"][start:]:
        if it[0] == "W" and it[1] in devs:
            d = it[1]
            if it[2] == "state" and it[3] != it[4]:
                ev[d].append(("S", bc.STATES.index(it[4])))
                cur[d] = it[4]
            elif it[2] == "count" and isinstance(it[3], int) and it[4] == it[3] - 1 and \
                    cur[d] in ("ball_left", "failed_confirm"):
                ev[d].append(("D",))
        elif it[0] == "P":
            for d in devs:
                pre = "balldevice_%s_" % d
                if it[1].startswith(pre):
                    suf, a = it[1][len(pre):], it[2]
                    if suf == "ball_eject_attempt":
                        ev[d].append(("A", int(a["num_attempts"])))
                    elif suf == "ejecting_ball":
                        ev[d].append(("E", int(a["num_attempts"])))
                    elif suf == "ball_eject_success":
                        ev[d].append(("OK",))
                    elif suf == "ball_eject_failed":
                        ev[d].append(("F", 1 if a["retry"] else 0, int(a["num_attempts"])))
                    elif suf == "broken":
                        ev[d].append(("B",))
    return devs, ev


def ev_term(e):
    k = e[0]
    if k == "S":
        return "AState %s" % zlit(e[1])
    if k == "D":
        return "ACountDec"
    if k == "A":
        return "AAttempt %s" % zlit(e[1])
    if k == "E":
        return "AEjecting %s" % zlit(e[1])
    if k == "OK":
        return "ASuccess"
    if k == "F":
        return "AFailed %s %s" % (zlit(e[1]), zlit(e[2]))
    return "ABroken"


def wait_items(case, out):
    """per device (as a target): the recorded calls on its IncomingBallsHandler / BallCountHandler in program order,
    interleaved with what its synchronisation objects showed at every quiescent point (coq/C05/Waits.v).  Returns
    {dev: (wake_on_timeout observed, capacity, initial count, [items])} or None when the tree does not expose them."""
    devs = bc.device_table(case["topo"])
    log = out["log"]
    start = next(i for i, it in enumerate(log) if it[0] == "T")
    if len(log[start]) < 6 or any(log[start][5].get(d) is None for d in devs):
        return None
    res = {}
    for d in devs:
        items, idmap, lost, pending_ir = [], {}, 0, set()
        wot = 1
        batch_open = False      # timed-out balls were taken off the list, their first report has not been seen yet
        batch_woken = False
        for it in log[start:]:
            k = it[0]
            if k == "T":
                w = it[5][d]
                items.append("IObs %s %s %s %s" % (zlit(w[0]), zlit(w[1]), zlit(w[2]), zlit(lost)))
                continue
            if k == "W" and it[1] == d and it[2] == "count" and isinstance(it[4], int):
                items.append("IOp (WCount %s)" % zlit(it[4]))
                continue
            if k not in bc.WAIT_ITEMS and k != "L":
                continue
            if it[1] != d:
                continue
            if k == "IB+":
                idmap[it[2]] = len(idmap)
                items.append("IOp WAdd")
            elif k == "XC":
                items.append("IOp (WConfirm %s)" % zlit(idmap.get(it[2], -1)))
            elif k == "IR":
                pending_ir.add(it[2])
            elif k == "IB-":
                if it[2] in pending_ir:
                    pending_ir.discard(it[2])
                    items.append("IOp (WRemove %s)" % zlit(idmap.get(it[2], -1)))
                else:
                    items.append("IOp (WFire %s)" % zlit(idmap.get(it[2], -1)))
                    batch_open, batch_woken = True, False
            elif k == "ICH":
                if batch_open:
                    batch_woken = True
            elif k == "L":
                lost += 1
                if batch_open:
                    if not batch_woken:
                        wot = 0
                    batch_open = False
            elif k == "CW":
                items.append("IOp WSrcWait")
            elif k == "OW":
                items.append("IOp WOutWait")
            elif k == "LK+":
                items.append("IOp WLock")
            elif k == "LK-":
                items.append("IOp WUnlock")
        # advance_time_and_run stops the loop as soon as its sleep is over: callbacks made ready in that last iteration
        # (e.g. _run woken by a cancelled timeout future) have not run yet, so a tick is not always quiescent.  An
        # observation is compared only when it is confirmed by an identical next observation, or is the last one of the
        # run (>= 3 s of rest or 120 s after the last action); a lasting wrong value is therefore always seen
        keep = []
        for j, x in enumerate(items):
            if x.startswith("IObs") and j + 1 < len(items) and items[j + 1] != x:
                continue
            keep.append(x)
        res[d] = (wot, devs[d]["cap"], log[start][1][d][0], keep)
    return res


def coq_att(case, out):
    if out.get("error") or out.get("sim_error"):
        return None
    devs, ev = project(case, out)
    inp = coqlist("(%s, %s)" % (zlit(devs[d]["att"]), coqlist(ev_term(e) for e in ev[d])) for d in devs)
    wi = wait_items(case, out)
    if wi is None:
        raise ValueError("the wait state of the ball devices (IncomingBallsHandler._has_no_incoming_balls, "
                         "_incoming_balls, BallCountHandler._ball_count_changed_futures) is not observable")
    # wake_on_remove is what /repo has since 5520da9; wake_on_timeout is read off the run (the proposed patch
    # fixes/C05-wake-source-when-incoming-ball-times-out.patch adds it): both codes are modelled, Props.v proves the
    # waker theorem for the patched one and refutes it for the unpatched one
    winp = coqlist("((1, %s), %s, %s, %s)" % (zlit(w[0]), zlit(w[1]), zlit(w[2]), coqlist(w[3])) for w in wi.values())
    return "((%s, %s), (%s, %s))" % (inp, winp, coqlist("[-1]" for _ in devs), coqlist("-1" for _ in devs))


def oracle_att(case, out):
    fails = []
    if out.get("sim_error"):
        return [{"sig": "simulator-bug", "what": out["sim_error"]}]
    if out.get("error"):
        return [{"sig": "mpf-exception", "what": "MPF raised: %s" % out["error"]}]
    devs, ev = project(case, out)
    for d in devs:
        mx = devs[d]["att"]
        fail_n = 0          # failures of the current eject
        last_fail_retry = None
        broken = False
        for e in ev[d]:
            if e[0] == "A":
                if e[1] != fail_n:
                    fails.append({"sig": "attempt-numbering", "what": "%s: attempt %d announced after %d failures" %
                                  (d, e[1], fail_n)})
                if mx and e[1] >= mx:
                    fails.append({"sig": "too-many-attempts", "what": "%s: attempt number %d with max_eject_attempts %d" %
                                  (d, e[1], mx)})
                if broken:
                    fails.append({"sig": "attempt-after-broken", "what": "%s attempts an eject after reporting broken" % d})
            elif e[0] == "F":
                if e[2] == fail_n + 1:
                    fail_n += 1         # attempt failed (timeout / ball came back)
                # e[2] == fail_n: ball lost report, the eject is over
                last_fail_retry = e[1]
                if mx and e[1] == 1 and e[2] >= mx and e[2] == fail_n:
                    pass
            elif e[0] == "OK":
                fail_n = 0
            elif e[0] == "D":
                fail_n = 0
            elif e[0] == "B":
                broken = True
                if last_fail_retry != 0:
                    fails.append({"sig": "broken-without-final-failed", "what": "%s reported broken without a final "
                                  "ball_eject_failed(retry=False)" % d})
                if not mx or fail_n < mx:
                    fails.append({"sig": "broken-too-early", "what": "%s broken after %d failures, max %d" % (d, fail_n, mx)})
        if mx and fail_n >= mx and not broken:
            fails.append({"sig": "exhausted-not-broken", "what": "%s failed %d times (max %d) but never reported broken" %
                          (d, fail_n, mx)})
    # quiescence: the world has been quiet for >= 120 s of virtual time or came to rest
    fin = out.get("final")
    if fin:
        snap, truth = fin["snap"], fin["truth"]
        if not truth["transit"]:
            for d, v in devs.items():
                st = snap[d][3]
                t = v["target"]
                if st == "idle" and not fin["idle"][d] and _held_since(out, d, fin) >= 20000000:
                    # the outgoing handler has taken (or holds) an eject request but never announces any state: it is
                    # blocked before "waiting_for_ball"/"waiting_for_target_ready" (count validation, the wait for "no
                    # incoming balls" in front of an eject to a playfield) although the world is quiet
                    w = (fin.get("waits") or {}).get(d)
                    fails.append({"sig": "stuck-before-eject", "what": "world quiet for %.0f s but %s (state idle, holds %d "
                                  "balls, %d incoming) sits on an eject request to %s without starting it%s" %
                                  ((fin["t"] - fin["last_phys"]) / 1e6, d, truth["dev"][d], snap[d][4], t,
                                   "" if not w else "; its no-incoming-balls event is %s" % ("set" if w[0] else "CLEAR"))})
                    continue
                if st in ("idle", "eject_broken"):
                    continue
                if st == "waiting_for_ball" and truth["dev"][d] == 0 and v["sources"]:
                    # nothing to eject: by design it waits for a ball from upstream -- unless every source sits idle
                    # with nothing queued although it could serve
                    lazy = all(snap[s_][3] == "idle" and fin["idle"][s_] and snap[s_][5] == 0 for s_ in v["sources"]) and \
                        any(snap[s_][2] > 0 and truth["dev"][s_] > 0 for s_ in v["sources"])
                    if not lazy:
                        continue
                if st == "waiting_for_target_ready" and t in devs and truth["dev"][t] >= devs[t]["cap"]:
                    continue        # target is full (e.g. it is broken with a ball inside)
                if st == "waiting_for_target_ready" and t in devs and any(
                        it[0] == "P" and it[1] in ("balldevice_%s_ball_missing" % s2, "balldevice_%s_ball_eject_failed" % s2)
                        for s2 in devs[t]["sources"] if s2 != d for it in out["log"]):
                    # another source's ball towards the same target fell back or was booked as lost: its incoming-ball
                    # entry was removed, but nobody wakes the sources waiting in wait_for_ready_to_receive
                    # (fixes/C05-wake-source-when-incoming-ball-removed.patch)
                    fails.append({"sig": "stuck-waiting-for-slot-of-lost-incoming-ball", "what": "%s waits for room in "
                                  "%s for ever although %s has room: the slot was promised to a ball of another source "
                                  "that was booked as lost" % (d, t, t)})
                    continue
                if st == "waiting_for_target_ready" and t in devs and _slot_timed_out(out, d, t, fin, devs):
                    # fixes/C05-wake-source-when-incoming-ball-times-out.patch: the slot was promised to a ball that was
                    # confirmed by a confirm switch / event and timed out at the target; _run removes it without waking
                    fails.append({"sig": "stuck-waiting-for-slot-of-timed-out-incoming-ball", "what": "%s waits for room in "
                                  "%s for ever although %s has room (holds %d of %d, 0 incoming): the slot was promised to a "
                                  "confirmed ball whose incoming-ball entry timed out" %
                                  (d, t, t, truth["dev"][t], devs[t]["cap"])})
                    continue
                if st == "waiting_for_ball" and truth["dev"][d] == 0 and _dangling_after_failed_restore(out, d):
                    # lost_incoming_ball ran between two queued ejects of <d>: nothing to cancel (cancel_path_if_target_is:
                    # "TODO: check queue entries"), no available ball to re-request: "Failed to restore the path"; the eject
                    # that was queued for the lost ball is started afterwards and waits for a ball for ever
                    fails.append({"sig": "dangling-eject-after-failed-path-restore", "what": "%s waits for a ball for ever: "
                                  "an incoming ball timed out while %s was between two queued ejects, the path could "
                                  "neither be cancelled nor restored, and the eject queued for the lost ball was started "
                                  "afterwards" % (d, d)})
                    continue
                if st == "waiting_for_ball" and truth["dev"][d] == 0 and fin.get("spont_loss", {}).get(d) and \
                        _in_loss_window(out, d):
                    # the ball left the idle device uncommanded and an eject was requested before MPF had booked the loss
                    # (idle_missing_ball_timeout): "Lost ball between ejects. Ignoring." -- the eject waits for ever
                    fails.append({"sig": "stuck-after-uncommanded-ball-loss", "what": "%s waits for a ball for ever: its "
                                  "ball left uncommanded shortly before the eject was requested; counted_balls=%d, "
                                  "physically empty" % (d, snap[d][0])})
                    continue
                fails.append({"sig": "stuck-device", "what": "world quiet but %s stays in state %s (holds %d balls; "
                              "target %s holds %s; sources %s)" %
                              (d, st, truth["dev"][d], t, truth["dev"].get(t, "-"), v["sources"])})
            # a queued request that could be served
            fails += bc.starved_requests(case, out)
    return fails


def _held_since(out, d, fin):
    """for how long (us) <d> has been in state idle with a non-idle outgoing handler, up to the end of the run"""
    since = None
    for it in out["log"]:
        if it[0] == "T" and len(it) > 5 and it[5] and it[5].get(d):
            busy = it[1][d][3] == "idle" and not it[5][d][3]
            if busy and since is None:
                since = it[4]
            elif not busy:
                since = None
    return 0 if since is None else fin.get("t", since) - since


def _dangling_after_failed_restore(out, d):
    """exactly the recorded defect: the LAST lost_incoming_ball of <d> found no cancellable eject (the device was not in
    waiting_for_ball), no available ball, and at least one eject still queued; <d> went to waiting_for_ball afterwards and
    no ball has entered it since"""
    log = out["log"]
    idx = [i for i, it in enumerate(log) if it[0] == "L" and it[1] == d and len(it) >= 8]
    if not idx:
        return False
    it = log[idx[-1]]
    if it[6] or it[5] > 0 or it[7] < 1:
        return False
    after = log[idx[-1]:]
    went = any(x[0] == "W" and x[1] == d and x[2] == "state" and x[4] == "waiting_for_ball" and x[3] != x[4] for x in after)
    entered = any(x[0] == "W" and x[1] == d and x[2] == "count" and isinstance(x[3], int) and x[4] > x[3] for x in after)
    return went and not entered


def _in_loss_window(out, d):
    """exactly the recorded defect: something (eject, release, collect, ...) was requested from <d> within
    idle_missing_ball_timeout (5 s + count settle) after a ball had left it uncommanded"""
    now, leaks, reqs = 0, [], []
    for it in out["log"]:
        if it[0] == "T":
            now = it[4]
        elif it[0] == "S" and it[1] == "leak" and it[2] == d:
            leaks.append(it[4])
        elif it[0] == "A" and it[1] not in ("hold", "claim"):
            reqs.append(now)
    return any(tl - 300000 <= tr <= tl + 6300000 for tl in leaks for tr in reqs)


def _slot_timed_out(out, d, t, fin, devs):
    """exactly the recorded defect: since <d> began to wait for room in <t> an incoming ball of <t> timed out (reported
    through lost_incoming_ball), <t> now has room and nobody has changed its count since"""
    log = out["log"]
    start = None
    for i, it in enumerate(log):
        if it[0] == "W" and it[1] == d and it[2] == "state" and it[3] != it[4]:
            start = i if it[4] == "waiting_for_target_ready" else None
    if start is None:
        return False
    lost = [i for i in range(start, len(log)) if log[i][0] == "L" and log[i][1] == t]
    if not lost:
        return False
    if any(it[0] == "W" and it[1] == t and it[2] == "count" for it in log[lost[-1]:]):
        return False
    snap = fin["snap"]
    return devs[t]["cap"] - snap[t][0] > snap[t][4]


def gen_game(rng, tier, i):
    return bc.gen_case(rng, tier, i, profile="save_twice")


def oracle_game(case, out):
    """every ball the game counts as in play (ball start, multiball add, ball save) is physically delivered"""
    fails = oracle_att(case, out)
    fin = out.get("final")
    if out.get("error") or out.get("sim_error") or not fin or not fin.get("game"):
        return fails
    g, snap, truth = fin["game"], fin["snap"], fin["truth"]
    devs = bc.device_table(case["topo"])
    if g["running"] and not truth["transit"] and all(snap[d][3] != "eject_broken" for d in devs):
        physical = truth["loose"] + truth["dev"]["plunger"]
        if physical < g["balls_in_play"]:
            saves = sum(e[1] for e in g["events"] if e[0] == "ball_save_bs_saving_ball")
            fails.append({"sig": "ball-in-play-not-delivered", "what": "world quiet: game.balls_in_play=%d but only %d "
                          "balls are on the playfield / in the plunger (%d balls were saved by the ball save)" %
                          (g["balls_in_play"], physical, saves)})
        elif physical > g["balls_in_play"]:
            fails.append({"sig": "more-balls-than-in-play", "what": "world quiet: game.balls_in_play=%d but %d balls are "
                          "on the playfield / in the plunger" % (g["balls_in_play"], physical)})
    return fails


# ------------------------------------------------------------------------------------------------
# (d) a ball leaves an idle device uncommanded; ejects requested around the moment MPF books the loss (IdleLoss.v)
def gen_idle(rng, tier, i):
    k = rng.choice([1, 1, 2])
    topo = bc._base_topo(rng, trough_n=rng.choice([3, 4]), lock_k=k)
    okpf = lambda: ["ok", rng.choice([20, 50, 80]), 0, rng.choice([100, 300, 700])]     # noqa
    okdev = lambda: ["ok", rng.choice([20, 50, 80]), rng.choice([300, 600, 1000]), -1]  # noqa
    script = []
    for j in range(k):
        script += [[500 if j == 0 else 3500, "add_ball"], [rng.choice([4000, 5000]), "lockshot", rng.choice([300, 500])]]
    t = 0.0
    deadline = None         # when _handle_missing_balls gives up waiting (about 5 s after the last leak was noticed)
    pending = False         # an eject was requested inside the window
    first = True
    for _ in range(rng.choice([2, 3, 3, 4, 5])):
        gap = 4000 if first else rng.choice([1500, 3000, 3000, 6500, 9000])
        first = False
        a = rng.choice(["lockleak", "lockleak", "eject", "eject", "wait"])
        if deadline is not None and abs(t + gap - deadline) < 1300:
            gap += 2600
        if deadline is not None and t + gap > deadline:
            deadline, pending = None, False
        if a == "lockleak" and pending:
            a = "wait"      # outside the model: "Lost ball between ejects. Ignoring."
        t += gap
        if a == "lockleak":
            script.append([gap, a, 1])
            deadline = t + 5300
        elif a == "eject":
            script.append([gap, a, "lock"])
            if deadline is not None:
                pending = True
        else:
            script.append([gap, a])
    return {"topo": topo, "script": script, "faults": {"trough": [okdev() for _ in range(6)],
                                                        "plunger": [okpf() for _ in range(6)],
                                                        "lock": [okpf() for _ in range(8)]},
            "claims": [1, 1, 1, 1], "profile": "idle_loss"}


def idle_ops(case, out):
    """(balls in the lock when the first operation comes, [operations], final observation) or None (outside the model)"""
    log = out["log"]
    state, k, ops, seen = "idle", None, [], False
    last_t = None
    for it in log:
        if it[0] == "T":
            last_t = it
        elif it[0] == "W" and it[1] == "lock" and it[2] == "state":
            state = it[4]
        elif (it[0] == "S" and it[1] == "leak" and it[2] == "lock") or (it[0] == "A" and it[1] == "eject"):
            if k is None:
                if last_t is None or last_t[1]["lock"][0] != last_t[3]["dev"]["lock"] or last_t[1]["lock"][3] != "idle":
                    return None
                k = last_t[1]["lock"][0]
            if it[0] == "S":
                if last_t[5]["lock"] is None or not last_t[5]["lock"][3]:
                    return None     # a leak while an eject is pending
                ops.append("LLeak")
            else:
                ops.append("LEject")
        elif it[0] == "W" and it[1] == "lock" and it[2] == "count" and k is not None and isinstance(it[3], int) and \
                it[4] < it[3] and state in ("idle", "waiting_for_ball"):
            ops.append("LTimeout")
    fin = out.get("final")
    if k is None or not fin:
        return None
    s = fin["snap"]["lock"]
    code = {"idle": 0, "waiting_for_ball": 1}.get(s[3], 9)
    return k, ops, [code, s[0], s[2], s[5]]


def coq_idle(case, out):
    if out.get("error") or out.get("sim_error"):
        return None
    r = idle_ops(case, out)
    if r is None:
        return None
    k, ops, obs = r
    return "((%s, %s), %s)" % (zlit(k), coqlist(ops), zl(obs))


def nontrivial_idle(case, out):
    r = None if out.get("error") or out.get("sim_error") else idle_ops(case, out)
    return bool(r) and "LTimeout" in r[1] and "LEject" in r[1]


def nontrivial_game(case, out):
    fin = out.get("final") or {}
    g = fin.get("game") or {}
    return sum(1 for e in g.get("events", []) if e[0] == "ball_save_bs_saving_ball") >= 2


def nontrivial_att(case, out):
    return any(it[0] == "P" and it[1].endswith("_ball_eject_failed") for it in out.get("log", []))


def describe_att(case):
    t = case["topo"]
    return "%s max=%d/%d/%d lock=%d" % (case.get("profile"), t["att_trough"], t["att_plunger"], t["att_lock"],
                                        t.get("lock_k", 0))


HDR_ROUTE = "From C05 Require Import Model.\nDefinition run := route_run.\nDefinition out_eqb := route_out_eqb.\n"
HDR_ATT = ("From C05 Require Import Model Waits.\n"
           "Definition run (x : list (Z * list aev) * list ((Z * Z) * Z * Z * list witem)) :=\n"
           "  (map (fun i => match auto_run i with x :: _ => [x] | [] => [] end) (fst x), map waits_run (snd x)).\n"
           "Definition out_eqb (a b : list (list Z) * list Z) := zss_eqb (fst a) (fst b) && zs_eqb (snd a) (snd b).\n")

HDR_QUEUE = "From C05 Require Import Model Requests.\nDefinition run := req_run.\nDefinition out_eqb := zss_eqb.\n"
HDR_IDLE = "From C05 Require Import IdleLoss.\nDefinition run := idle_run.\nDefinition out_eqb := zs_eqb.\n"

SUITES = [
    Suite("routing", gen_route, run_route, HDR_ROUTE, coq_route, oracle_route, shrink_route, nontrivial_route,
          {"quick": 3000, "thorough": 60000}, shard=500),
    Suite("queues", gen_queue, run_queue, HDR_QUEUE, coq_queue, oracle_queue, shrink_queue, nontrivial_queue,
          {"quick": 1500, "thorough": 40000}, shard=500),
    Suite("attempts", gen_att, run_att, HDR_ATT, coq_att, oracle_att, bc.shrink_case, nontrivial_att,
          {"quick": 220, "thorough": 5000}, describe=describe_att, shard=40, case_timeout=120),
    Suite("game", gen_game, run_att, HDR_ATT, coq_att, oracle_game, bc.shrink_case, nontrivial_game,
          {"quick": 60, "thorough": 1500}, describe=describe_att, shard=30, case_timeout=120),
    Suite("idleloss", gen_idle, run_att, HDR_IDLE, coq_idle, oracle_att, bc.shrink_case, nontrivial_idle,
          {"quick": 40, "thorough": 1200}, describe=describe_att, shard=40, case_timeout=120),
]
