"""C19 — BCP messages round-trip exactly and reassemble from any chunking."""
import asyncio
import json
import math

from vlib import Suite, zlist, coqlist, blit, opt

ID = "C19"
READY = True
RULE = ("codec: parameter dictionaries generated from one PRNG (unicode incl. astral planes, separators, percent "
        "signs, typed-prefix look-alikes, awkward floats, big ints, nested lists/dicts); non-trivial = at least one "
        "parameter whose text needs quoting or a typed prefix; distinct by case hash.  reader: streams of 1-6 framed "
        "messages (with/without byte payloads, optional corruption) split into random reads; non-trivial = at least "
        "one message boundary or payload straddles a read")
TRUSTED_BASE = [
    "Coq 8.16.1 kernel (coqc), vm_compute for refutation witnesses and for evaluating the model in the correspondence run; no native_compute",
    "axioms: none (every Print Assumptions is 'Closed under the global context')",
    "hand-written model coq/C19/Model.v tied to /repo by correspondence: harness/props/c19.py runs "
    "encode_command_string/decode_command_string/read_message and the model on the same inputs",
    "CPython: str<->utf-8, str(int)/int(), str(float)/float(), json.dumps/json.loads (text supplied to the model as data), asyncio.StreamReader",
    "urllib.parse quote/unquote/parse_qs/urlsplit/urlunparse are MODELLED (byte level) and validated on every run",
]
ASSUMPTIONS = [
    "strings contain no lone surrogates (quote() raises on them); int()/float() text outside [+-]?[0-9]+ / repr(float) is not fed to the model",
    "lines shorter than asyncio's 64 KiB readline limit",
]

# ------------------------------------------------------------------------------------------------
ALPH = ["a", "b", "z", "A", "Z", "0", "9", "_", "-", ".", "~", " ", "+", "&", "=", "?", "%", "#", ":", "/", "\\",
        "\n", "\t", "\r", "\"", "'", "{", "}", "[", "]", ",", "é", "ß", "€", "中", "😀", "\u0000", "\u007f", " ",
        "%41", "%25", "%zz", "%4", "%E2%82%AC", "%ff", "%C3", "json", "int:", "float:", "bool:", "NoneType:",
        "&bytes=", "true", "True", "5"]
LOOKALIKE = ["int:5", "int:-12", "int:+7", "int:007", "int:", "int:abc", "int:5x", "float:1.5", "float:nan", "float:inf",
             "float:-0.0", "float:1e+20", "float:", "float:abc", "bool:true", "bool:True", "BOOL:FALSE", "Bool:False",
             "bool:false", "bool:maybe", "NoneType:", "nonetype:", "NoneType:x", "int:12345678901234567890"]
FLOATS = [0.0, -0.0, 1.5, -2.25, 1e20, 1e-7, 123456789.123456789, float("inf"), float("-inf"), float("nan"), 5e-324,
          1.7976931348623157e308, 0.1, 1 / 3]
KEYS = ["name", "a", "b", "value", "json", "x y", "k&", "k=", "é", "", "int:", "player_num", "K", "%41", "a+b"]


def rstr(rng):
    n = rng.choice([0, 1, 1, 2, 3, 5, 8])
    return "".join(rng.choice(ALPH) for _ in range(n))


def rscalar(rng):
    r = rng.random()
    if r < 0.40:
        return rstr(rng)
    if r < 0.50:
        return rng.choice(LOOKALIKE)
    if r < 0.65:
        return rng.choice([0, 1, -1, 7, 42, -12345, 2 ** 31, -2 ** 63, 10 ** 30, rng.randint(-10 ** 6, 10 ** 6)])
    if r < 0.78:
        return rng.choice(FLOATS + [rng.uniform(-1000, 1000)])
    if r < 0.90:
        return rng.choice([True, False])
    return None


def rnested(rng, depth=0):
    r = rng.random()
    if depth > 2 or r < 0.5:
        return rscalar(rng)
    if r < 0.75:
        return [rnested(rng, depth + 1) for _ in range(rng.randint(0, 3))]
    return {rstr(rng) or "k": rnested(rng, depth + 1) for _ in range(rng.randint(0, 3))}


def gen_codec(rng, tier, i):
    cmd = rng.choice(["trigger", "play", "x", "machine_variable", "a1_b", "mode_start", "0", ""])
    n = rng.choice([0, 1, 1, 2, 2, 3, 4, 6])
    keys = []
    while len(keys) < n:
        k = rng.choice(KEYS) if rng.random() < 0.8 else rstr(rng)
        if k not in keys:
            keys.append(k)
    nested = rng.random() < 0.2
    kw = []
    for k in keys:
        kw.append([k, tagv(rnested(rng) if nested else rscalar(rng))])
    return {"cmd": cmd, "kw": kw}


# values are carried through JSON case files with explicit type tags (floats as repr)
def tagv(v):
    if isinstance(v, bool):
        return ["b", v]
    if isinstance(v, int):
        return ["i", str(v)]
    if isinstance(v, float):
        return ["f", repr(v)]
    if v is None:
        return ["n"]
    if isinstance(v, str):
        return ["s", v]
    if isinstance(v, list):
        return ["l", [tagv(x) for x in v]]
    if isinstance(v, dict):
        return ["d", [[k, tagv(x)] for k, x in v.items()]]
    return ["?", repr(v)]


def untag(t):
    k = t[0]
    if k == "b":
        return bool(t[1])
    if k == "i":
        return int(t[1])
    if k == "f":
        return float(t[1])
    if k == "n":
        return None
    if k == "s":
        return t[1]
    if k == "l":
        return [untag(x) for x in t[1]]
    if k == "d":
        return {a: untag(b) for a, b in t[1]}
    raise ValueError(t)


def is_nested(kw):
    return any(t[0] in ("l", "d") for _, t in kw)


def run_codec(case):
    from mpf.core.bcp.bcp_socket_client import encode_command_string, decode_command_string
    kwargs = {k: untag(t) for k, t in case["kw"]}
    # the implementation decides JSON mode at the first list/dict value in iteration order
    line = encode_command_string(case["cmd"], **kwargs)
    out = {"line": line}
    if is_nested(case["kw"]):
        out["jsontext"] = json.dumps(kwargs, cls=__import__("mpf.core.bcp.bcp_socket_client", fromlist=["x"]).MpfJSONEncoder)
    try:
        cmd, dk = decode_command_string(line)
        out["cmd"] = cmd
        if isinstance(dk, dict):
            out["kw"] = [[k, tagv(v)] for k, v in dk.items()]
        else:
            out["kw"] = []
            out["notdict"] = repr(dk)
    except ValueError as e:
        out["error"] = "ValueError"
    return out


def float_text_ok(t):
    try:
        f = float(t)
    except ValueError:
        return False
    return True


def model_domain(case):
    """inputs the byte-level model covers (see Model.v comments)"""
    for k, t in case["kw"]:
        if t[0] == "s":
            s = t[1]
            if s.startswith("int:"):
                body = s[4:]
                if not all(c in "0123456789+-abcdefghijklmnopqrstuvwxyz" for c in body):
                    return False
            if s.startswith("float:"):
                body = s[6:]
                if float_text_ok(body) and repr(float(body)) != body:
                    return False
        if t[0] == "?":
            return False
    return True


def cv(t):
    k = t[0]
    if k == "s":
        return "(VStr %s)" % zlist(t[1].encode())
    if k == "i":
        return "(VInt %s)" % (t[1] if not t[1].startswith("-") else "(%s)" % t[1])
    if k == "f":
        return "(VFloat %s)" % zlist(str(float(t[1])).encode())
    if k == "b":
        return "(VBool %s)" % blit(t[1])
    if k == "n":
        return "VNone"
    raise ValueError(k)


def coq_codec(case, out):
    if not model_domain(case):
        return None
    cmd = zlist(case["cmd"].encode())
    line = zlist(out["line"].encode())
    if is_nested(case["kw"]):
        # the implementation switches to JSON mode only if it meets the list/dict before finishing the loop: always
        inp = "(CJson %s %s)" % (cmd, zlist(out["jsontext"].encode()))
        exp = "(Some (DJson %s %s))" % (zlist(out.get("cmd", "").encode()), zlist(out["jsontext"].encode()))
        # decoded payload text is compared through json.loads equality by the oracle; here: glue only
        return "(%s, (%s, %s))" % (inp, line, exp)
    okf = []
    for k, t in case["kw"]:
        if t[0] == "f":
            okf.append(str(float(t[1])))
        if t[0] == "s" and t[1].startswith("float:") and float_text_ok(t[1][6:]):
            okf.append(t[1][6:])
    inp = "(CKw %s %s %s)" % (coqlist(zlist(x.encode()) for x in okf), cmd,
                              coqlist("(%s,%s)" % (zlist(k.encode()), cv(t)) for k, t in case["kw"]))
    if case["kw"] and case["kw"][0][0] == "json":
        # recorded defect first-key-json: the model says "JSON form"; what json.loads makes of the text is not modelled
        exp = "(Some (DJson %s %s))" % (cmd, zlist(out["line"].encode()[len(case["cmd"].encode()) + 6:]))
    elif "error" in out:
        exp = "(@None decoded)"
    else:
        exp = "(Some (DKw %s %s))" % (zlist(out["cmd"].encode()),
                                      coqlist("(%s, DVal %s)" % (zlist(k.encode()), cv(t)) for k, t in out["kw"]))
    return "(%s, (%s, %s))" % (inp, line, exp)


def canon(t):
    """type-exact canonical form (nan == nan, 1 != 1.0 != True)"""
    return json.dumps(t, sort_keys=False)


def looks_typed(s):
    return (s.startswith("int:") or s.startswith("float:") or s.lower() in ("bool:true", "bool:false")
            or s == "NoneType:")


def oracle_codec(case, out):
    fails = []
    if "\n" in out["line"]:
        fails.append({"sig": "newline-in-line", "what": "encoded message contains a raw newline"})
    want_cmd, want = case["cmd"], case["kw"]
    nested = is_nested(want)
    if "error" not in out and "notdict" not in out and out.get("cmd") == want_cmd and \
            [(k, canon(t)) for k, t in out["kw"]] == [(k, canon(t)) for k, t in want]:
        return fails
    # classify the failure precisely: is it exactly what a recorded defect produces?
    if not nested and want and want[0][0] == "json":
        fails.append({"sig": "first-key-json", "what": "first parameter named 'json' is taken for the JSON form"})
        return fails
    if not nested:
        sim = defect_sim(want)
        if sim != want:
            if (sim == "error" and "error" in out) or \
                    (sim != "error" and "error" not in out and "notdict" not in out and out.get("cmd") == want_cmd and
                     [(k, canon(t)) for k, t in out["kw"]] == [(k, canon(t)) for k, t in sim]):
                fails.append({"sig": "str-looks-typed",
                              "what": "a string parameter that looks like a typed value (int:/float:/bool:/NoneType:) "
                                      "does not come back as the same string"})
                return fails
    fails.append({"sig": "roundtrip-other", "what": "decode(encode(cmd, kw)) != (cmd, kw): %r -> %r" %
                                                    (case, {k: out.get(k) for k in ("cmd", "kw", "error")})})
    return fails


def defect_sim(want):
    """what the recorded prefix-ambiguity defect turns the parameters into (nothing else may differ)"""
    res = []
    for k, t in want:
        if t[0] == "s":
            s = t[1]
            try:
                if s.startswith("int:"):
                    t = tagv(int(s[4:]))
                elif s.startswith("float:"):
                    t = tagv(float(s[6:]))
                elif s.lower() == "bool:true":
                    t = tagv(True)
                elif s.lower() == "bool:false":
                    t = tagv(False)
                elif s == "NoneType:":
                    t = tagv(None)
            except ValueError:
                return "error"
        res.append([k, t])
    return res


def shrink_codec(case):
    kw = case["kw"]
    for i in range(len(kw)):
        yield {"cmd": case["cmd"], "kw": kw[:i] + kw[i + 1:]}
    for i, (k, t) in enumerate(kw):
        if t[0] == "s" and len(t[1]) > 1:
            for j in range(len(t[1])):
                yield {"cmd": case["cmd"], "kw": kw[:i] + [[k, ["s", t[1][:j] + t[1][j + 1:]]]] + kw[i + 1:]}
        if len(k) > 1:
            yield {"cmd": case["cmd"], "kw": kw[:i] + [[k[:1], t]] + kw[i + 1:]}
    if len(case["cmd"]) > 1:
        yield {"cmd": "x", "kw": kw}


def nontrivial_codec(case, out):
    return any(t[0] != "s" or any(not (c.isalnum() and c.isascii()) for c in t[1]) for _, t in case["kw"])


def describe_codec(case):
    kinds = sorted(set(t[0] for _, t in case["kw"]))
    return "n=%d kinds=%s" % (len(case["kw"]), "".join(kinds))


# ------------------------------------------------------------------------------------------------
# reader
def gen_reader(rng, tier, i):
    from mpf.core.bcp.bcp_socket_client import encode_command_string, decode_command_string
    msgs = []
    stream = b""
    for _ in range(rng.randint(1, 6)):
        c = gen_codec(rng, tier, 0)
        if rng.random() < 0.3:
            # nested/JSON form less often, and keep "&bytes=" out of JSON strings except rarely
            pass
        kwargs = {k: untag(t) for k, t in c["kw"]}
        if not is_nested(c["kw"]):
            pass
        elif rng.random() < 0.9 and "&bytes=" in json.dumps(kwargs):
            continue
        try:
            line = encode_command_string(c["cmd"], **kwargs).encode()
            if rng.random() < 0.95:
                decode_command_string(line.decode())    # mostly-valid stream: skip lines the decoder rejects
        except Exception:
            continue
        if b"\n" in line:
            continue
        payload = None
        r = rng.random()
        if r < 0.35:
            n = rng.choice([0, 1, 2, 5, 17, 64])
            payload = bytes(rng.choice([0, 10, 13, 38, 255, 65, rng.randrange(256)]) for _ in range(n))
            stream += line + b"&bytes=" + str(n).encode() + b"\n" + payload
        elif r < 0.40:
            # malformed length field
            junk = rng.choice([b"", b"x", b"-3", b"+2", b"1a", b"2&bytes=1"])
            stream += line + b"&bytes=" + junk + b"\n"
        else:
            stream += line + b"\n"
    if rng.random() < 0.15 and stream:
        # truncate: the tail is an incomplete message
        stream = stream[:rng.randrange(len(stream))]
    cuts = sorted(set(rng.randrange(len(stream) + 1) for _ in range(rng.choice([0, 1, 2, 4, 8, 30]))))
    if rng.random() < 0.1:
        cuts = list(range(1, len(stream)))          # single bytes
    chunks, prev = [], 0
    for c in cuts + [len(stream)]:
        if c > prev:
            chunks.append(list(stream[prev:c]))
            prev = c
    return {"chunks": chunks}


_impl = {}


def _reader_classes():
    from mpf.core.bcp import bcp_socket_client as m
    from unittest.mock import MagicMock
    return m, MagicMock


def feed_and_collect(chunks, which):
    m, MagicMock = _reader_classes()
    loop = asyncio.new_event_loop()
    try:
        reader = asyncio.StreamReader(loop=loop)
        seen = []
        state = {"dead": False, "decoded": []}
        if which == "asyncio":
            cli = m.AsyncioBcpClientSocket(MagicMock(), reader)
            orig = m.AsyncioBcpClientSocket._process_command

            def rec(message, rawbytes=None):
                seen.append([list(message), None if rawbytes is None else list(rawbytes)])
                try:
                    return orig(message, rawbytes)
                except Exception as e:
                    state["other"] = type(e).__name__
                    raise
            cli._process_command = rec
        else:
            machine = MagicMock()
            cli = m.BCPClientSocket(machine, "c", MagicMock())
            cli._receiver = reader
            cli._sender = MagicMock()
            cli._debug = False
            orig = cli._process_command

            def rec(message, rawbytes=None):
                seen.append([list(message), None if rawbytes is None else list(rawbytes)])
                try:
                    return orig(message, rawbytes)
                except Exception as e:
                    state["other"] = type(e).__name__
                    raise
            cli._process_command = rec

        async def pump():
            try:
                while True:
                    state["decoded"].append(await cli.read_message())
            except ValueError:
                state["dead"] = True
            except Exception as e:  # decode errors of a line (json, unicode) also end the reader
                state["dead"] = True
                state.setdefault("other", type(e).__name__)

        task = loop.create_task(pump())
        for ch in chunks:
            reader.feed_data(bytes(ch))
            for _ in range(3):
                loop.run_until_complete(asyncio.sleep(0))
        for _ in range(3):
            loop.run_until_complete(asyncio.sleep(0))
        if not task.done():
            task.cancel()
            try:
                loop.run_until_complete(task)
            except BaseException:
                pass
        return {"msgs": seen, "dead": state["dead"], "other": state.get("other"),
                "decoded": [[c, [[k, tagv(v) if not isinstance(v, bytes) else ["y", list(v)]] for k, v in kw.items()]
                             if isinstance(kw, dict) else repr(kw)]
                            for c, kw in state["decoded"]]}
    finally:
        loop.close()


def run_reader(case):
    a = feed_and_collect(case["chunks"], "asyncio")
    whole = [sum(case["chunks"], [])]
    b = feed_and_collect(whole, "asyncio")
    c = feed_and_collect(case["chunks"], "mpf")
    return {"split": a, "whole": b, "mpf": {"msgs": c["msgs"], "dead": c["dead"], "other": c["other"]}}


def coq_reader(case, out):
    o = out["split"]
    if o.get("other"):
        # a line that frames correctly but does not decode (e.g. invalid utf-8/JSON after corruption): the reader dies
        # in _process_command, which the framing model does not contain
        return None
    msgs = coqlist("(Msg %s %s)" % (zlist(l), opt(p, zlist)) for l, p in o["msgs"])
    return "(%s, (%s, %s))" % (coqlist(zlist(c) for c in case["chunks"]), msgs, blit(o["dead"]))


def oracle_reader(case, out):
    fails = []
    a, b, c = out["split"], out["whole"], out["mpf"]
    if a["msgs"] != b["msgs"] or a["dead"] != b["dead"] or a["decoded"] != b["decoded"]:
        fails.append({"sig": "chunking-dependent", "what": "messages differ between split and unsplit delivery"})
    if c["msgs"] != a["msgs"] or c["dead"] != a["dead"]:
        fails.append({"sig": "two-readers-differ", "what": "BCPClientSocket.read_message and AsyncioBcpClientSocket.read_message differ"})
    return fails


def shrink_reader(case):
    ch = case["chunks"]
    for i in range(len(ch)):
        if len(ch) > 1:
            j = i + 1 if i + 1 < len(ch) else i - 1
            lo, hi = min(i, j), max(i, j)
            yield {"chunks": ch[:lo] + [ch[lo] + ch[hi]] + ch[hi + 1:]}
    for i in range(len(ch)):
        if len(ch[i]) > 1:
            yield {"chunks": ch[:i] + [ch[i][:len(ch[i]) // 2]] + ch[i + 1:]}
            yield {"chunks": ch[:i] + [ch[i][len(ch[i]) // 2:]] + ch[i + 1:]}


def nontrivial_reader(case, out):
    return len(case["chunks"]) > 1 and len(out["split"]["msgs"]) >= 1


def describe_reader(case):
    n = len(case["chunks"])
    return "chunks=%s" % ("1" if n == 1 else "2-4" if n <= 4 else "5-16" if n <= 16 else ">16")


HDR_CODEC = "From C19 Require Import Model.\nDefinition run := codec_run.\nDefinition out_eqb := codec_out_eqb.\n"
HDR_READER = "From C19 Require Import Model.\nDefinition run := reader_run.\nDefinition out_eqb := reader_out_eqb.\n"

SUITES = [
    Suite("codec", gen_codec, run_codec, HDR_CODEC, coq_codec, oracle_codec, shrink_codec, nontrivial_codec,
          {"quick": 4000, "thorough": 150000}, describe=describe_codec, shard=500),
    Suite("reader", gen_reader, run_reader, HDR_READER, coq_reader, oracle_reader, shrink_reader, nontrivial_reader,
          {"quick": 1000, "thorough": 40000}, describe=describe_reader, shard=300),
]


# ------------------------------------------------------------------------------------------------
# dispatch order: BcpTransportManager._receive_loop awaits each command's handler before reading the next
def gen_dispatch(rng, tier, i):
    n = rng.randint(2, 7)
    msgs = []
    for k in range(n):
        kind = rng.choice(["slow", "slow", "fast", "fast", "unknown"])
        msgs.append({"cmd": {"slow": "vslow", "fast": "vfast", "unknown": "vnope"}[kind], "id": k,
                     "delay8": rng.choice([0, 1, 2, 3, 8]) if kind == "slow" else 0})
    cuts = sorted(set(rng.randrange(1, 40 * n) for _ in range(rng.choice([0, 1, 2, 5]))))
    return {"msgs": msgs, "cuts": cuts}


_DISP = {}


def _dispatch_rig():
    if "rig" in _DISP:
        return _DISP["rig"]
    from rig import Rig
    from mpf.tests.loop import MockQueueSocket

    class Sock(MockQueueSocket):
        def send(self, data):
            if data == b'reset\n':
                self.recv_queue.append(b'reset_complete\n')
                return len(data)
            return super().send(data)

    def mock_loop(r):
        r.client_socket = Sock(r.loop)
        r.clock.mock_socket("localhost", 5050, r.client_socket)

    r = Rig({}, use_bcp=True, mock_loop=mock_loop, patches={"bcp": {"servers": []}})
    r.machine_config_patches["bcp"] = {"servers": []}
    r.start()
    log = []

    async def vslow(client, id, delay8, **kwargs):
        log.append(["start", id])
        await asyncio.sleep(delay8 / 8.0)
        log.append(["done", id])

    async def vfast(client, id, **kwargs):
        log.append(["start", id])
        log.append(["done", id])
    r.machine.bcp.interface.register_command_callback("vslow", vslow)
    r.machine.bcp.interface.register_command_callback("vfast", vfast)
    _DISP["rig"] = r
    _DISP["log"] = log
    return r


def run_dispatch(case):
    from mpf.core.bcp.bcp_socket_client import encode_command_string
    r = _dispatch_rig()
    log = _DISP["log"]
    del log[:]
    stream = b"".join((encode_command_string(m["cmd"], id=m["id"], delay8=m["delay8"]) + "\n").encode() for m in case["msgs"])
    prev = 0
    for c in [c for c in case["cuts"] if c < len(stream)] + [len(stream)]:
        if c > prev:
            r.client_socket.recv_queue.append(stream[prev:c])
            prev = c
    r.advance(10)
    return {"log": [list(x) for x in log]}


def coq_dispatch(case, out):
    inp = coqlist("(%s, %d)" % (blit(m["cmd"] != "vnope"), m["id"]) for m in case["msgs"])
    exp = coqlist("(%s, %d)" % (blit(k == "start"), i) for k, i in out["log"])
    return "(%s, %s)" % (inp, exp)


def oracle_dispatch(case, out):
    want = []
    for m in case["msgs"]:
        if m["cmd"] != "vnope":
            want += [["start", m["id"]], ["done", m["id"]]]
    if out["log"] != want:
        return [{"sig": "dispatch-order", "what": "commands of one connection were not handled one after the other in the "
                                                  "order sent: %r" % out["log"]}]
    return []


def shrink_dispatch(case):
    ms = case["msgs"]
    for i in range(len(ms)):
        yield {"msgs": ms[:i] + ms[i + 1:], "cuts": case["cuts"]}
    if case["cuts"]:
        yield {"msgs": ms, "cuts": []}


HDR_DISPATCH = ("From C19 Require Import Model.\nDefinition run := dispatch_run.\n"
                "Definition out_eqb := list_eqb (fun a b : bool * Z => Bool.eqb (fst a) (fst b) && Z.eqb (snd a) (snd b)).\n")

SUITES.append(
    Suite("dispatch", gen_dispatch, run_dispatch, HDR_DISPATCH, coq_dispatch, oracle_dispatch, shrink_dispatch,
          lambda c, o: sum(1 for m in c["msgs"] if m["cmd"] == "vslow" and m["delay8"] > 0) >= 1,
          {"quick": 150, "thorough": 3000}, shard=200))

LEVEL_TEXT = ("Machine-checked proof (Coq) that, in a byte-level model of encode/decode and of the urllib pieces they use, "
              "decode(encode(cmd,kw)) = (cmd,kw) for every command and every parameter dictionary outside two recorded "
              "ambiguity classes (each witnessed by a _refuted theorem and reproduced on the code on every run), that an "
              "encoded message is one line, and that the receiver's output is independent of how the stream is chunked; "
              "the model is tied to /repo by running both on the same generated inputs on every run.")
LEVEL_NOTE = ("Trusted: Coq kernel + vm_compute; no axioms. Model hand-written; correspondence (differential) validates it "
              "against the working tree; json/utf-8/int()/float() text conversions and asyncio.StreamReader are CPython, "
              "treated as data/oracles. The reader model is byte-at-a-time by construction; its tie to read_message is the "
              "correspondence run over random splits.")
TECHNIQUE = "Coq proof over hand-written executable model + differential correspondence (vm_compute) + direct round-trip oracle"
DESIGN_REF = "DESIGN.md section 3, C19"
