"""C19 — BCP messages round-trip exactly and reassemble from any chunking."""
import asyncio
import json
import math

from vlib import Suite, zlist, coqlist, blit, opt

ID = "C19"
READY = True
RULE = ("codec: parameter dictionaries generated from one PRNG (unicode incl. astral planes, separators, percent "
        "signs, typed-prefix look-alikes, awkward floats, big ints, nested lists/dicts); non-trivial = at least one "
        "parameter whose text needs quoting or a typed prefix; distinct by case hash; every line is decoded three times "
        "(statefulness probe).  reader: streams of 1-6 framed messages (with/without byte payloads, optional corruption) "
        "split into random reads; non-trivial = at least one message boundary or payload straddles a read.  session: "
        "histories of 2-12 messages drawn from a pool of 1-4 (lines recur with and without payload), written by the real "
        "send() of both client classes, cut at random points, read by ONE long-lived client object per class; non-trivial "
        "= some line occurs both with and without payload and the stream is split.  handler: the same kind of history "
        "through a real machine (4 configurations: connection direction x logging of bcp_interface/bcp_client) to "
        "registered command callbacks and trigger events, plus events sent back to a registered client; non-trivial = a "
        "payload reaches a handler.  pickle: 1-5 messages through BcpPickleClient under random splits.  timed: 1-3 "
        "connections (BcpServer-accepted, or the one MPF made) of a real machine, each carrying 1-5 messages (payloads up to "
        "300 bytes) plus optionally a torn frame, cut at random points and at the header/payload boundary, the chunks of all "
        "connections interleaved and delivered at generated instants (gaps 0..8 s on the virtual clock, 1/8 s grid), each "
        "connection ended by EOF of the peer or by MPF dropping the transport; every case is run twice (generated gaps / zero "
        "gaps); non-trivial = a payload frame stayed incomplete for >= 2 s after its header arrived, or a connection ended "
        "inside a frame")
TRUSTED_BASE = [
    "Coq 8.16.1 kernel (coqc), vm_compute for refutation witnesses and for evaluating the model in the correspondence run; no native_compute",
    "axioms: none (every Print Assumptions is 'Closed under the global context')",
    "hand-written model coq/C19/Model.v tied to /repo by correspondence: harness/props/c19.py runs "
    "encode_command_string/decode_command_string, send()/read_message()/_process_command of both socket clients, "
    "BcpTransportManager._receive_loop + BcpInterface.process_bcp_message/bcp_trigger in a real machine (incl. BcpServer "
    "accepting connections, EOF, unregister_transport, on the virtual clock with timed arrivals), and BcpPickleClient, and "
    "the model on the same inputs",
    "CPython: str<->utf-8, str(int)/int(), str(float)/float(), json.loads (json.dumps is modelled: jdumps), pickle.dumps/loads "
    "(opaque byte strings), asyncio.StreamReader, logging",
    "urllib.parse quote/unquote/parse_qs/urlsplit/urlunparse are MODELLED (byte level) and validated on every run",
    "instrumentation: _process_command wrapped (reader suite), pickle module of bcp_pickle_client proxied to observe the "
    "pickled byte strings, MPF test rig (virtual clock, mock sockets)",
]
ASSUMPTIONS = [
    "strings contain no lone surrogates (quote() raises on them); int()/float() text outside [+-]?[0-9]+ / repr(float) is not fed to the model",
    "lines shorter than asyncio's 64 KiB readline limit; pickles shorter than 2^32 bytes",
    "handler suite: no parameter called client/callback/rawbytes, trigger commands in flat form with a string name "
    "(collisions with Python parameter names of the interface methods are outside C19)",
    "the interleaving of a command callback with the handler of an event posted by an earlier trigger command is not "
    "observed (dispatch = posting is in order; handling belongs to the event queue)",
    "timed suite: the model is the code WITH fixes/C19-torn-frame-at-eof.patch (EOF inside a frame = EOF); on a tree without "
    "it the cases in which a peer disconnects inside a frame reproduce the recorded findings torn-line-dispatched / "
    "torn-payload-eof-raises and are not fed to the model",
    "timed suite: instants on a 1/8 s grid of the virtual clock; delivery instant = instant of the callback; the same "
    "transport object is never re-registered after it was dropped (MPF never does; read_message is not cancellation-safe "
    "between header and payload, which matters only to a caller that cancels and re-enters it: seeded change m11)",
]

# ------------------------------------------------------------------------------------------------
ALPH = ["a", "b", "z", "A", "Z", "0", "9", "_", "-", ".", "~", " ", "+", "&", "=", "?", "%", "#", ":", "/", "\\",
        "\n", "\t", "\r", "\"", "'", "{", "}", "[", "]", ",", "é", "ß", "€", "中", "😀", "\u0000", "\u007f", " ",
        "%41", "%25", "%zz", "%4", "%E2%82%AC", "%ff", "%C3", "json", "int:", "float:", "bool:", "NoneType:",
        "&bytes=", "true", "True", "5"]
LOOKALIKE = ["int:5", "int:-12", "int:+7", "int:007", "int:", "int:abc", "int:5x", "float:1.5", "float:nan", "float:inf",
             "float:-0.0", "float:1e+20", "float:", "float:abc", "bool:true", "bool:True", "BOOL:FALSE", "Bool:False",
             "bool:false", "bool:maybe", "NoneType:", "nonetype:", "NoneType:x", "int:12345678901234567890"]
FLOATS = [0.0, -0.0, 1.5, -2.25, 1e20, 1e-7, 123456789.123456789, float("inf"), float("-inf"), float("nan"), 5e-324,
          1.7976931348623157e308, 0.1, 1 / 3]
KEYS = ["name", "a", "b", "value", "json", "x y", "k&", "k=", "é", "", "int:", "player_num", "K", "%41", "a+b"]


def rstr(rng):
    n = rng.choice([0, 1, 1, 2, 3, 5, 8])
    return "".join(rng.choice(ALPH) for _ in range(n))


def rscalar(rng):
    r = rng.random()
    if r < 0.40:
        return rstr(rng)
    if r < 0.50:
        return rng.choice(LOOKALIKE)
    if r < 0.65:
        return rng.choice([0, 1, -1, 7, 42, -12345, 2 ** 31, -2 ** 63, 10 ** 30, rng.randint(-10 ** 6, 10 ** 6)])
    if r < 0.78:
        return rng.choice(FLOATS + [rng.uniform(-1000, 1000)])
    if r < 0.90:
        return rng.choice([True, False])
    return None


def rnested(rng, depth=0):
    r = rng.random()
    if depth > 2 or r < 0.5:
        return rscalar(rng)
    if r < 0.75:
        return [rnested(rng, depth + 1) for _ in range(rng.randint(0, 3))]
    return {rstr(rng) or "k": rnested(rng, depth + 1) for _ in range(rng.randint(0, 3))}


def gen_codec(rng, tier, i):
    cmd = rng.choice(["trigger", "play", "x", "machine_variable", "a1_b", "mode_start", "0", ""])
    n = rng.choice([0, 1, 1, 2, 2, 3, 4, 6])
    keys = []
    while len(keys) < n:
        k = rng.choice(KEYS) if rng.random() < 0.8 else rstr(rng)
        if k not in keys:
            keys.append(k)
    nested = rng.random() < 0.2
    kw = []
    for k in keys:
        kw.append([k, tagv(rnested(rng) if nested else rscalar(rng))])
    return {"cmd": cmd, "kw": kw}


# values are carried through JSON case files with explicit type tags (floats as repr)
def tagv(v):
    if isinstance(v, bool):
        return ["b", v]
    if isinstance(v, int):
        return ["i", str(v)]
    if isinstance(v, float):
        return ["f", repr(v)]
    if v is None:
        return ["n"]
    if isinstance(v, str):
        return ["s", v]
    if isinstance(v, list):
        return ["l", [tagv(x) for x in v]]
    if isinstance(v, dict):
        return ["d", [[k, tagv(x)] for k, x in v.items()]]
    return ["?", repr(v)]


def untag(t):
    k = t[0]
    if k == "b":
        return bool(t[1])
    if k == "i":
        return int(t[1])
    if k == "f":
        return float(t[1])
    if k == "n":
        return None
    if k == "s":
        return t[1]
    if k == "l":
        return [untag(x) for x in t[1]]
    if k == "d":
        return {a: untag(b) for a, b in t[1]}
    raise ValueError(t)


def is_nested(kw):
    return any(t[0] in ("l", "d") for _, t in kw)


def isolated(fn):
    """Cases of the history suites are complete process histories.  Pool workers run many cases per process (fast; state
    that leaks from one case into the next only ever makes a stateful decoder MORE visible); the main process (shrinking,
    --replay) runs every case in a forked child, so that a failure that is kept while shrinking is a failure of that case
    alone."""
    import functools
    import multiprocessing as mp
    import os
    import signal

    @functools.wraps(fn)
    def wrapper(case):
        if mp.current_process().name != "MainProcess":
            return fn(case)
        r, w = os.pipe()
        pid = os.fork()
        if pid == 0:
            try:
                os.close(r)
                signal.alarm(50)
                try:
                    res = {"ok": fn(case)}
                except BaseException as e:   # noqa
                    res = {"exc": "%s: %s" % (type(e).__name__, e)}
                with os.fdopen(w, "w") as f:
                    json.dump(res, f)
            finally:
                os._exit(0)
        os.close(w)
        try:
            with os.fdopen(r) as f:
                txt = f.read()
        finally:
            try:
                os.kill(pid, signal.SIGKILL)
            except OSError:
                pass
            os.waitpid(pid, 0)
        res = json.loads(txt) if txt else {"exc": "child died"}
        if "exc" in res:
            raise RuntimeError(res["exc"])
        return res["ok"]
    return wrapper


@isolated
def run_codec(case):
    from mpf.core.bcp.bcp_socket_client import encode_command_string, decode_command_string
    kwargs = {k: untag(t) for k, t in case["kw"]}
    # the implementation decides JSON mode at the first list/dict value in iteration order
    line = encode_command_string(case["cmd"], **kwargs)
    out = {"line": line}
    if is_nested(case["kw"]):
        out["jsontext"] = json.dumps(kwargs, cls=__import__("mpf.core.bcp.bcp_socket_client", fromlist=["x"]).MpfJSONEncoder)
    try:
        cmd, dk = decode_command_string(line)
        out["cmd"] = cmd
        if isinstance(dk, dict):
            out["kw"] = [[k, tagv(v)] for k, v in dk.items()]
        else:
            out["kw"] = []
            out["notdict"] = repr(dk)
    except ValueError as e:
        out["error"] = "ValueError"
        return out
    # decode_command_string is a function of the line: repeated calls give equal, independent results
    snap = snapshot(dk)
    cmd2, dk2 = decode_command_string(line)
    st = {"same_obj": dk2 is dk and isinstance(dk, (dict, list)), "equal2": cmd2 == cmd and snapshot(dk2) == snap}
    st["shared_inner"] = bool(shared_mutables(dk, dk2)) and not st["same_obj"]
    poison(dk)
    poison(dk2)
    cmd3, dk3 = decode_command_string(line)
    st["equal3"] = cmd3 == cmd and snapshot(dk3) == snap
    out["state"] = st
    return out


def snapshot(v):
    """type-exact, order-exact text of a decoded value (bytes payloads included)"""
    def t(x):
        if isinstance(x, (bytes, bytearray)):
            return ["y", list(x)]
        if isinstance(x, list):
            return ["l", [t(e) for e in x]]
        if isinstance(x, dict):
            return ["d", [[k, t(e)] for k, e in x.items()]]
        return tagv(x)
    return json.dumps(t(v))


def _mutables(v, acc):
    if isinstance(v, dict):
        acc.append(v)
        for x in v.values():
            _mutables(x, acc)
    elif isinstance(v, list):
        acc.append(v)
        for x in v:
            _mutables(x, acc)
    return acc


def shared_mutables(a, b):
    ida = {id(x) for x in _mutables(a, [])}
    return [x for x in _mutables(b, []) if id(x) in ida]


def poison(v):
    """what a receiver may do with 'its' kwargs: add keys (payload), pop, append"""
    for m in _mutables(v, []):
        if isinstance(m, dict):
            m["rawbytes"] = b"\x00poison"
            m["__verif_poison__"] = 1
        else:
            m.append("__verif_poison__")


def float_text_ok(t):
    try:
        f = float(t)
    except ValueError:
        return False
    return True


def model_domain(case):
    """inputs the byte-level model covers (see Model.v comments)"""
    for k, t in case["kw"]:
        if t[0] == "s":
            s = t[1]
            if s.startswith("int:"):
                body = s[4:]
                if not all(c in "0123456789+-abcdefghijklmnopqrstuvwxyz" for c in body):
                    return False
            if s.startswith("float:"):
                body = s[6:]
                if float_text_ok(body) and repr(float(body)) != body:
                    return False
        if t[0] == "?":
            return False
    return True


def cv(t):
    k = t[0]
    if k == "s":
        return "(VStr %s)" % zlist(t[1].encode())
    if k == "i":
        return "(VInt %s)" % (t[1] if not t[1].startswith("-") else "(%s)" % t[1])
    if k == "f":
        return "(VFloat %s)" % zlist(str(float(t[1])).encode())
    if k == "b":
        return "(VBool %s)" % blit(t[1])
    if k == "n":
        return "VNone"
    raise ValueError(k)


def cps(st):
    return zlist([ord(c) for c in st])


def cjv(t):
    k = t[0]
    if k == "s":
        return "(JStr %s)" % cps(t[1])
    if k == "i":
        return "(JInt %s)" % (t[1] if not t[1].startswith("-") else "(%s)" % t[1])
    if k == "f":
        return "(JFloat %s)" % zlist(json.dumps(float(t[1])).encode())      # float.__repr__ / NaN / Infinity: CPython
    if k == "b":
        return "(JBool %s)" % blit(t[1])
    if k == "n":
        return "JNull"
    if k == "l":
        return "(JList %s)" % coqlist(cjv(x) for x in t[1])
    if k == "d":
        return "(JDict %s)" % coqlist("(%s, %s)" % (cps(a), cjv(b)) for a, b in t[1])
    raise ValueError(k)


def coq_codec(case, out):
    if not model_domain(case):
        return None
    cmd = zlist(case["cmd"].encode())
    line = zlist(out["line"].encode())
    if is_nested(case["kw"]):
        # the implementation switches to JSON mode only if it meets the list/dict before finishing the loop: always.
        # The model prints the JSON text itself from the value tree (Model.v jdumps); the observed text is the expectation.
        inp = "(CJsonT %s %s)" % (cmd, coqlist("(%s, %s)" % (cps(k), cjv(t)) for k, t in case["kw"]))
        exp = "(Some (DJson %s %s))" % (zlist(out.get("cmd", "").encode()), zlist(out["jsontext"].encode()))
        # decoded payload text is compared through json.loads equality by the oracle; here: glue only
        return "(%s, (%s, %s))" % (inp, line, exp)
    okf = []
    for k, t in case["kw"]:
        if t[0] == "f":
            okf.append(str(float(t[1])))
        if t[0] == "s" and t[1].startswith("float:") and float_text_ok(t[1][6:]):
            okf.append(t[1][6:])
    inp = "(CKw %s %s %s)" % (coqlist(zlist(x.encode()) for x in okf), cmd,
                              coqlist("(%s,%s)" % (zlist(k.encode()), cv(t)) for k, t in case["kw"]))
    if case["kw"] and case["kw"][0][0] == "json":
        # recorded defect first-key-json: the model says "JSON form"; what json.loads makes of the text is not modelled
        exp = "(Some (DJson %s %s))" % (cmd, zlist(out["line"].encode()[len(case["cmd"].encode()) + 6:]))
    elif "error" in out:
        exp = "(@None decoded)"
    else:
        exp = "(Some (DKw %s %s))" % (zlist(out["cmd"].encode()),
                                      coqlist("(%s, DVal %s)" % (zlist(k.encode()), cv(t)) for k, t in out["kw"]))
    return "(%s, (%s, %s))" % (inp, line, exp)


def canon(t):
    """type-exact canonical form (nan == nan, 1 != 1.0 != True)"""
    return json.dumps(t, sort_keys=False)


def looks_typed(s):
    return (s.startswith("int:") or s.startswith("float:") or s.lower() in ("bool:true", "bool:false")
            or s == "NoneType:")


def oracle_codec(case, out):
    fails = []
    if "\n" in out["line"]:
        fails.append({"sig": "newline-in-line", "what": "encoded message contains a raw newline"})
    st = out.get("state")
    if st and (st["same_obj"] or st["shared_inner"] or not st["equal2"] or not st["equal3"]):
        fails.append({"sig": "decode-stateful",
                      "what": "decode_command_string is not a function of the line: repeated calls on %r return %s" %
                              (out["line"], "the same / shared mutable objects" if (st["same_obj"] or st["shared_inner"])
                               else "different values") + " (%r)" % st})
    want_cmd, want = case["cmd"], case["kw"]
    nested = is_nested(want)
    if "error" not in out and "notdict" not in out and out.get("cmd") == want_cmd and \
            [(k, canon(t)) for k, t in out["kw"]] == [(k, canon(t)) for k, t in want]:
        return fails
    # classify the failure precisely: is it exactly what a recorded defect produces?
    if not nested and want and want[0][0] == "json":
        fails.append({"sig": "first-key-json", "what": "first parameter named 'json' is taken for the JSON form"})
        return fails
    if not nested:
        sim = defect_sim(want)
        if sim != want:
            if (sim == "error" and "error" in out) or \
                    (sim != "error" and "error" not in out and "notdict" not in out and out.get("cmd") == want_cmd and
                     [(k, canon(t)) for k, t in out["kw"]] == [(k, canon(t)) for k, t in sim]):
                fails.append({"sig": "str-looks-typed",
                              "what": "a string parameter that looks like a typed value (int:/float:/bool:/NoneType:) "
                                      "does not come back as the same string"})
                return fails
    fails.append({"sig": "roundtrip-other", "what": "decode(encode(cmd, kw)) != (cmd, kw): %r -> %r" %
                                                    (case, {k: out.get(k) for k in ("cmd", "kw", "error")})})
    return fails


def defect_sim(want):
    """what the recorded prefix-ambiguity defect turns the parameters into (nothing else may differ)"""
    res = []
    for k, t in want:
        if t[0] == "s":
            s = t[1]
            try:
                if s.startswith("int:"):
                    t = tagv(int(s[4:]))
                elif s.startswith("float:"):
                    t = tagv(float(s[6:]))
                elif s.lower() == "bool:true":
                    t = tagv(True)
                elif s.lower() == "bool:false":
                    t = tagv(False)
                elif s == "NoneType:":
                    t = tagv(None)
            except ValueError:
                return "error"
        res.append([k, t])
    return res


def shrink_codec(case):
    kw = case["kw"]
    for i in range(len(kw)):
        yield {"cmd": case["cmd"], "kw": kw[:i] + kw[i + 1:]}
    for i, (k, t) in enumerate(kw):
        if t[0] == "s" and len(t[1]) > 1:
            for j in range(len(t[1])):
                yield {"cmd": case["cmd"], "kw": kw[:i] + [[k, ["s", t[1][:j] + t[1][j + 1:]]]] + kw[i + 1:]}
        if len(k) > 1:
            yield {"cmd": case["cmd"], "kw": kw[:i] + [[k[:1], t]] + kw[i + 1:]}
    if len(case["cmd"]) > 1:
        yield {"cmd": "x", "kw": kw}


def nontrivial_codec(case, out):
    return any(t[0] != "s" or any(not (c.isalnum() and c.isascii()) for c in t[1]) for _, t in case["kw"])


def describe_codec(case):
    kinds = sorted(set(t[0] for _, t in case["kw"]))
    return "n=%d kinds=%s" % (len(case["kw"]), "".join(kinds))


# ------------------------------------------------------------------------------------------------
# reader
def gen_reader(rng, tier, i):
    from mpf.core.bcp.bcp_socket_client import encode_command_string, decode_command_string
    msgs = []
    stream = b""
    for _ in range(rng.randint(1, 6)):
        c = gen_codec(rng, tier, 0)
        if rng.random() < 0.3:
            # nested/JSON form less often, and keep "&bytes=" out of JSON strings except rarely
            pass
        kwargs = {k: untag(t) for k, t in c["kw"]}
        if not is_nested(c["kw"]):
            pass
        elif rng.random() < 0.9 and "&bytes=" in json.dumps(kwargs):
            continue
        try:
            line = encode_command_string(c["cmd"], **kwargs).encode()
            if rng.random() < 0.95:
                decode_command_string(line.decode())    # mostly-valid stream: skip lines the decoder rejects
        except Exception:
            continue
        if b"\n" in line:
            continue
        payload = None
        r = rng.random()
        if r < 0.35:
            n = rng.choice([0, 1, 2, 5, 17, 64])
            payload = bytes(rng.choice([0, 10, 13, 38, 255, 65, rng.randrange(256)]) for _ in range(n))
            stream += line + b"&bytes=" + str(n).encode() + b"\n" + payload
        elif r < 0.40:
            # malformed length field
            junk = rng.choice([b"", b"x", b"-3", b"+2", b"1a", b"2&bytes=1"])
            stream += line + b"&bytes=" + junk + b"\n"
        else:
            stream += line + b"\n"
    if rng.random() < 0.15 and stream:
        # truncate: the tail is an incomplete message
        stream = stream[:rng.randrange(len(stream))]
    cuts = sorted(set(rng.randrange(len(stream) + 1) for _ in range(rng.choice([0, 1, 2, 4, 8, 30]))))
    if rng.random() < 0.1:
        cuts = list(range(1, len(stream)))          # single bytes
    chunks, prev = [], 0
    for c in cuts + [len(stream)]:
        if c > prev:
            chunks.append(list(stream[prev:c]))
            prev = c
    return {"chunks": chunks}


_impl = {}


def _reader_classes():
    from mpf.core.bcp import bcp_socket_client as m
    from unittest.mock import MagicMock
    return m, MagicMock


def feed_and_collect(chunks, which):
    m, MagicMock = _reader_classes()
    loop = asyncio.new_event_loop()
    try:
        reader = asyncio.StreamReader(loop=loop)
        seen = []
        state = {"dead": False, "decoded": []}
        if which == "asyncio":
            cli = m.AsyncioBcpClientSocket(MagicMock(), reader)
            orig = m.AsyncioBcpClientSocket._process_command

            def rec(message, rawbytes=None):
                seen.append([list(message), None if rawbytes is None else list(rawbytes)])
                try:
                    return orig(message, rawbytes)
                except Exception as e:
                    state["other"] = type(e).__name__
                    raise
            cli._process_command = rec
        else:
            machine = MagicMock()
            cli = m.BCPClientSocket(machine, "c", MagicMock())
            cli._receiver = reader
            cli._sender = MagicMock()
            cli._debug = False
            orig = cli._process_command

            def rec(message, rawbytes=None):
                seen.append([list(message), None if rawbytes is None else list(rawbytes)])
                try:
                    return orig(message, rawbytes)
                except Exception as e:
                    state["other"] = type(e).__name__
                    raise
            cli._process_command = rec

        async def pump():
            try:
                while True:
                    state["decoded"].append(await cli.read_message())
            except ValueError:
                state["dead"] = True
            except Exception as e:  # decode errors of a line (json, unicode) also end the reader
                state["dead"] = True
                state.setdefault("other", type(e).__name__)

        task = loop.create_task(pump())
        for ch in chunks:
            reader.feed_data(bytes(ch))
            for _ in range(3):
                loop.run_until_complete(asyncio.sleep(0))
        for _ in range(3):
            loop.run_until_complete(asyncio.sleep(0))
        if not task.done():
            task.cancel()
            try:
                loop.run_until_complete(task)
            except BaseException:
                pass
        return {"msgs": seen, "dead": state["dead"], "other": state.get("other"),
                "decoded": [[c, [[k, tagv(v) if not isinstance(v, bytes) else ["y", list(v)]] for k, v in kw.items()]
                             if isinstance(kw, dict) else repr(kw)]
                            for c, kw in state["decoded"]]}
    finally:
        loop.close()


def run_reader(case):
    a = feed_and_collect(case["chunks"], "asyncio")
    whole = [sum(case["chunks"], [])]
    b = feed_and_collect(whole, "asyncio")
    c = feed_and_collect(case["chunks"], "mpf")
    return {"split": a, "whole": b, "mpf": {"msgs": c["msgs"], "dead": c["dead"], "other": c["other"]}}


def coq_reader(case, out):
    o = out["split"]
    if o.get("other"):
        # a line that frames correctly but does not decode (e.g. invalid utf-8/JSON after corruption): the reader dies
        # in _process_command, which the framing model does not contain
        return None
    msgs = coqlist("(Msg %s %s)" % (zlist(l), opt(p, zlist)) for l, p in o["msgs"])
    return "((%s : list (list Z)), ((%s : list rmsg), %s))" % (coqlist(zlist(c) for c in case["chunks"]), msgs, blit(o["dead"]))


def oracle_reader(case, out):
    fails = []
    a, b, c = out["split"], out["whole"], out["mpf"]
    if a["msgs"] != b["msgs"] or a["dead"] != b["dead"] or a["decoded"] != b["decoded"]:
        fails.append({"sig": "chunking-dependent", "what": "messages differ between split and unsplit delivery"})
    if c["msgs"] != a["msgs"] or c["dead"] != a["dead"]:
        fails.append({"sig": "two-readers-differ", "what": "BCPClientSocket.read_message and AsyncioBcpClientSocket.read_message differ"})
    return fails


def shrink_reader(case):
    ch = case["chunks"]
    for i in range(len(ch)):
        if len(ch) > 1:
            j = i + 1 if i + 1 < len(ch) else i - 1
            lo, hi = min(i, j), max(i, j)
            yield {"chunks": ch[:lo] + [ch[lo] + ch[hi]] + ch[hi + 1:]}
    for i in range(len(ch)):
        if len(ch[i]) > 1:
            yield {"chunks": ch[:i] + [ch[i][:len(ch[i]) // 2]] + ch[i + 1:]}
            yield {"chunks": ch[:i] + [ch[i][len(ch[i]) // 2:]] + ch[i + 1:]}


def nontrivial_reader(case, out):
    return len(case["chunks"]) > 1 and len(out["split"]["msgs"]) >= 1


def describe_reader(case):
    n = len(case["chunks"])
    return "chunks=%s" % ("1" if n == 1 else "2-4" if n <= 4 else "5-16" if n <= 16 else ">16")


HDR_CODEC = "From C19 Require Import Model.\nDefinition run := codec_run.\nDefinition out_eqb := codec_out_eqb.\n"
HDR_READER = "From C19 Require Import Model.\nDefinition run := reader_run.\nDefinition out_eqb := reader_out_eqb.\n"

SUITES = [
    Suite("codec", gen_codec, run_codec, HDR_CODEC, coq_codec, oracle_codec, shrink_codec, nontrivial_codec,
          {"quick": 2000, "thorough": 80000}, describe=describe_codec, shard=500),
    Suite("reader", gen_reader, run_reader, HDR_READER, coq_reader, oracle_reader, shrink_reader, nontrivial_reader,
          {"quick": 600, "thorough": 30000}, describe=describe_reader, shard=150),
]


# ------------------------------------------------------------------------------------------------
# dispatch order: BcpTransportManager._receive_loop awaits each command's handler before reading the next
def gen_dispatch(rng, tier, i):
    n = rng.randint(2, 7)
    msgs = []
    for k in range(n):
        kind = rng.choice(["slow", "slow", "fast", "fast", "unknown"])
        msgs.append({"cmd": {"slow": "vslow", "fast": "vfast", "unknown": "vnope"}[kind], "id": k,
                     "delay8": rng.choice([0, 1, 2, 3, 8]) if kind == "slow" else 0})
    cuts = sorted(set(rng.randrange(1, 40 * n) for _ in range(rng.choice([0, 1, 2, 5]))))
    return {"msgs": msgs, "cuts": cuts}


_DISP = {}


def _dispatch_rig():
    if "rig" in _DISP:
        return _DISP["rig"]
    from rig import Rig
    from mpf.tests.loop import MockQueueSocket

    class Sock(MockQueueSocket):
        def send(self, data):
            if data == b'reset\n':
                self.recv_queue.append(b'reset_complete\n')
                return len(data)
            return super().send(data)

    def mock_loop(r):
        r.client_socket = Sock(r.loop)
        r.clock.mock_socket("localhost", 5050, r.client_socket)

    r = Rig({}, use_bcp=True, mock_loop=mock_loop, patches={"bcp": {"servers": []}})
    r.machine_config_patches["bcp"] = {"servers": []}
    r.start()
    log = []

    async def vslow(client, id, delay8, **kwargs):
        log.append(["start", id])
        await asyncio.sleep(delay8 / 8.0)
        log.append(["done", id])

    async def vfast(client, id, **kwargs):
        log.append(["start", id])
        log.append(["done", id])
    r.machine.bcp.interface.register_command_callback("vslow", vslow)
    r.machine.bcp.interface.register_command_callback("vfast", vfast)
    _DISP["rig"] = r
    _DISP["log"] = log
    return r


def run_dispatch(case):
    from mpf.core.bcp.bcp_socket_client import encode_command_string
    r = _dispatch_rig()
    log = _DISP["log"]
    del log[:]
    stream = b"".join((encode_command_string(m["cmd"], id=m["id"], delay8=m["delay8"]) + "\n").encode() for m in case["msgs"])
    prev = 0
    for c in [c for c in case["cuts"] if c < len(stream)] + [len(stream)]:
        if c > prev:
            r.client_socket.recv_queue.append(stream[prev:c])
            prev = c
    r.advance(10)
    return {"log": [list(x) for x in log]}


def coq_dispatch(case, out):
    inp = coqlist("(%s, %d)" % (blit(m["cmd"] != "vnope"), m["id"]) for m in case["msgs"])
    exp = coqlist("(%s, %d)" % (blit(k == "start"), i) for k, i in out["log"])
    return "((%s : list (bool * Z)), (%s : list (bool * Z)))" % (inp, exp)


def oracle_dispatch(case, out):
    want = []
    for m in case["msgs"]:
        if m["cmd"] != "vnope":
            want += [["start", m["id"]], ["done", m["id"]]]
    if out["log"] != want:
        return [{"sig": "dispatch-order", "what": "commands of one connection were not handled one after the other in the "
                                                  "order sent: %r" % out["log"]}]
    return []


def shrink_dispatch(case):
    ms = case["msgs"]
    for i in range(len(ms)):
        yield {"msgs": ms[:i] + ms[i + 1:], "cuts": case["cuts"]}
    if case["cuts"]:
        yield {"msgs": ms, "cuts": []}


HDR_DISPATCH = ("From C19 Require Import Model.\nDefinition run := dispatch_run.\n"
                "Definition out_eqb := list_eqb (fun a b : bool * Z => Bool.eqb (fst a) (fst b) && Z.eqb (snd a) (snd b)).\n")

SUITES.append(
    Suite("dispatch", gen_dispatch, run_dispatch, HDR_DISPATCH, coq_dispatch, oracle_dispatch, shrink_dispatch,
          lambda c, o: sum(1 for m in c["msgs"] if m["cmd"] == "vslow" and m["delay8"] > 0) >= 1,
          {"quick": 150, "thorough": 3000}, shard=200))


# ------------------------------------------------------------------------------------------------
# sessions: histories of messages through ONE long-lived client object per reader class.  The same lines recur,
# with and without payload; every delivered (cmd, kwargs) is compared with an expectation computed from that
# message alone.
SESSION_CMDS = ["trigger", "play", "x", "dmd_frame", "mode_start", "a1_b", "hello", "hello", "goodbye"]
SKEYS = [k for k in KEYS if k != "json"] + ["bytes", "name", "n"]
PAYLOADS = [[], [0], [10], [38, 98, 121, 116, 101, 115, 61, 51, 10], [120, 63, 97, 61, 49, 10], [255, 0, 13, 10, 10],
            list(range(17)), [65] * 64]


def clean_scalar(rng):
    while True:
        v = rscalar(rng)
        if isinstance(v, str) and looks_typed(v):
            continue
        return v


def clean_nested(rng, depth=0):
    r = rng.random()
    if depth > 2 or r < 0.5:
        return clean_scalar(rng) if depth == 0 else rscalar(rng)      # inside JSON a look-alike string is harmless
    if r < 0.75:
        return [clean_nested(rng, depth + 1) for _ in range(rng.randint(0, 3))]
    return {rstr(rng) or "k": clean_nested(rng, depth + 1) for _ in range(rng.randint(0, 3))}


def line_of(cmd, kw):
    """the text the message must have on the wire, computed without the implementation (for classification only)"""
    from urllib.parse import quote
    if is_nested(kw):
        return None
    parts = []
    for k, t in kw:
        v = untag(t)
        parts.append(quote(k, "") + "=" + ({"b": "bool:", "i": "int:", "f": "float:", "n": "NoneType:", "s": ""}[t[0]]) +
                     ("" if v is None else quote(str(v), "")))
    return cmd + ("?" + "&".join(parts) if parts else "")


def has_marker(cmd, kw):
    if is_nested(kw):
        return "&bytes=" in json.dumps({k: untag(t) for k, t in kw})
    return "&bytes=" in line_of(cmd, kw)


def gen_msg(rng, allow_marker=False):
    while True:
        cmd = rng.choice(SESSION_CMDS)
        if cmd == "goodbye":
            return {"cmd": cmd, "kw": [] if rng.random() < 0.8 else [["a", ["i", "1"]]]}
        n = rng.choice([0, 1, 1, 2, 2, 3, 4])
        keys = []
        while len(keys) < n:
            k = rng.choice(SKEYS) if rng.random() < 0.85 else rstr(rng)
            if k not in keys and k != "rawbytes" and not (not keys and k == "json"):
                keys.append(k)
        nested = rng.random() < 0.2
        kw = [[k, tagv(clean_nested(rng) if nested else clean_scalar(rng))] for k in keys]
        if has_marker(cmd, kw) and not allow_marker:
            continue
        return {"cmd": cmd, "kw": kw}


def gen_session(rng, tier, i):
    allow = rng.random() < 0.04
    pool = [gen_msg(rng, allow) for _ in range(rng.randint(1, 4))]
    pays = [None, None, None] + [rng.choice(PAYLOADS) for _ in range(2)] + \
           [[rng.randrange(256) for _ in range(rng.choice([1, 3, 9]))]]
    msgs = []
    for _ in range(rng.randint(2, 12)):
        m = rng.choice(pool)
        pl = rng.choice(pays)
        if m["cmd"] == "goodbye" and rng.random() < 0.9:
            pl = None
        msgs.append({"cmd": m["cmd"], "kw": m["kw"], "payload": pl})
    k = rng.choice([0, 1, 2, 4, 8, 30])
    cuts = sorted(set(rng.randrange(0, 40 * len(msgs)) for _ in range(k)))
    if rng.random() < 0.08:
        cuts = "bytes"
    return {"msgs": msgs, "cuts": cuts, "debug": rng.random() < 0.5}


class _Cap:
    """a StreamWriter stand-in: records what send() writes"""
    def __init__(self):
        self.data = []
        self.transport = object()
        self.closed = 0

    def write(self, b):
        self.data.append(bytes(b))

    def close(self):
        self.closed += 1


def _mk_client(which, reader, debug):
    m, MagicMock = _reader_classes()
    cap = _Cap()
    if which == "asyncio":
        cli = m.AsyncioBcpClientSocket(cap, reader)
    else:
        cli = m.BCPClientSocket(MagicMock(), "c", MagicMock())
        cli._receiver = reader
        cli._sender = cap
        cli._debug = bool(debug)
        cli._debug_to_file = bool(debug)
    return cli, cap


def wire_stream(msgs, lines):
    st = b""
    for m, l in zip(msgs, lines):
        if m["payload"] is None:
            st += l
        else:
            st += l[:-1] + b"&bytes=" + str(len(m["payload"])).encode() + b"\n" + bytes(m["payload"])
    return st


def chunks_of(stream, cuts):
    if cuts == "bytes":
        cuts = list(range(1, len(stream)))
    out, prev = [], 0
    for c in [c for c in cuts if c < len(stream)] + [len(stream)]:
        if c > prev:
            out.append(stream[prev:c])
            prev = c
    return out


def tag_delivered(cmd, kw):
    if not isinstance(kw, dict):
        return {"cmd": cmd, "notdict": repr(kw)}
    d = {"cmd": cmd, "kw": [], "raw": None}
    plain = {}
    for k, v in kw.items():
        if k == "rawbytes" and isinstance(v, (bytes, bytearray)):
            d["raw"] = list(v)
        else:
            d["kw"].append([k, tagv(v)])
            plain[k] = v
    if is_nested(d["kw"]):
        from mpf.core.bcp.bcp_socket_client import MpfJSONEncoder
        d["jsontext"] = json.dumps(plain, cls=MpfJSONEncoder)
    return d


def read_session(which, chunks, debug):
    """one client object for the whole history; returns what read_message handed out, message by message"""
    loop = asyncio.new_event_loop()
    try:
        reader = asyncio.StreamReader(loop=loop)
        cli, cap = _mk_client(which, reader, debug)
        got, objs = [], []
        state = {"dead": False, "err": None}

        async def pump():
            try:
                while True:
                    cmd, kw = await cli.read_message()
                    got.append(tag_delivered(cmd, kw))      # snapshot at delivery time
                    objs.append(kw)
            except asyncio.CancelledError:
                raise
            except Exception as e:
                state["dead"] = True
                state["err"] = type(e).__name__

        task = loop.create_task(pump())
        for ch in chunks:
            reader.feed_data(bytes(ch))
            for _ in range(3):
                loop.run_until_complete(asyncio.sleep(0))
        for _ in range(3):
            loop.run_until_complete(asyncio.sleep(0))
        if not task.done():
            task.cancel()
            try:
                loop.run_until_complete(task)
            except BaseException:
                pass
        # the delivered objects belong to their receivers: distinct, and unchanged by later messages
        alias = len({id(o) for o in objs if isinstance(o, (dict, list))}) != len([o for o in objs if isinstance(o, (dict, list))])
        later = [tag_delivered(g["cmd"], o) for g, o in zip(got, objs)]
        return {"got": got, "dead": state["dead"], "err": state["err"], "aliased": alias, "changed_later": later != got,
                "closed": cap.closed}
    finally:
        loop.close()


@isolated
def run_session(case):
    msgs = case["msgs"]
    sent = {}
    for which in ("asyncio", "mpf"):
        cli, cap = _mk_client(which, None, case.get("debug"))
        for m in msgs:
            cli.send(m["cmd"], {k: untag(t) for k, t in m["kw"]})
        sent[which] = [list(b) for b in cap.data]
    out = {"sent": sent["asyncio"], "sent_mpf": sent["mpf"] if sent["mpf"] != sent["asyncio"] else "same"}
    if len(sent["asyncio"]) != len(msgs):
        out["sent_count"] = len(sent["asyncio"])
        return out
    stream = wire_stream(msgs, [bytes(b) for b in sent["asyncio"]])
    chunks = chunks_of(stream, case["cuts"])
    out["lens"] = [len(c) for c in chunks[:-1]]
    out["asyncio"] = read_session("asyncio", chunks, False)
    out["mpf"] = read_session("mpf", chunks, case.get("debug"))
    out["jsontexts"] = [json.dumps({k: untag(t) for k, t in m["kw"]},
                                   cls=__import__("mpf.core.bcp.bcp_socket_client", fromlist=["x"]).MpfJSONEncoder)
                        if is_nested(m["kw"]) else None for m in msgs]
    return out


def expected_session(msgs, which):
    """per-message expectation, computed from each message alone.  Returns (delivered list, dead, precise)"""
    exp = []
    for m in msgs:
        if has_marker(m["cmd"], m["kw"]):
            return exp, None, "marker"                    # recorded defect marker-in-line: framing is lost from here on
        raw = m["payload"] if m["payload"] else None
        if which == "mpf" and m["cmd"] == "hello":
            continue
        if which == "mpf" and m["cmd"] == "goodbye":
            if m["kw"] or raw:
                return exp, True, "goodbye-args"          # the peer broke the protocol: _receive_goodbye() takes no arguments
            continue
        exp.append({"cmd": m["cmd"], "kw": [[k, canon(t)] for k, t in m["kw"]], "raw": raw})
    return exp, False, None


def canon_got(g):
    if "notdict" in g:
        return g
    return {"cmd": g["cmd"], "kw": [[k, canon(t)] for k, t in g["kw"]], "raw": g["raw"]}


def oracle_session(case, out):
    fails = []
    msgs = case["msgs"]
    if "sent_count" in out:
        return [{"sig": "send-dropped", "what": "send() wrote %d messages for %d calls" % (out["sent_count"], len(msgs))}]
    if out["sent_mpf"] != "same":
        fails.append({"sig": "two-senders-differ", "what": "BCPClientSocket.send and AsyncioBcpClientSocket.send wrote different bytes"})
    for b in out["sent"]:
        if b.count(10) != 1 or b[-1] != 10:
            fails.append({"sig": "send-not-one-line", "what": "send() did not write exactly one newline-terminated line: %r" % bytes(b)})
            break
    for which in ("asyncio", "mpf"):
        o = out[which]
        exp, dead, special = expected_session(msgs, which)
        got = [canon_got(g) for g in o["got"]]
        if o["aliased"] or o["changed_later"]:
            fails.append({"sig": "delivered-aliased", "what": "%s reader: kwargs objects handed out for different messages are "
                          "the same object / changed after delivery" % which})
        if special == "marker":
            if got[:len(exp)] == exp and got != _full_expect(msgs, which):
                fails.append({"sig": "marker-in-line", "what": "a message whose line contains '&bytes=' (parameter named 'bytes' "
                              "after the first one, or a nested string containing the marker) destroys the framing"})
            elif got[:len(exp)] != exp:
                fails.append({"sig": "session-delivery", "what": "%s reader: messages before the first marker-in-line message "
                              "differ: got %r want %r" % (which, got[:len(exp)], exp)})
            continue
        if got != exp or bool(o["dead"]) != bool(dead):
            i = next((j for j in range(min(len(got), len(exp))) if got[j] != exp[j]), min(len(got), len(exp)))
            fails.append({"sig": "session-delivery",
                          "what": "%s reader, one connection: delivered message #%d is %r, expected %r (delivered %d of %d, dead=%r "
                                  "err=%r)" % (which, i, got[i] if i < len(got) else None, exp[i] if i < len(exp) else None,
                                               len(got), len(exp), o["dead"], o["err"])})
    return fails


def _full_expect(msgs, which):
    exp = []
    for m in msgs:
        if which == "mpf" and m["cmd"] in ("hello", "goodbye"):
            continue
        exp.append({"cmd": m["cmd"], "kw": [[k, canon(t)] for k, t in m["kw"]], "raw": m["payload"] if m["payload"] else None})
    return exp


def cdelivered(g):
    pl = opt(g["raw"], zlist)
    if "jsontext" in g:
        return "(Dl (DJson %s %s) %s)" % (zlist(g["cmd"].encode()), zlist(g["jsontext"].encode()), pl)
    return "(Dl (DKw %s %s) %s)" % (zlist(g["cmd"].encode()),
                                    coqlist("(%s, DVal %s)" % (zlist(k.encode()), cv(t)) for k, t in g["kw"]), pl)


def csmsg(m, jsontext):
    body = "(SJson %s)" % zlist(jsontext.encode()) if jsontext is not None else \
        "(SFlat %s)" % coqlist("(%s,%s)" % (zlist(k.encode()), cv(t)) for k, t in m["kw"])
    return "(SM %s %s %s)" % (zlist(m["cmd"].encode()), body, opt(m["payload"], zlist))


def okfloats(msgs):
    okf = []
    for m in msgs:
        for k, t in m["kw"]:
            if t[0] == "f":
                okf.append(str(float(t[1])))
    return "(%s : list (list Z))" % coqlist(zlist(x.encode()) for x in sorted(set(okf)))


def session_in_domain(case, out):
    if "sent_count" in out:
        return False
    for which in ("asyncio", "mpf"):
        for g in out[which]["got"]:
            if "notdict" in g or any(t[0] == "?" for _, t in g["kw"]):
                return False
        if out[which]["err"] not in (None, "ValueError", "TypeError"):
            return False
    return True


def coq_session(case, out):
    if not session_in_domain(case, out):
        return None
    msgs = case["msgs"]
    inp = "(%s, (%s : list smsg), (%s : list Z))" % (okfloats(msgs), coqlist(csmsg(m, j) for m, j in zip(msgs, out["jsontexts"])),
                                                     zlist(out["lens"]))

    def res(o):
        return "((%s : list delivered), %s)" % (coqlist(cdelivered(g) for g in o["got"]), blit(o["dead"]))
    exp = "((%s : list (list Z)), (%s, %s))" % (coqlist(zlist(b) for b in out["sent"]), res(out["asyncio"]), res(out["mpf"]))
    return "(%s, %s)" % (inp, exp)


def shrink_session(case):
    ms = case["msgs"]
    for i in range(len(ms)):
        yield dict(case, msgs=ms[:i] + ms[i + 1:])
    if case["cuts"]:
        yield dict(case, cuts=[])
        if case["cuts"] != "bytes":
            for i in range(len(case["cuts"])):
                yield dict(case, cuts=case["cuts"][:i] + case["cuts"][i + 1:])
    for i, m in enumerate(ms):
        if m["payload"]:
            yield dict(case, msgs=ms[:i] + [dict(m, payload=m["payload"][:1])] + ms[i + 1:])
        for j in range(len(m["kw"])):
            # the same reduction on every copy of the message keeps recurring lines recurring
            kw2 = m["kw"][:j] + m["kw"][j + 1:]
            yield dict(case, msgs=[dict(x, kw=kw2) if x["kw"] == m["kw"] and x["cmd"] == m["cmd"] else x for x in ms])


def nontrivial_session(case, out):
    seen = {}
    for m in case["msgs"]:
        seen.setdefault(json.dumps([m["cmd"], m["kw"]]), set()).add(bool(m["payload"]))
    return any(len(v) == 2 for v in seen.values()) and len(out.get("lens", [])) >= 1


def describe_session(case):
    n = len(case["msgs"])
    rec = n - len({json.dumps([m["cmd"], m["kw"]]) for m in case["msgs"]})
    return "msgs=%s recurring=%s" % ("2-4" if n <= 4 else "5-8" if n <= 8 else "9-12", "0" if rec == 0 else "1-3" if rec <= 3 else ">3")


HDR_SESSION = "From C19 Require Import Model.\nDefinition run := session_e2e.\nDefinition out_eqb := sess_out_eqb.\n"

SUITES.append(
    Suite("session", gen_session, run_session, HDR_SESSION, coq_session, oracle_session, shrink_session, nontrivial_session,
          {"quick": 400, "thorough": 16000}, describe=describe_session, shard=100))


# ------------------------------------------------------------------------------------------------
# reader -> BcpTransportManager._receive_loop -> BcpInterface.process_bcp_message -> registered handler, in a real machine,
# under the configuration switches that alter that path (connection made by MPF / accepted by the BCP server; logging of
# bcp_interface and bcp_client: none / basic / full to console or file), and the way back: an event a client registered
# for (register_trigger) -> BcpInterface.bcp_trigger -> transport manager -> BCPClientSocket.send -> socket.
HANDLER_CONFIGS = [
    {"name": "connect/basic", "server": False, "logging": None},
    {"name": "connect/file-full", "server": False,
     "logging": {"console": {"bcp_interface": "basic", "bcp_client": "basic"}, "file": {"bcp_interface": "full", "bcp_client": "full"}}},
    {"name": "server/console-full", "server": True,
     "logging": {"console": {"bcp_interface": "full", "bcp_client": "full"}, "file": {"bcp_interface": "basic", "bcp_client": "none"}}},
    {"name": "server/none", "server": True,
     "logging": {"console": {"bcp_interface": "none", "bcp_client": "none"}, "file": {"bcp_interface": "none", "bcp_client": "none"}}},
]
REGISTERED = ["vh_a", "vh_b"]
HANDLER_CMDS = ["vh_a", "vh_a", "vh_b", "vnope", "hello"]
OUT_EVENTS = ["verif_out_a", "verif_out_b"]
IN_EVENTS = ["verif_in_a", "verif_in_b"]             # events the harness listens to; verif_in_none has no handler
PKEYS = [k for k in SKEYS if k not in ("name", "bytes", "", "int:")] + ["value"]


def gen_handler(rng, tier, i):
    pool = []
    while len(pool) < rng.randint(1, 3):
        m = gen_msg(rng)
        if m["cmd"] == "goodbye":
            continue
        if rng.random() < 0.3:
            # the built-in trigger command: name first, flat parameters (no 'callback': _bcp_receive_trigger pops it twice)
            kw = [kv for kv in m["kw"] if kv[0] in PKEYS and kv[0] != "value"]
            if is_nested(kw):
                continue
            pool.append({"cmd": "trigger", "kw": [["name", ["s", rng.choice(IN_EVENTS + ["verif_in_none"])]]] + kw})
            continue
        pool.append({"cmd": rng.choice(HANDLER_CMDS), "kw": [kv for kv in m["kw"] if kv[0] != "client"]})
    pays = [None, None] + [rng.choice(PAYLOADS) for _ in range(2)] + [[rng.randrange(256) for _ in range(rng.choice([1, 5, 300]))]]
    msgs = []
    for _ in range(rng.randint(2, 8)):
        m = rng.choice(pool)
        msgs.append({"cmd": m["cmd"], "kw": m["kw"], "payload": rng.choice(pays)})
    cuts = sorted(set(rng.randrange(0, 40 * len(msgs)) for _ in range(rng.choice([0, 1, 2, 4, 8]))))
    posts = []
    for _ in range(rng.choice([0, 1, 1, 2, 3])):
        while True:
            n = rng.choice([0, 1, 2, 3])
            keys = []
            while len(keys) < n:
                k = rng.choice(PKEYS)
                if k not in keys:
                    keys.append(k)
            nested = rng.random() < 0.2
            kw = [[k, tagv(clean_nested(rng) if nested else clean_scalar(rng))] for k in keys]
            ev = rng.choice(OUT_EVENTS)
            if not has_marker("trigger", [["name", ["s", ev]]] + kw):
                break
        posts.append({"event": ev, "kw": kw})
    return {"config": rng.randrange(len(HANDLER_CONFIGS)), "msgs": msgs, "cuts": cuts, "posts": posts}


_HR = {}


class _LogSink(__import__("logging").Handler):
    """debug records are really formatted (so that whatever the logging branch does to its arguments happens)"""
    def emit(self, record):
        try:
            _HR["last_log"] = record.getMessage()[:200]
        except Exception as e:   # noqa
            _HR["log_error"] = "%s: %s" % (type(e).__name__, e)


def _handler_rig(ci):
    if ci in _HR:
        return _HR[ci]
    import logging
    from rig import Rig
    from mpf.tests.loop import MockQueueSocket, MockServer
    cfg = HANDLER_CONFIGS[ci]

    class Sock(MockQueueSocket):
        def send(self, data):
            if data == b'reset\n':
                self.recv_queue.append(b'reset_complete\n')
                return len(data)
            return super().send(data)

    def mock_loop(r):
        if cfg["server"]:
            r.mock_server = MockServer(r.clock.loop)
            r.clock.mock_server("127.0.0.1", 5051, r.mock_server)
        else:
            r.client_socket = Sock(r.loop)
            r.clock.mock_socket("localhost", 5050, r.client_socket)

    patches = {"bcp": {"connections": []} if cfg["server"] else {"servers": []}}
    if cfg["logging"]:
        patches["logging"] = cfg["logging"]
    r = Rig({}, use_bcp=True, mock_loop=mock_loop, patches=patches)
    if cfg["server"]:
        del r.machine_config_patches["bcp"]
        r.machine_config_patches["bcp"] = {"connections": []}
    else:
        r.machine_config_patches["bcp"] = {"servers": []}
    r.start()
    if cfg["server"]:
        r.client_socket = Sock(r.loop)
        r.machine.clock.loop.run_until_complete(r.mock_server.add_client(r.client_socket))
        r.advance(1)
    if cfg["logging"]:
        for name in ("BcpInterface", "BCPClientSocket"):
            lg = logging.getLogger(name)
            lg.setLevel(1)
            lg.propagate = False
            lg.addHandler(_LogSink())
    log = []

    def mk(cmd):
        async def handler(client, **kwargs):
            log.append((cmd, kwargs))
        return handler
    for cmd in REGISTERED + ["vh_sync"]:
        r.machine.bcp.interface.register_command_callback(cmd, mk(cmd))

    def mke(ev):
        def on_event(**kwargs):
            log.append(("event:" + ev, kwargs))
        return on_event
    for ev in IN_EVENTS:
        r.machine.events.add_handler(ev, mke(ev))
    for ev in OUT_EVENTS:
        r.client_socket.recv_queue.append(("register_trigger?event=%s\n" % ev).encode())
    r.advance(1)
    _drain(r)
    r._verif_log = log
    r._verif_sync = 0
    _HR[ci] = r
    return r


def _drain(r):
    out = []
    q = r.client_socket.send_queue
    while not q.empty():
        out.append(q.get_nowait())
    return b"".join(out)


def _sync(r):
    """the connection is at a message boundary and alive: a sentinel command arrives, alone"""
    r._verif_sync += 1
    del r._verif_log[:]
    r.client_socket.recv_queue.append(("vh_sync?id=int:%d\n" % r._verif_sync).encode())
    r.advance(1)
    ok = len(r._verif_log) == 1 and r._verif_log[0][0] == "vh_sync" and r._verif_log[0][1] == {"id": r._verif_sync}
    del r._verif_log[:]
    return ok


def run_handler(case):
    from mpf.core.bcp.bcp_socket_client import encode_command_string, MpfJSONEncoder
    ci = case["config"]
    r = None
    for attempt in range(2):
        try:
            r = _handler_rig(ci)
            if _sync(r) and r.exception() is None:
                break
        except Exception:   # noqa
            pass
        # a previous case left this connection broken (only happens on a changed implementation): start afresh
        old = _HR.pop(ci, None)
        if old is not None:
            old.stop()
        r = None
    if r is None:
        return {"setup_failed": True}
    msgs = case["msgs"]
    lines = [(encode_command_string(m["cmd"], **{k: untag(t) for k, t in m["kw"]}) + "\n").encode() for m in msgs]
    stream = wire_stream(msgs, lines)
    _drain(r)
    out = {"config": HANDLER_CONFIGS[ci]["name"]}
    try:
        for ch in chunks_of(stream, case["cuts"]):
            r.client_socket.recv_queue.append(ch)
        r.advance(2)
        got = [tag_delivered(c, kw) for c, kw in r._verif_log]
        objs = [kw for _, kw in r._verif_log]
        out["got"] = got
        out["aliased"] = len({id(o) for o in objs}) != len(objs)
        out["replies"] = list(_drain(r))
        sent = []
        for p in case["posts"]:
            r.machine.events.post(p["event"], **{k: untag(t) for k, t in p["kw"]})
            r.advance(0.5)
            sent.append(list(_drain(r)))
        out["sent"] = sent
        out["alive"] = _sync(r)
        exc = r.exception()
        out["exception"] = None if exc is None else repr(exc)[:300]
    except Exception as e:   # noqa  (the rig re-raises what the machine's loop caught)
        out["exception"] = "%s: %s" % (type(e).__name__, str(e)[:300])
        out.setdefault("got", [])
        out.setdefault("sent", [])
        out["alive"] = False
    if out.get("exception") or not out.get("alive"):
        old = _HR.pop(ci, None)
        if old is not None:
            old.stop()
    out["jsontexts"] = [json.dumps({k: untag(t) for k, t in m["kw"]}, cls=MpfJSONEncoder) if is_nested(m["kw"]) else None
                        for m in msgs]
    out["post_jsontexts"] = [json.dumps(dict([("name", p["event"])] + [(k, untag(t)) for k, t in p["kw"]]), cls=MpfJSONEncoder)
                             if is_nested(p["kw"]) else None for p in case["posts"]]
    stream_len = len(stream)
    out["lens"] = [len(c) for c in chunks_of(stream, case["cuts"])[:-1]]
    return out


def oracle_handler(case, out):
    from mpf.core.bcp.bcp_socket_client import decode_command_string
    if out.get("setup_failed"):
        return [{"sig": "handler-path-dead", "what": "the BCP connection of a freshly booted machine does not deliver a command"}]
    fails = []
    cfg = out["config"]
    exp = []
    for m in case["msgs"]:
        raw = m["payload"] if m["payload"] else None
        if m["cmd"] in REGISTERED:
            exp.append({"cmd": m["cmd"], "kw": [[k, canon(t)] for k, t in m["kw"]], "raw": raw})
        elif m["cmd"] == "trigger" and m["kw"][0][1][1] in IN_EVENTS:
            # the event is posted with the parameters sent (minus name), the payload, and the loop guard _from_bcp
            exp.append({"cmd": "event:" + m["kw"][0][1][1],
                        "kw": [[k, canon(t)] for k, t in m["kw"][1:]] + [["_from_bcp", canon(["b", True])]], "raw": raw})
    # commands are dispatched in the order sent; events posted for 'trigger' are handled by the event queue (FIFO among
    # events, but possibly after the callback of a later command): two ordered logs
    for kind, sel in (("command callback", lambda g: not g["cmd"].startswith("event:")),
                      ("trigger event", lambda g: g["cmd"].startswith("event:"))):
        got = [canon_got(g) for g in out["got"] if sel(g)]
        want = [e for e in exp if sel(e)]
        if got != want:
            i = next((j for j in range(min(len(got), len(want))) if got[j] != want[j]), min(len(got), len(want)))
            fails.append({"sig": "handler-delivery",
                          "what": "config %s: %s #%d got %r, the message sent was %r (%d of %d calls)" %
                                  (cfg, kind, i, got[i] if i < len(got) else None, want[i] if i < len(want) else None,
                                   len(got), len(want))})
            break
    if out.get("aliased"):
        fails.append({"sig": "delivered-aliased", "what": "config %s: handlers of different messages got the same kwargs object" % cfg})
    if out.get("exception") or not out.get("alive"):
        fails.append({"sig": "handler-path-dead", "what": "config %s: the connection died or the machine raised: %r" %
                                                          (cfg, out.get("exception"))})
    if out.get("replies"):
        fails.append({"sig": "handler-unexpected-reply", "what": "config %s: MPF answered %r" % (cfg, bytes(out["replies"]))})
    for p, b in zip(case["posts"], out["sent"]):
        want = ("trigger", [["name", canon(["s", p["event"]])]] + [[k, canon(t)] for k, t in p["kw"]])
        b = bytes(b)
        ok = b.count(b"\n") == 1 and b.endswith(b"\n")
        if ok:
            try:
                cmd, kw = decode_command_string(b[:-1].decode())
                ok = isinstance(kw, dict) and (cmd, [[k, canon(tagv(v))] for k, v in kw.items()]) == want
            except Exception:   # noqa
                ok = False
        if not ok:
            fails.append({"sig": "trigger-send", "what": "config %s: event %r posted with %r reached the registered client as %r" %
                                                         (cfg, p["event"], p["kw"], b)})
            break
    if len(out["sent"]) != len(case["posts"]) and not out.get("exception"):
        fails.append({"sig": "trigger-send", "what": "config %s: %d posts, %d sends" % (cfg, len(case["posts"]), len(out["sent"]))})
    return fails


def coq_handler(case, out):
    if out.get("setup_failed") or any("notdict" in g or any(t[0] == "?" for _, t in g["kw"]) for g in out["got"]):
        return None
    msgs = case["msgs"]
    posts = [{"cmd": "trigger", "kw": [["name", ["s", p["event"]]]] + p["kw"], "payload": None} for p in case["posts"]]
    inp = "(%s, (%s, %s), (%s : list smsg), (%s : list Z), (%s : list smsg))" % (okfloats(msgs), coqlist(zlist(c.encode()) for c in REGISTERED),
                                          coqlist(zlist(c.encode()) for c in IN_EVENTS),
                                          coqlist(csmsg(m, j) for m, j in zip(msgs, out["jsontexts"])), zlist(out["lens"]),
                                          coqlist(csmsg(m, j) for m, j in zip(posts, out["post_jsontexts"])))
    dead = bool(out.get("exception")) or not out.get("alive")

    def chev(g):
        if g["cmd"].startswith("event:"):
            if "jsontext" in g:
                raise ValueError("nested event parameters")
            return "(HEvent %s %s %s)" % (zlist(g["cmd"][6:].encode()),
                                          coqlist("(%s, DVal %s)" % (zlist(k.encode()), cv(t)) for k, t in g["kw"]),
                                          opt(g["raw"], zlist))
        return "(HCall %s)" % cdelivered(g)
    exp = "((((%s : list hevent), (%s : list hevent)), %s), (%s : list (list Z)))" % (coqlist(chev(g) for g in out["got"] if not g["cmd"].startswith("event:")),
                                    coqlist(chev(g) for g in out["got"] if g["cmd"].startswith("event:")),
                                    blit(dead), coqlist(zlist(b) for b in out["sent"]))
    return "(%s, %s)" % (inp, exp)


def shrink_handler(case):
    ms = case["msgs"]
    for i in range(len(ms)):
        yield dict(case, msgs=ms[:i] + ms[i + 1:])
    for i in range(len(case["posts"])):
        yield dict(case, posts=case["posts"][:i] + case["posts"][i + 1:])
    if case["cuts"]:
        yield dict(case, cuts=[])
    for i, m in enumerate(ms):
        if m["payload"] and len(m["payload"]) > 1:
            yield dict(case, msgs=ms[:i] + [dict(m, payload=m["payload"][:1])] + ms[i + 1:])
        for j in range(len(m["kw"])):
            kw2 = m["kw"][:j] + m["kw"][j + 1:]
            yield dict(case, msgs=[dict(x, kw=kw2) if x["kw"] == m["kw"] and x["cmd"] == m["cmd"] else x for x in ms])
    for i, p in enumerate(case["posts"]):
        for j in range(len(p["kw"])):
            yield dict(case, posts=case["posts"][:i] + [dict(p, kw=p["kw"][:j] + p["kw"][j + 1:])] + case["posts"][i + 1:])


HDR_HANDLER = "From C19 Require Import Model.\nDefinition run := handler_run.\nDefinition out_eqb := handler_out_eqb.\n"

SUITES.append(
    Suite("handler", gen_handler, run_handler, HDR_HANDLER, coq_handler, oracle_handler, shrink_handler,
          lambda c, o: any(m["payload"] and (m["cmd"] in REGISTERED or m["cmd"] == "trigger") for m in c["msgs"]),
          {"quick": 120, "thorough": 3000}, describe=lambda c: HANDLER_CONFIGS[c["config"]]["name"], shard=30, case_timeout=120))


# ------------------------------------------------------------------------------------------------
# bcp_pickle_client.py (anchored file): length-prefixed pickles (framing modelled: Model.v pk_frame/pkfeed; the pickles are
# opaque byte strings observed at pickle.dumps / pickle.loads).
# On the unpatched tree every send()/read_message() raises TypeError (pickle.dump/pickle.load instead of dumps/loads):
# recorded finding pickle-client-broken, repaired by fixes/C19-pickle-client-loads-dumps.patch.
def gen_pickle(rng, tier, i):
    msgs = []
    for _ in range(rng.randint(1, 5)):
        c = gen_codec(rng, tier, 0)
        if rng.random() < 0.3:
            c["kw"].append(["rawbytes", ["y", [rng.randrange(256) for _ in range(rng.choice([0, 1, 7, 100]))]]])
        msgs.append(c)
    return {"msgs": msgs, "cuts": sorted(set(rng.randrange(0, 120 * len(msgs)) for _ in range(rng.choice([0, 1, 3, 9]))))}


def untag_y(t):
    return bytes(t[1]) if t[0] == "y" else untag(t)


def run_pickle(case):
    from unittest.mock import MagicMock
    from mpf.core.bcp.bcp_pickle_client import BcpPickleClient
    import mpf.core.bcp.bcp_pickle_client as pm
    real = pm.pickle if not isinstance(pm.pickle, _PickleProxy) else pm.pickle.real
    proxy = _PickleProxy(real)
    pm.pickle = proxy
    try:
        out = _run_pickle(case, BcpPickleClient, MagicMock)
    finally:
        pm.pickle = real
    out["blobs"] = [list(b) for b in proxy.dumped]
    out["loaded"] = [list(b) for b in proxy.loaded]
    return out


class _PickleProxy:
    """observation points: the byte strings pickle.dumps returned to send() and read_message() passed to pickle.loads"""
    def __init__(self, real):
        self.real = real
        self.dumped = []
        self.loaded = []

    def dumps(self, obj, *a, **k):
        b = self.real.dumps(obj, *a, **k)
        self.dumped.append(b)
        return b

    def loads(self, b, *a, **k):
        self.loaded.append(bytes(b))
        return self.real.loads(b, *a, **k)

    def __getattr__(self, name):
        return getattr(self.real, name)


def _run_pickle(case, BcpPickleClient, MagicMock):
    out = {}
    cap = _Cap()
    try:
        cli = BcpPickleClient(MagicMock(), "p", MagicMock())
    except AssertionError as e:
        out["send_error"] = "constructor AssertionError: %s" % str(e)[:60]
        return out
    cli._sender = cap
    try:
        for m in case["msgs"]:
            cli.send(m["cmd"], {k: untag_y(t) for k, t in m["kw"]})
    except TypeError as e:
        out["send_error"] = "TypeError: %s" % e
        return out
    stream = b"".join(cap.data)
    out["frames"] = [list(b) for b in cap.data]
    out["lens"] = [len(c) for c in chunks_of(stream, case["cuts"])[:-1]]
    loop = asyncio.new_event_loop()
    try:
        reader = asyncio.StreamReader(loop=loop)
        rcv = BcpPickleClient(MagicMock(), "p", MagicMock())
        rcv._receiver = reader
        got = []
        st = {}

        async def pump():
            try:
                while True:
                    res = await rcv.read_message()
                    got.append(snapshot(list(res)) if isinstance(res, tuple) else "notuple:" + repr(res)[:80])
            except asyncio.CancelledError:
                raise
            except Exception as e:   # noqa
                st["err"] = "%s: %s" % (type(e).__name__, e)
        task = loop.create_task(pump())
        for ch in chunks_of(stream, case["cuts"]):
            reader.feed_data(ch)
            for _ in range(3):
                loop.run_until_complete(asyncio.sleep(0))
        if not task.done():
            task.cancel()
            try:
                loop.run_until_complete(task)
            except BaseException:
                pass
        out["got"] = got
        out["err"] = st.get("err")
    finally:
        loop.close()
    return out


def oracle_pickle(case, out):
    if "send_error" in out:
        if "file must have a 'write' attribute" in out["send_error"] or \
                out["send_error"].startswith("constructor AssertionError: Please specify a config name"):
            return [{"sig": "pickle-client-broken", "what": "BcpPickleClient.send raises " + out["send_error"]}]
        return [{"sig": "pickle-send", "what": "BcpPickleClient.send raises " + out["send_error"]}]
    if out.get("err") and "file must have 'read' and 'readline' attributes" in out["err"] and not out["got"]:
        return [{"sig": "pickle-client-broken", "what": "BcpPickleClient.read_message raises " + out["err"]}]
    want = [snapshot([m["cmd"], {k: untag_y(t) for k, t in m["kw"]}]) for m in case["msgs"]]
    if out["got"] != want or out.get("err"):
        return [{"sig": "pickle-roundtrip", "what": "pickle transport: sent %r, received %r (error %r)" %
                                                    (want, out["got"], out.get("err"))}]
    return []


def shrink_pickle(case):
    ms = case["msgs"]
    for i in range(len(ms)):
        yield dict(case, msgs=ms[:i] + ms[i + 1:])
    if case["cuts"]:
        yield dict(case, cuts=[])
    for i, m in enumerate(ms):
        for j in range(len(m["kw"])):
            yield dict(case, msgs=ms[:i] + [dict(m, kw=m["kw"][:j] + m["kw"][j + 1:])] + ms[i + 1:])


def coq_pickle(case, out):
    if "send_error" in out or (out.get("err") and not out["got"]):
        return None          # unpatched tree: nothing is ever framed (recorded finding pickle-client-broken)
    return "(((%s : list (list Z)), (%s : list Z)), ((%s : list (list Z)), (%s : list (list Z))))" % (coqlist(zlist(b) for b in out["blobs"]), zlist(out["lens"]),
                                     coqlist(zlist(b) for b in out["frames"]), coqlist(zlist(b) for b in out["loaded"]))


HDR_PICKLE = "From C19 Require Import Model.\nDefinition run := pickle_run.\nDefinition out_eqb := pickle_out_eqb.\n"

SUITES.append(
    Suite("pickle", gen_pickle, run_pickle, HDR_PICKLE, coq_pickle, oracle_pickle, shrink_pickle,
          lambda c, o: len(c["msgs"]) > 1 and bool(c["cuts"]), {"quick": 120, "thorough": 3000}, shard=30))


# ------------------------------------------------------------------------------------------------
# decode_command_string on lines the encoder would NOT produce (a foreign peer): duplicate and blank parameters, '+',
# broken percent escapes, missing '=', scheme-like prefixes, typed prefixes with odd bodies.  Correspondence with the
# byte-level decode model + the statefulness probe; there is no "sent value" to compare with, so no round-trip oracle.
RAW_TOK = ["a", "b", "z", "K", "0", "5", "12", ".", "-", "~", "+", "%41", "%C3%A9", "%zz", "%4", "%", "%25", "%26", "%3D",
           "%2B", "%3A", "=", "=", "&", "&", "&", "?", ";", ":", "#", "!", "*", "'", "(", ")", "é", "int:", "int:", "float:",
           "bool:", "NoneType:", "true", "TRUE", "False", "1.5", "nan", "-0.0", "inf", "1e+20", "json", "name", "bytes", "_"]
RAW_CMDS = ["trigger", "x", "a1_b", "", "T", "a1:b", "abc:", "x.y+z:q", "1a:b", ":x", "http:a", "é:b", "switch"]


def gen_raw(rng, tier, i):
    q = "".join(rng.choice(RAW_TOK) for _ in range(rng.choice([0, 1, 2, 3, 5, 8, 12])))
    cmd = rng.choice(RAW_CMDS)
    r = rng.random()
    return {"line": cmd + "?" + q if r < 0.85 else cmd + q if r < 0.93 else cmd}


@isolated
def run_raw(case):
    from mpf.core.bcp.bcp_socket_client import decode_command_string
    line = case["line"]
    out = {}
    try:
        cmd, dk = decode_command_string(line)
    except ValueError:
        return {"error": "ValueError"}
    out["cmd"] = cmd
    if not isinstance(dk, dict):
        out["notdict"] = repr(dk)[:80]
        return out
    out["kw"] = [[k, tagv(v)] for k, v in dk.items()]
    snap = snapshot(dk)
    cmd2, dk2 = decode_command_string(line)
    st = {"same_obj": dk2 is dk, "equal2": cmd2 == cmd and snapshot(dk2) == snap,
          "shared_inner": bool(shared_mutables(dk, dk2)) and dk2 is not dk}
    poison(dk)
    poison(dk2)
    cmd3, dk3 = decode_command_string(line)
    st["equal3"] = cmd3 == cmd and snapshot(dk3) == snap
    out["state"] = st
    return out


def _typed_bodies(line, prefix):
    """over-approximation of the texts that can follow a typed prefix in a decoded value of this line"""
    from urllib.parse import unquote
    txt = unquote(line.replace("+", " "))
    res = []
    start = 0
    while True:
        j = txt.find(prefix, start)
        if j < 0:
            return res
        rest = txt[j + len(prefix):]
        cuts = [k for k, c in enumerate(rest) if c == "&"] + [len(rest)]
        res += [rest[:k] for k in cuts]
        start = j + 1


def raw_domain(line):
    if "json=" in line.split("?", 1)[-1][:5] or "�" in __import__("urllib.parse", fromlist=["x"]).unquote(line):
        return None
    for b in _typed_bodies(line, "int:"):
        if any(c == "_" or c.isspace() or (c.isdigit() and not c.isascii()) for c in b):
            return None           # int() strips whitespace and accepts '_' / non-ASCII digits: outside the model's int grammar
    okf = []
    for b in _typed_bodies(line, "float:"):
        if float_text_ok(b):
            if repr(float(b)) != b:
                return None       # float text that is not its own repr: the model carries floats as text
            okf.append(b)
    return sorted(set(okf))


def coq_raw(case, out):
    okf = raw_domain(case["line"])
    if okf is None or "notdict" in out:
        return None
    if "error" in out:
        exp = "(@None decoded)"
    else:
        if any(t[0] not in "sifbn" for _, t in out["kw"]):
            return None
        exp = "(Some (DKw %s %s))" % (zlist(out["cmd"].encode()),
                                      coqlist("(%s, DVal %s)" % (zlist(k.encode()), cv(t)) for k, t in out["kw"]))
    return "(((%s : list (list Z)), %s), %s)" % (coqlist(zlist(x.encode()) for x in okf), zlist(case["line"].encode()), exp)


def oracle_raw(case, out):
    st = out.get("state")
    if st and (st["same_obj"] or st["shared_inner"] or not st["equal2"] or not st["equal3"]):
        return [{"sig": "decode-stateful", "what": "decode_command_string is not a function of the line: repeated calls on %r: %r" %
                                                   (case["line"], st)}]
    return []


def shrink_raw(case):
    l = case["line"]
    for i in range(len(l)):
        yield {"line": l[:i] + l[i + 1:]}


HDR_RAW = ("From C19 Require Import Model.\n"
           "Definition run (i : list bytes * bytes) : option decoded :=\n"
           "  let d := decode (fun t => mem_key t (fst i)) (snd i) in if has_err d then None else Some d.\n"
           "Definition out_eqb := option_eqb decoded_eqb.\n")

SUITES.append(
    Suite("rawline", gen_raw, run_raw, HDR_RAW, coq_raw, oracle_raw, shrink_raw,
          lambda c, o: "kw" in o and len(o["kw"]) >= 1, {"quick": 1000, "thorough": 40000}, shard=250))

# ------------------------------------------------------------------------------------------------
# TIME and CONNECTION LIFE CYCLE.  Chunks arrive at generated instants (gaps 0 .. 8 s on the virtual clock, 1/8 s grid;
# long stalls inside a line, between a '&bytes=N' header and its payload, inside the payload), on 1-3 connections whose
# chunks interleave, through the real BcpServer / BcpTransportManager._receive_loop / BcpInterface of a real machine.
# A connection ends by EOF of the peer or by MPF dropping the transport (read_message cancelled), possibly in the middle
# of a frame.  Every case is run twice: with the generated gaps and with all gaps zero.
TIMED_CMDS = ["vh_a", "vh_a", "vh_b", "vnope", "hello"]
GAPS8 = [0, 0, 1, 1, 2, 4, 8, 12, 15, 16, 17, 24, 40, 64]


def gen_timed(rng, tier, i):
    server = rng.random() < 0.75
    conns = []
    ticks = []
    for ci in range(rng.choice([1, 1, 2, 3]) if server else 1):
        pool = []
        while len(pool) < rng.randint(1, 3):
            m = gen_msg(rng)
            if m["cmd"] == "goodbye":
                continue
            pool.append({"cmd": rng.choice(TIMED_CMDS), "kw": [kv for kv in m["kw"] if kv[0] != "client"]})
        pays = [None] + [rng.choice(PAYLOADS) for _ in range(2)] + \
               [[rng.randrange(256) for _ in range(rng.choice([1, 5, 40, 300]))] for _ in range(2)]
        msgs = []
        for _ in range(rng.randint(1, 5)):
            m = rng.choice(pool)
            msgs.append({"cmd": m["cmd"], "kw": m["kw"], "payload": rng.choice(pays)})
        torn = None
        if server and rng.random() < 0.5:
            m = rng.choice(pool)
            torn = {"cmd": m["cmd"], "kw": m["kw"], "payload": rng.choice(pays), "keep1000": rng.randrange(1000)}
        cuts = [["a", rng.randrange(0, 40 * len(msgs))] for _ in range(rng.choice([0, 1, 2, 4, 8]))]
        for k, m in enumerate(msgs + ([torn] if torn else [])):
            if m["payload"] and rng.random() < 0.7:
                # a read ends around the end of the header line / inside the payload
                cuts.append(rng.choice([["h", k, 0], ["h", k, 0], ["h", k, rng.randint(-3, 3)], ["p", k, rng.randrange(1000)]]))
        conns.append({"msgs": msgs, "torn": torn, "cuts": cuts,
                      "end": rng.choice(["eof", "eof", "drop"]) if server else "open"})
        ticks += [ci] * (len(cuts) + 2)
    rng.shuffle(ticks)
    slow = rng.random() < 0.5
    return {"server": server, "conns": conns,
            "ticks": [[rng.choice(GAPS8) if slow or rng.random() < 0.3 else rng.choice([0, 1, 2]), ci] for ci in ticks]}


_TR = {}


def _timed_rig(server):
    if server in _TR:
        return _TR[server]
    from rig import Rig
    from mpf.tests.loop import MockQueueSocket, MockServer

    class Sock(MockQueueSocket):
        def send(self, data):
            if data == b'reset\n':
                self.recv_queue.append(b'reset_complete\n')
                return len(data)
            return super().send(data)

    def mock_loop(r):
        if server:
            r.mock_server = MockServer(r.clock.loop)
            r.clock.mock_server("127.0.0.1", 5051, r.mock_server)
        else:
            r.client_socket = Sock(r.loop)
            r.clock.mock_socket("localhost", 5050, r.client_socket)

    r = Rig({}, use_bcp=True, mock_loop=mock_loop, patches={"bcp": {"connections": []} if server else {"servers": []}})
    if server:
        del r.machine_config_patches["bcp"]
        r.machine_config_patches["bcp"] = {"connections": []}
    else:
        r.machine_config_patches["bcp"] = {"servers": []}
    r.start()
    r._verif_sock = Sock
    log = []

    def mk(cmd):
        async def handler(client, **kwargs):
            log.append((client, cmd, kwargs, r.now()))
        return handler
    for cmd in REGISTERED + ["vh_sync"]:
        r.machine.bcp.interface.register_command_callback(cmd, mk(cmd))
    r.advance(1)
    r._verif_log = log
    r._verif_sync = 0
    _TR[server] = r
    return r


def _settle(r):
    """everything that can happen at this instant happens (no virtual time passes)"""
    for _ in range(12):
        r.advance(0)          # (the rig translates "loop stopped by the exception handler" into the exception itself)


def _raise_pending(r):
    """an exception that reached the loop's exception handler while the awaited future completed in the same iteration"""
    ctx = r.exception()
    if ctx:
        r._exception = None
        e = ctx.get("exception") if isinstance(ctx, dict) else None
        raise e if isinstance(e, BaseException) else RuntimeError(str(ctx)[:200])


def _open_conn(r, server):
    if not server:
        return r.client_socket, r.machine.bcp.transport.get_named_client("local_display")
    sock = r._verif_sock(r.loop)
    before = list(r.machine.bcp.transport.get_all_clients())
    r.machine.clock.loop.run_until_complete(r.mock_server.add_client(sock))
    _settle(r)
    _drain_sock(sock)
    new = [c for c in r.machine.bcp.transport.get_all_clients() if c not in before]
    return sock, (new[0] if len(new) == 1 else None)


def _drain_sock(sock):
    while not sock.send_queue.empty():
        sock.send_queue.get_nowait()


def _timed_sync(r, server):
    r._verif_sync += 1
    del r._verif_log[:]
    sock, client = _open_conn(r, server)
    sock.recv_queue.append(("vh_sync?id=int:%d\n" % r._verif_sync).encode())
    _settle(r)
    ok = len(r._verif_log) == 1 and r._verif_log[0][1] == "vh_sync" and r._verif_log[0][2] == {"id": r._verif_sync} \
        and r._verif_log[0][0] is client
    del r._verif_log[:]
    if server:
        sock.recv_queue.append(b"")
        _settle(r)
        ok = ok and client not in r.machine.bcp.transport.get_all_clients()
    return ok


def _resolve_cuts(layout, cuts, total):
    res = set()
    for c in cuts:
        if c[0] == "a":
            pos = c[1]
        elif c[1] >= len(layout):
            continue
        else:
            start, hdr_end, end = layout[c[1]]
            pos = hdr_end + c[2] if c[0] == "h" else hdr_end + (end - hdr_end) * c[2] // 1000
        if 0 < pos < total:
            res.add(pos)
    return sorted(res)


def _timed_streams(case):
    from mpf.core.bcp.bcp_socket_client import encode_command_string
    res = []
    for c in case["conns"]:
        layout, stream = [], b""
        for m in c["msgs"] + ([c["torn"]] if c["torn"] else []):
            line = (encode_command_string(m["cmd"], **{k: untag(t) for k, t in m["kw"]}) + "\n").encode()
            w = wire_stream([m], [line])
            hdr = len(w) - (len(m["payload"]) if m["payload"] is not None else 0)
            if m is c["torn"]:
                keep = 1 + (len(w) - 1) * m["keep1000"] // 1000          # 1 .. len(w)-1: a strict, non-empty prefix
                keep = max(1, min(keep, len(w) - 1))
                w = w[:keep]
            layout.append([len(stream), min(len(stream) + hdr, len(stream) + len(w)), len(stream) + len(w)])
            stream += w
        res.append((stream, layout))
    return res


def _run_timed_once(case, zero):
    server = case["server"]
    r = None
    for attempt in range(2):
        try:
            r = _timed_rig(server)
            if _timed_sync(r, server) and r.exception() is None:
                break
        except Exception:   # noqa
            pass
        old = _TR.pop(server, None)
        if old is not None:
            try:
                old.stop()
            except Exception:   # noqa
                pass
        r = None
    if r is None:
        return {"setup_failed": True}
    streams = _timed_streams(case)
    st = []
    for (stream, layout), c in zip(streams, case["conns"]):
        cuts = _resolve_cuts(layout, c["cuts"], len(stream))
        st.append({"pending": chunks_of(stream, cuts), "sock": None, "client": None, "ended": False, "arrivals": [],
                   "end_t": None})
    out = {"layout": [l for _, l in streams], "streams": [list(s) for s, _ in streams]}
    log = r._verif_log
    del log[:]
    t0 = r.now()

    def t8():
        return int(round((r.now() - t0) * 8))
    exc = None
    ticks = list(case["ticks"])
    # whatever the generated ticks leave undone is done at the end, one event per tick, 1/8 s apart
    ticks += [[1, ci] for ci in range(len(st)) for _ in range(len(st[ci]["pending"]) + 1)]
    try:
        for gap8, ci in ticks:
            s = st[ci]
            if s["ended"] or (not s["pending"] and case["conns"][ci]["end"] == "open"):
                continue
            r.advance(0 if zero else gap8 / 8.0)
            _settle(r)
            if s["sock"] is None:
                s["sock"], s["client"] = _open_conn(r, server)
            if s["pending"]:
                ch = s["pending"].pop(0)
                s["arrivals"].append([t8(), len(ch)])
                s["sock"].recv_queue.append(ch)
            else:
                s["ended"] = True
                s["end_t"] = t8()
                exc = {"conn": ci}
                if case["conns"][ci]["end"] == "eof":
                    s["sock"].recv_queue.append(b"")
                else:
                    # what BcpTransportManager.shutdown / send_to_client do with a client they give up
                    s["client"].stop()
                    r.machine.bcp.transport.unregister_transport(s["client"])
            _settle(r)
            _raise_pending(r)
            exc = None
        r.advance(3)
        _raise_pending(r)
    except Exception as e:   # noqa  (the rig re-raises what the machine's loop caught)
        out["exception"] = {"type": type(e).__name__, "text": str(e)[:200], "conn": exc["conn"] if exc else None}
    byc = {id(s["client"]): ci for ci, s in enumerate(st) if s["client"] is not None}
    got = [[] for _ in st]
    stray = []
    for client, cmd, kw, now in list(log):
        d = tag_delivered(cmd, kw)
        d["t8"] = int(round((now - t0) * 8))
        if id(client) in byc:
            got[byc[id(client)]].append(d)
        else:
            stray.append(d)
    out["got"] = got
    out["stray"] = stray
    out["arrivals"] = [s["arrivals"] for s in st]
    out["registered_after"] = [s["client"] is not None and s["client"] in r.machine.bcp.transport.get_all_clients()
                               for s in st]
    if "exception" not in out:
        try:
            out["alive"] = _timed_sync(r, server) and r.exception() is None
        except Exception as e:   # noqa
            out["alive"] = False
            out["exception"] = {"type": type(e).__name__, "text": str(e)[:200], "conn": None}
    if out.get("exception") or not out.get("alive"):
        old = _TR.pop(server, None)
        if old is not None:
            try:
                old.stop()
            except Exception:   # noqa
                pass
    return out


def run_timed(case):
    from mpf.core.bcp.bcp_socket_client import MpfJSONEncoder
    out = {"timed": _run_timed_once(case, False), "zero": _run_timed_once(case, True)}

    def jt(m):
        return json.dumps({k: untag(t) for k, t in m["kw"]}, cls=MpfJSONEncoder) if is_nested(m["kw"]) else None
    out["jsontexts"] = [[jt(m) for m in c["msgs"]] for c in case["conns"]]
    return out


def _torn_bytes(case, o, ci):
    c = case["conns"][ci]
    if not c["torn"]:
        return b""
    lay = o["layout"][ci][-1]
    return bytes(o["streams"][ci][lay[0]:lay[2]])


def _unfixed_sim(case, o, ci):
    """what the code WITHOUT fixes/C19-torn-frame-at-eof.patch does when the peer disconnects inside a frame: returns
    None (nothing special), ("deliver", item), ("raise", exception name).  Uses the decoder of the tree under test."""
    from mpf.core.bcp.bcp_socket_client import decode_command_string
    c = case["conns"][ci]
    tb = _torn_bytes(case, o, ci)
    if c["end"] != "eof" or not tb:
        return None
    if b"\n" in tb:
        return ("raise", "IncompleteReadError")
    line = tb[:-1]
    raw = None
    if b"&bytes=" in line:
        parts = line.split(b"&bytes=")
        try:
            if len(parts) != 2:
                raise ValueError()
            n = int(parts[1])
        except ValueError:
            return ("raise", "ValueError")
        if n != 0:
            return ("raise", "IncompleteReadError" if n > 0 else "ValueError")
        line = parts[0]
    try:
        cmd, kw = decode_command_string(line.decode())
    except Exception as e:   # noqa
        return ("raise", type(e).__name__)
    if cmd in ("hello",):
        return None
    if cmd == "goodbye":
        return None if not kw else ("raise", "TypeError")
    if cmd not in REGISTERED:
        return None
    if not isinstance(kw, dict):
        return ("raise", "TypeError")
    return ("deliver", canon_got(tag_delivered(cmd, kw)))


def _timed_expect(case, o, ci):
    """from the messages alone: what the callbacks of connection ci must get, and when (the instant at which the last
    byte of the frame arrived)"""
    c = case["conns"][ci]
    ends, pos = [], 0
    for t, n in o["arrivals"][ci]:
        pos += n
        ends.append((pos, t))
    exp = []
    for k, m in enumerate(c["msgs"]):
        end = o["layout"][ci][k][2]
        when = next((t for p, t in ends if p >= end), None)
        if m["cmd"] in REGISTERED and when is not None:
            exp.append({"cmd": m["cmd"], "kw": [[k2, canon(t)] for k2, t in m["kw"]], "raw": m["payload"] if m["payload"] else None,
                        "t8": when})
    return exp


def _strip_t(l):
    return [{k: v for k, v in g.items() if k != "t8"} for g in l]


def _eval_timed(case, o, label):
    """-> (fails, known) for one run"""
    if o.get("setup_failed"):
        return [{"sig": "conn-path-dead", "what": "%s: a freshly booted machine does not deliver a BCP command" % label}], False
    fails = []
    known = False
    exc = o.get("exception")
    for ci, c in enumerate(case["conns"]):
        exp = _timed_expect(case, o, ci)
        got = [dict(canon_got(g), t8=g["t8"]) if "notdict" not in g else g for g in o["got"][ci]]
        if got == exp:
            continue
        sim = _unfixed_sim(case, o, ci)
        if sim and sim[0] == "deliver" and _strip_t(got) == _strip_t(exp) + [sim[1]] and got[:len(exp)] == exp:
            fails.append({"sig": "torn-line-dispatched",
                          "what": "%s: the peer disconnected inside a line; the torn line minus its last byte was dispatched: %r"
                                  % (label, got[-1])})
            known = True
            continue
        if exc and exc.get("conn") is not None and _strip_t(got) == _strip_t(exp)[:len(got)] and got == exp[:len(got)]:
            continue          # the case was cut short by an exception (judged below); what was delivered until then is right
        if _strip_t(got) == _strip_t(exp):
            j = next(j for j in range(len(got)) if got[j] != exp[j])
            fails.append({"sig": "delivery-instant",
                          "what": "%s: connection %d: message #%d (%s) was handed over at t=%d/8 s, its last byte arrived at "
                                  "t=%d/8 s" % (label, ci, j, got[j]["cmd"], got[j]["t8"], exp[j]["t8"])})
            continue
        j = next((j for j in range(min(len(got), len(exp))) if _strip_t([got[j]]) != _strip_t([exp[j]])), min(len(got), len(exp)))
        fails.append({"sig": "timed-delivery",
                      "what": "%s: connection %d (arrivals [t/8 s, bytes] %r, end %s): callback #%d got %r, the message sent was %r "
                              "(%d calls for %d complete registered messages)" %
                              (label, ci, o["arrivals"][ci], c["end"], j, got[j] if j < len(got) else None,
                               exp[j] if j < len(exp) else None, len(got), len(exp))})
    if o.get("stray"):
        fails.append({"sig": "timed-delivery", "what": "%s: callbacks for a client that is none of the connections: %r" %
                                                       (label, o["stray"][:2])})
    if exc:
        sim = _unfixed_sim(case, o, exc["conn"]) if exc.get("conn") is not None else None
        if sim and sim[0] == "raise" and sim[1] == exc["type"]:
            sig = "torn-payload-eof-raises" if (sim[1] == "IncompleteReadError") else "torn-line-dispatched"
            fails.append({"sig": sig, "what": "%s: the peer disconnected inside a frame and %s escaped the receive loop "
                                              "(MPF stops): %s" % (label, exc["type"], exc["text"])})
            known = True
        else:
            fails.append({"sig": "conn-path-dead", "what": "%s: the machine raised %s: %s" % (label, exc["type"], exc["text"])})
    elif not o.get("alive"):
        fails.append({"sig": "conn-path-dead", "what": "%s: after the case a new connection does not deliver a command" % label})
    else:
        for ci, c in enumerate(case["conns"]):
            if c["end"] != "open" and o["registered_after"][ci]:
                fails.append({"sig": "conn-not-unregistered", "what": "%s: connection %d ended (%s) but its transport is still "
                                                                      "registered" % (label, ci, c["end"])})
    return fails, known


def oracle_timed(case, out):
    fa, ka = _eval_timed(case, out["timed"], "generated gaps")
    fb, kb = _eval_timed(case, out["zero"], "zero gaps")
    fails = fa + [f for f in fb if f["sig"] not in {x["sig"] for x in fa}]
    a, b = out["timed"], out["zero"]
    if not (a.get("setup_failed") or b.get("setup_failed") or a.get("exception") or b.get("exception")):
        ga = [_strip_t([canon_got(g) for g in l if "notdict" not in g]) for l in a["got"]]
        gb = [_strip_t([canon_got(g) for g in l if "notdict" not in g]) for l in b["got"]]
        if ga != gb:
            ci = next(i for i in range(len(ga)) if ga[i] != gb[i])
            fails.append({"sig": "time-dependent",
                          "what": "the same bytes in the same reads deliver different messages depending on WHEN they arrive: "
                                  "connection %d, arrivals [t/8 s, bytes] %r: %d callbacks %r..., with zero gaps %d callbacks %r..." %
                                  (ci, a["arrivals"][ci], len(ga[ci]), ga[ci][:2], len(gb[ci]), gb[ci][:2])})
    return fails


def coq_timed(case, out):
    o = out["timed"]
    if o.get("setup_failed") or o.get("exception"):
        return None
    if any(_eval_timed(case, out[k], k)[1] for k in ("timed", "zero")):
        return None          # unpatched tree: recorded findings torn-line-dispatched / torn-payload-eof-raises; the model is the FIXED code
    if any("notdict" in g or any(t[0] == "?" for _, t in g["kw"]) for l in o["got"] for g in l):
        return None
    allm = [m for c in case["conns"] for m in c["msgs"]]
    conns = []
    res = []
    for ci, c in enumerate(case["conns"]):
        arr = o["arrivals"][ci]
        conns.append("((%s : list smsg), %s, (%s : list Z), (%s : list Z))" %
                     (coqlist(csmsg(m, j) for m, j in zip(c["msgs"], out["jsontexts"][ci])), zlist(list(_torn_bytes(case, o, ci))),
                      zlist([n for _, n in arr[:-1]]), zlist([t for t, _ in arr])))
        res.append("((%s : list (Z * delivered)), %s)" %
                   (coqlist("(%d, %s)" % (g["t8"], cdelivered(g)) for g in o["got"][ci]), blit(False)))
    inp = "(%s, (%s : list (list Z)), (%s : list conn_in))" % (okfloats(allm), coqlist(zlist(c.encode()) for c in REGISTERED),
                                                                coqlist(conns))
    return "(%s, (%s : list (list (Z * delivered) * bool)))" % (inp, coqlist(res))


def shrink_timed(case):
    cs = case["conns"]
    if len(cs) > 1:
        for i in range(len(cs)):
            yield dict(case, conns=cs[:i] + cs[i + 1:],
                       ticks=[[g, c - (1 if c > i else 0)] for g, c in case["ticks"] if c != i])
    for i, c in enumerate(cs):
        for j in range(len(c["msgs"])):
            if len(c["msgs"]) > 1 or c["torn"]:
                yield dict(case, conns=cs[:i] + [dict(c, msgs=c["msgs"][:j] + c["msgs"][j + 1:])] + cs[i + 1:])
        if c["torn"]:
            yield dict(case, conns=cs[:i] + [dict(c, torn=None)] + cs[i + 1:])
        for j in range(len(c["cuts"])):
            yield dict(case, conns=cs[:i] + [dict(c, cuts=c["cuts"][:j] + c["cuts"][j + 1:])] + cs[i + 1:])
        for j, m in enumerate(c["msgs"]):
            if m["kw"]:
                yield dict(case, conns=cs[:i] + [dict(c, msgs=c["msgs"][:j] + [dict(m, kw=m["kw"][1:])] + c["msgs"][j + 1:])] + cs[i + 1:])
            if m["payload"] and len(m["payload"]) > 2:
                yield dict(case, conns=cs[:i] + [dict(c, msgs=c["msgs"][:j] + [dict(m, payload=m["payload"][:2])] + c["msgs"][j + 1:])] + cs[i + 1:])
    for j, (g, c) in enumerate(case["ticks"]):
        if g not in (0, 24):
            yield dict(case, ticks=case["ticks"][:j] + [[0, c]] + case["ticks"][j + 1:])
            yield dict(case, ticks=case["ticks"][:j] + [[24, c]] + case["ticks"][j + 1:])


def nontrivial_timed(case, out):
    """a frame with payload was incomplete for at least 2 s after its header had arrived, or a connection ended inside a frame"""
    o = out["timed"]
    if o.get("setup_failed"):
        return False
    for ci, c in enumerate(case["conns"]):
        if c["torn"] and c["end"] != "open":
            return True
        pos, marks = 0, []
        for t, n in o["arrivals"][ci]:
            pos += n
            marks.append((pos, t))
        for k, m in enumerate(c["msgs"]):
            if m["payload"]:
                _, hdr_end, end = o["layout"][ci][k]
                th = next((t for p, t in marks if p >= hdr_end), None)
                te = next((t for p, t in marks if p >= end), None)
                if th is not None and te is not None and te - th >= 16:
                    return True
    return False


def describe_timed(case):
    return "%s conns=%d torn=%d" % ("server" if case["server"] else "connect", len(case["conns"]),
                                    sum(1 for c in case["conns"] if c["torn"]))


HDR_TIMED = "From C19 Require Import Model Timed.\nDefinition run := srv_run.\nDefinition out_eqb := srv_out_eqb.\n"

SUITES.append(
    Suite("timed", gen_timed, run_timed, HDR_TIMED, coq_timed, oracle_timed, shrink_timed, nontrivial_timed,
          {"quick": 160, "thorough": 5000}, describe=describe_timed, shard=40, case_timeout=120))


LEVEL_TEXT = ("Machine-checked proof (Coq, 37 theorems, no axioms) about a byte-level model of the BCP codec, both socket "
              "readers, the senders, the reader-to-handler path and the pickle framing: decode(encode(cmd,kw)) = (cmd,kw) "
              "exactly when (roundtrip_exact) the dictionary is outside two recorded ambiguity classes; for every history "
              "of such messages on one connection, with any payloads and any cutting of the byte stream into reads, "
              "read_message returns and the registered handler / trigger event receives exactly the messages sent, in "
              "order, each with its own parameters and payload (session_roundtrip_partial, handler_receives_sent; guard "
              "no_marker_keys, refuted without it: recorded finding marker-in-line); the delivered sequence is independent of the "
              "instants at which the chunks arrive (reassembly_time_independent: the model has no timer), delivery instants are "
              "ordered like the arrivals, a frame torn by a disconnect or by MPF dropping the transport delivers nothing and "
              "every connection starts from the clean framing state (torn_frame_delivers_nothing, "
              "timed_connection_roundtrip_partial, new_connection_clean; unfixed EOF handling refuted: "
              "torn_line_unfixed_refuted); json.dumps text is printed by the model "
              "and proved free of raw newlines; the model is tied to /repo by running both on the same generated inputs on "
              "every run, and each property clause is also checked directly on the implementation's output.")
LEVEL_NOTE = ("Trusted: Coq kernel + vm_compute; no axioms. Model hand-written; correspondence (differential) validates it "
              "against the working tree on every run; json.loads/utf-8/int()/float()/pickle and asyncio.StreamReader are "
              "CPython, treated as data/oracles. The reader model is byte-at-a-time by construction; its tie to "
              "read_message is the correspondence run over random splits. Statefulness (a decoder or dispatcher with "
              "memory) cannot be expressed in the model: it is detected by the session/handler correspondence on recurring "
              "lines and by the decode-stateful / delivered-aliased oracles. The pickle transport is modelled as FIXED by "
              "fixes/C19-pickle-client-loads-dumps.patch; on the unpatched tree it is a recorded finding and not tied. Time: the "
              "model ignores instants by construction (that IS the property); its tie to the code is the timed suite, which "
              "delivers the same reads at generated instants and at zero gaps through the real transport manager and compares "
              "messages AND delivery instants. Connection independence (new_connection_clean) holds in the model by "
              "construction (srv_run is a map over connections); the content is in the tie: interleaved connections of one "
              "machine are compared with it. EOF inside a frame is modelled as FIXED by fixes/C19-torn-frame-at-eof.patch.")
TECHNIQUE = ("Coq proof over hand-written executable model + differential correspondence (vm_compute) on single messages and on "
             "whole connection histories, incl. timed arrivals and connection life cycles on the virtual clock + direct round-trip / "
             "delivery / statefulness / time-independence oracles")
DESIGN_REF = "DESIGN.md section 3, C19"
