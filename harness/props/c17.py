"""C17 — Shows run on schedule without drift and clean up after themselves."""
from fractions import Fraction

from vlib import Suite, zlist, zlit, coqlist, blit

ID = "C17"
READY = True
RULE = ("sched: 1-3 concurrent shows (1-6 steps; durations on the 125 ms grid given as duration / relative time / "
        "absolute time, hold steps with duration -1; 4 shared lights with default fades from {0,125,250,500 ms}, colours "
        "with and without fade, `color: stop` / `stop-f250ms` / `stop-f0ms`), half of the cases with all shows at the "
        "SAME priority, speeds from {0.25,0.5,1,2,4}, loops -1..3, start steps incl. 0, negative and beyond the end, "
        "sync_ms, manual_advance, start_running, and 0-7 stop/pause/resume/advance/step_back/update requests at "
        "instants on the 1/32 s grid (so that requests coincide with step deadlines), 40 % of the multi-show cases stop "
        "every show within 0..12 ticks of each other (during each other's fade-out), `probe` requests look at the "
        "stacks around the instants at which fade-outs end; non-trivial = at least one control request hits a show "
        "that is still running, or two shows share a light.  generic: one show with arbitrary millisecond durations and "
        "speeds such as 3 or 0.7 (float arithmetic not exact), many loops, oracle only.  player: the sched request "
        "sequences through show_player events (play/stop/pause/resume/advance/step_back/update with keys), fed to the "
        "model of the player's instance dictionary and to the oracle.  prio: show_player entries of two modes "
        "(priority 100 / 300) and of the machine config for three shows sharing lights, triggered repeatedly at the "
        "same and at later instants, modes started and stopped; non-trivial = an entry with a non-zero calling "
        "priority triggered at least twice; oracle only.  replay: 1-3 shows with `(token)` placeholders in light "
        "names, colours (whole value and inside `(c)-f250ms`) and event names, 0-2 show pools (sequence / random), a "
        "palette of 1-3 show_player play entries (copies of each other with swapped / changed token values, changed "
        "insertion order, start step, speed, sync_ms, events) played REPEATEDLY on 1-2 keys through the SAME validated "
        "entry, mixed with stop/pause/resume/advance/step_back: identical and non-identical requests while the "
        "previous show is on its start step, on later steps, after it was stopped, after it completed by itself "
        "(half of the cases: short finite shows), sync_ms 0 / 250 / 500 ms, block_queue with a real QueuedEvent; "
        "non-trivial = a play request met a previous instance on its key")
TRUSTED_BASE = [
    "Coq 8.16.1 kernel (coqc), vm_compute for refutation witnesses and for evaluating the model in the correspondence run; no native_compute",
    "axioms: none (every Print Assumptions is 'Closed under the global context')",
    "hand-written model coq/C17/Model.v of RunningShow (+ ownership and fade-out part of light player / light stack "
    "with the per-key removal delays, + the clock of show timers and removal delays) and coq/C17/Player.v of the "
    "show_player instance dictionary and actions, tied to /repo by correspondence: harness/props/c17.py runs real "
    "shows on a real machine on the virtual clock and the models on the same generated request sequences",
    "hand-written model coq/C17/Replay.v of token substitution + Show._step_cache, show pools, "
    "ShowController.replace_or_advance_show, start/stop callbacks and the instance dictionary under repeated plays, "
    "tied to /repo by the replay correspondence suite (real show_player, real QueuedEvent, shows registered and "
    "loaded through show_controller.register_show / Show.load, pools through ShowController._create_show_pool)",
    "replay suite only: observation-only wrappers around EventPlayer.play (which step of which show context runs, "
    "with the substituted event names) and LightPlayer.clear_context (when a show context is cleared = stop time)",
    "recording wrappers installed by the harness around Light.color, Light.remove_from_stack_by_key, "
    "Light._remove_fade_out and LightPlayer.clear_context (observation only) and event handlers on the shows' events; "
    "the default fade of a light is set through the attribute Light.default_fade_ms (what Light._initialize sets from "
    "`fade_ms:` / `light_settings: default_fade_ms`)",
    "CPython asyncio / MPF TimeTravelLoop as the clock (the model's clock fires timers in deadline order; order among "
    "different shows at one instant is not observed: traces are compared per show, stacks as sets; fade-out-ended rows "
    "that coincide with an action of the same show on the same light are left out on both sides)",
]
ASSUMPTIONS = [
    "sched / player suites: all instants, durations and fades are multiples of 1/32 s, speeds are powers of two, so "
    "every float operation of the implementation is exact and the comparison is exact (microseconds)",
    "light stack order (priority sort) and colours during fades are C09's subject; here a stack is the set of "
    "(owner, colour | fade-out)",
    "Replay.v: start_step is an integer on the show_player route (the `start_step is None` branch of "
    "replace_or_advance_show is not reachable there and not modelled); every token a show uses is in the token dict; "
    "two light placeholders of one step never name the same light; hash(str(dict)) collisions of the cache key are "
    "ignored; the member a `random` pool returns is taken from the observation (input of the model), a `sequence` "
    "pool's member is computed by the model; cases in which a synchronised start stops a show that has a timer due at "
    "the very same instant are not fed to the model (asyncio does not promise an order of equal deadlines and here it "
    "shows: about 6 % of the cases, counted as outside the domain) but stay with the oracle",
    "Player.v: a play on a key that holds a live show has sync_ms 0 and configures played/stopped events (always "
    "replaced); in the player correspondence suite every key is played once, the replacement / keep / advance "
    "branches of replace_or_advance_show are checked by the prio oracle only",
]

TICK_US = 31250                 # 1/32 s
NLIGHTS = 4
COLORS = {1: "ff0000", 2: "00ff00", 3: "0000ff", 4: "ffff00-f250ms", 5: "ff00ff-f500ms"}
STOPS = {0: "stop", 6: "stop-f250ms", 7: "stop-f0ms"}        # `color: stop` with fade None / 250 ms / 0
STOP_FADE_US = {0: -1, 6: 250000, 7: 0}
RGB2CODE = {(255, 0, 0): 1, (0, 255, 0): 2, (0, 0, 255): 3, (255, 255, 0): 4, (255, 0, 255): 5}
EVKINDS = ["played", "looped", "completed", "stopped", "paused", "resumed", "advanced", "stepped_back", "updated"]
EVCODE = {"played": 1, "looped": 2, "completed": 3, "stopped": 4, "paused": 5, "resumed": 6, "advanced": 7,
          "stepped_back": 8, "updated": 9}
MAXSHOWS = 3
MAXSTEPS = 8


# ------------------------------------------------------------------------------------------------
# generator
def gen_show(rng):
    n = rng.choice([1, 1, 2, 2, 3, 3, 4, 5, 6])
    steps = []
    for k in range(n):
        d = rng.choice([4, 4, 8, 8, 12, 16, 16, 24, 32])           # ticks: 125 ms .. 1 s
        if rng.random() < 0.06 or (k == n - 1 and rng.random() < 0.12):
            d = -32                                                    # duration -1: hold
        acts = []
        for l in range(NLIGHTS):
            if rng.random() < 0.4:
                acts.append([l, rng.choice([0, 1, 1, 2, 2, 3, 3, 4, 5, 0, 6, 7])])
        steps.append({"d": d, "a": acts})
    form = rng.choice(["dur", "dur", "rel", "abs"])
    if any(s["d"] < 0 for s in steps[:-1]):
        form = "dur"
    start = rng.choice([1, 1, 1, 1, 0, 2, 3, -1, -2, -n, n, n + 1, n + 2, -n - 1])
    return {"steps": steps, "form": form,
            "speed4": rng.choice([1, 2, 4, 4, 4, 8, 16]),
            "loops": rng.choice([-1, -1, 0, 0, 1, 1, 2, 3]),
            "start": start,
            "sync": rng.choice([0, 0, 0, 0, 0, 0, 0, 8, 12, 16, 32]),  # ticks: 250, 375, 500, 1000 ms
            "manual": rng.random() < 0.1,
            "running": rng.random() > 0.08,
            "prio": rng.randint(0, 3)}


def gen_sched(rng, tier, i):
    ns = rng.choice([1, 1, 2, 2, 3])
    shows = [gen_show(rng) for _ in range(ns)]
    # lights with a default fade (clear_context / `color: stop` then fade the entry out instead of removing it);
    # shows of EQUAL priority on the same lights (the light's stack orders and names things by priority and key)
    if rng.random() < 0.3:
        fades = [0] * NLIGHTS
    else:
        fades = [rng.choice([0, 4, 8, 8, 16]) for _ in range(NLIGHTS)]
    if rng.random() < 0.5:
        pr = rng.randint(0, 3)
        for sh in shows:
            sh["prio"] = pr
    ops = []
    for sid in range(ns):
        t0 = rng.choice([0, 0, 4, 8, 20, rng.randint(0, 64)])
        ops.append([t0, sid, "play", 0, 0])
        nops = rng.choice([0, 0, 1, 2, 3, 4, 5, 7])
        t = t0
        if shows[sid]["sync"] and rng.random() < 0.75:
            t += shows[sid]["sync"]          # mostly after the synchronised start (before it: recorded finding)
        for _ in range(nops):
            # on the 125 ms grid mostly (coincides with step deadlines at speed <= 1), finer sometimes
            t += rng.choice([0, 1, 2, 4, 4, 8, 8, 12, 16, 32, 48]) if rng.random() < 0.85 else rng.randint(0, 40)
            r = rng.random()
            if r < 0.16:
                o = ["stop", 0, 0]
            elif r < 0.33:
                o = ["pause", 0, 0]
            elif r < 0.50:
                o = ["resume", 0, 0]
            elif r < 0.70:
                o = ["advance", rng.choice([1, 1, 1, 2, 3, 0, -1, 7]), 0]
            elif r < 0.86:
                o = ["step_back", rng.choice([1, 1, 1, 2, 0, 5]), 0]
            else:
                o = ["update", rng.choice([0, 1, 2, 4, 8, 16]), rng.choice([0, 0, 0, 1, 2])]
            ops.append([t, sid] + o)
    if ns >= 2 and rng.random() < 0.4:
        # every show stopped at the same / nearby instants (within the fade-out time of the others)
        ts = max(o[0] for o in ops if o[2] == "play") + rng.choice([2, 8, 8, 16, 24, 40])
        for sid in range(ns):
            if rng.random() < 0.9:
                ops.append([ts + rng.choice([0, 0, 1, 2, 4, 6, 12]), sid, "stop", 0, 0])
    # look at the stacks around the instants at which fade-outs end
    stops = [o[0] for o in ops if o[2] == "stop"]
    for ts in stops:
        for f in sorted(set(fades + [8]) - {0}):
            if rng.random() < 0.35:
                ops.append([ts + f + rng.choice([-1, 0, 0, 1]), 0, "probe", 0, 0])
    ops.sort(key=lambda o: o[0])                                        # stable
    horizon = max(o[0] for o in ops) + rng.choice([16, 64, 96, 160, 200])
    return {"shows": shows, "fades": fades, "ops": ops, "horizon": horizon}


# ------------------------------------------------------------------------------------------------
# implementation runner
_G = {}


def _ms(ticks):
    assert (ticks * 125) % 4 == 0
    return "%dms" % (ticks * 125 // 4)


def show_yaml(sh, sid):
    """the list of step dicts a show file with these durations would be parsed into"""
    steps = sh["steps"]
    out = []
    cum = 0
    for k, s in enumerate(steps):
        st = {}
        form = sh.get("form", "dur")
        if form == "dur" or k == len(steps) - 1:
            st["duration"] = -1 if s["d"] < 0 else _ms(s["d"])
        if form in ("rel", "abs") and k > 0:
            st["time"] = ("+" + _ms(steps[k - 1]["d"])) if form == "rel" else _ms(cum)
        if form in ("rel", "abs") and k == 0:
            st["time"] = 0
        cum += max(s["d"], 0)
        if s["a"]:
            st["lights"] = {"l%d" % l: (STOPS[c] if c in STOPS else COLORS[c]) for l, c in s["a"]}
        st["events"] = "c17_%d_m%d" % (sid, k)
        out.append(st)
    return out


def _boot():
    import sys
    import os
    sys.path.insert(0, os.path.dirname(os.path.dirname(os.path.abspath(__file__))))
    from rig import Rig
    cfg = {"lights": {"l%d" % l: {"number": str(l), "subtype": "led", "type": "rgb"} for l in range(NLIGHTS)},
           "shows": PRIO_SHOWS, "modes": sorted(PRIO_MODES),
           "show_player": player_config()}
    modes = {name: {"mode": {"priority": mp, "game_mode": False, "start_events": "%s_start" % name, "stop_events": "%s_stop" % name},
                    "show_player": {ev: {e["show"]: _entry_cfg(e)} for ev, e in PRIO_ENTRIES.items()
                                    if e["mode"] == name}}
             for name, mp in PRIO_MODES.items()}
    rig = Rig(cfg, modes=modes).start()
    m = rig.machine
    log = _G.setdefault("log", [])
    _G.update(rig=rig, m=m, in_clear=False)

    def mk(sid, kind, arg):
        def h(**kwargs):
            log.append(("ev", m.clock.get_time(), sid, kind, arg))
        return h
    for sid in range(MAXSHOWS):
        for kind in EVKINDS:
            m.events.add_handler("c17_%d_%s" % (sid, kind), mk(sid, kind, 0))
        for k in range(MAXSTEPS + 1):
            m.events.add_handler("c17_%d_m%d" % (sid, k), mk(sid, "marker", k))
    m.events.add_handler("updated", mk(None, "updated_literal", 0))


def sched_init():
    if _G.get("rig") is not None:
        return
    _G["n"] = 0
    _boot()
    log = _G["log"]
    from mpf.devices.light import Light
    from mpf.config_players.light_player import LightPlayer
    oc, orm, occ, orf = (Light.color, Light.remove_from_stack_by_key, LightPlayer.clear_context,
                         Light._remove_fade_out)

    def color(self, color, fade_ms=None, priority=0, key=None, start_time=None):
        log.append(("set", _G["m"].clock.get_time(), self.name,
                    tuple(color) if not isinstance(color, str) else color, key, start_time))
        return oc(self, color, fade_ms, priority, key, start_time)

    def rem(self, key, fade_ms=None):
        had = any(e.key == key for e in self.stack)
        log.append(("clear" if _G["in_clear"] else "rem", _G["m"].clock.get_time(), self.name, fade_ms, key, had))
        return orm(self, key, fade_ms)

    def fade_end(self, key):
        log.append(("fade_end", _G["m"].clock.get_time(), self.name, None, key, None))
        return orf(self, key)

    def clear_context(self, context):
        _G["in_clear"] = True
        try:
            return occ(self, context)
        finally:
            _G["in_clear"] = False
    Light.color = color
    Light.remove_from_stack_by_key = rem
    Light._remove_fade_out = fade_end
    LightPlayer.clear_context = clear_context


def _leave_case(running, names):
    """stop what is still running (public API).  A show that keeps acting after stop() (a defect the oracle reports)
    would leak into the next case of this worker: then the machine is thrown away and a new one booted."""
    rig, m, log = _G["rig"], _G["m"], _G["log"]
    try:
        for rs in running:
            if rs is not None:
                rs.stop()
        rig.advance(0)
        del log[:]
        rig.advance(9.0)
        # fade-outs of the lights ending is not a leak; anything else a show does after stop() is
        leaked = any(rec[0] != "fade_end" for rec in log) or bool(rig._exception)
        for l in range(NLIGHTS):
            m.lights["l%d" % l].default_fade_ms = 0
    except Exception:
        leaked = True
    for nme in names:
        m.shows.pop(nme, None)
    if leaked:
        rig.stop()
        _boot()


# ---- static part of the machine used by the prio suite: shows in the machine config, two modes with their own
# show_player sections, a machine-wide show_player section
PRIO_SHOWS = {
    "c17s_a": [{"duration": "250ms", "lights": {"l0": "ff0000", "l1": "ff0000"}},
               {"duration": "250ms", "lights": {"l0": "00ff00"}},
               {"duration": "500ms", "lights": {"l2": "00ff00"}}],
    "c17s_b": [{"duration": "500ms", "lights": {"l0": "0000ff", "l2": "0000ff"}},
               {"duration": "250ms", "lights": {"l1": "0000ff"}}],
    "c17s_c": [{"duration": -1, "lights": {"l0": "ffff00", "l3": "ffff00"}}],
}
PRIO_MODES = {"c17m1": 100, "c17m2": 300}
# event -> entry; mode None = machine-wide section.  ev: whether events_when_played/stopped are configured (then a
# re-trigger always replaces the running show)
PRIO_ENTRIES = {
    "c17p_m1_a": {"mode": "c17m1", "show": "c17s_a", "priority": 2, "ev": False},
    "c17p_m1_b": {"mode": "c17m1", "show": "c17s_b", "priority": 0, "ev": True},
    "c17p_m1_c": {"mode": "c17m1", "show": "c17s_c", "priority": 50, "ev": False, "key": "kc"},
    "c17p_m1_a_stop": {"mode": "c17m1", "show": "c17s_a", "action": "stop"},
    "c17p_m2_a": {"mode": "c17m2", "show": "c17s_a", "priority": 5, "ev": False, "speed": 2},
    "c17p_m2_c": {"mode": "c17m2", "show": "c17s_c", "priority": 1, "ev": False},
    "c17p_m2_b_manual": {"mode": "c17m2", "show": "c17s_b", "priority": 3, "ev": False, "manual": True},
    "c17p_g_b": {"mode": None, "show": "c17s_b", "priority": 7, "ev": False},
    "c17p_g_a": {"mode": None, "show": "c17s_a", "priority": 150, "ev": True, "key": "ga"},
}


def _entry_cfg(e):
    if e.get("action") == "stop":
        return {"action": "stop"}
    c = {"priority": e["priority"], "loops": -1}
    if e.get("key"):
        c["key"] = e["key"]
    if e.get("speed"):
        c["speed"] = e["speed"]
    if e.get("manual"):
        c["manual_advance"] = True
    if e.get("ev"):
        c["events_when_played"] = "c17prio_played"
        c["events_when_stopped"] = "c17prio_stopped"
    return c


def player_config():
    """machine-wide show_player section (prio suite)"""
    return {ev: {e["show"]: _entry_cfg(e)} for ev, e in PRIO_ENTRIES.items() if e["mode"] is None}


def _us(t, base):
    x = (t - base) * 32
    if x != int(x):
        return None
    return int(x) * TICK_US


def _snapshot(m, ctx2sid):
    snap = []
    for l in range(NLIGHTS):
        ent = []
        for e in m.lights["l%d" % l].stack:
            sid = ctx2sid.get(e.key, -1)
            col = RGB2CODE.get(tuple(e.dest_color) if e.dest_color is not None else None, -1)
            ent.append([sid, col])
        ent.sort()
        snap.append(ent)
    return snap


def _evkw(sid):
    return {"events_when_" + k: ["c17_%d_%s" % (sid, k)] for k in EVKINDS}


def run_sched(case, via="api"):
    rig, m, log = _G["rig"], _G["m"], _G["log"]
    _G["n"] += 1
    # leave the previous case behind and start on a multiple of 6 s (every sync period divides it)
    now = rig.now()
    base = (int(now) // 6 + 1) * 6.0
    rig.advance(base - now)
    fades = case.get("fades") or [0] * NLIGHTS
    for l in range(NLIGHTS):
        m.lights["l%d" % l].clear_stack()
        # the attribute Light._initialize sets from `fade_ms:` / `light_settings: default_fade_ms`
        m.lights["l%d" % l].default_fade_ms = fades[l] * 125 // 4
    rig.advance(0)
    del log[:]
    names = []
    presnaps = []
    for sid, sh in enumerate(case["shows"]):
        name = "c17_%d_%d" % (_G["n"], sid)
        m.show_controller.register_show(name)
        m.shows[name].load(show_yaml(sh, sid))
        names.append(name)
    running = [None] * len(names)
    ctx2sid = {}
    snaps = []
    out = {"exc": None, "offgrid": False}
    upd_of = []          # show of every update request, in order
    unbound = set()      # player route: shows whose key got a stop action
    try:
        for t, sid, kind, a, b in case["ops"]:
            target = base + t / 32.0
            if target > rig.now():
                rig.advance(target - rig.now())
            log.append(("op", rig.now(), sid, kind))
            sh = case["shows"][sid]
            presnaps.append(_snapshot(m, ctx2sid) if kind == "stop" else None)
            if kind == "probe":
                pass
            elif via == "player":
                sp = m.show_controller.show_players["shows"]
                if kind == "play":
                    st = {"action": "play", "key": "k%d" % sid, "priority": sh["prio"], "speed": sh["speed4"] / 4.0,
                          "start_step": sh["start"], "loops": sh["loops"], "sync_ms": sh["sync"] * 125 // 4,
                          "manual_advance": sh["manual"], "start_running": sh["running"]}
                    st.update({k: v[0] for k, v in _evkw(sid).items()})
                    sp.play(sp.validate_config_entry({names[sid]: st}, "c17"), "_global", None, 0)
                    rs = sp.instances["_global"]["show_player"]["k%d" % sid]
                    running[sid] = rs
                    ctx2sid[rs.context + ".light_player"] = sid
                elif running[sid] is not None:
                    st = {"action": kind}
                    if kind == "stop":
                        unbound.add(sid)
                    if kind == "update" and sid not in unbound:
                        # (after its stop action the player has forgotten the key: no update is delivered, no
                        # literal `updated` event comes that would have to be attributed to this show)
                        upd_of.append(sid)
                        st["speed"] = a / 4.0 if a else running[sid].show_config.speed
                    sp.play(sp.validate_config_entry({"k%d" % sid: st}, "c17"), "_global", None, 0)
            elif kind == "play":
                rs = m.shows[names[sid]].play(priority=sh["prio"], speed=sh["speed4"] / 4.0, start_step=sh["start"],
                                              loops=sh["loops"], sync_ms=sh["sync"] * 125 // 4,
                                              manual_advance=sh["manual"], start_running=sh["running"], **_evkw(sid))
                running[sid] = rs
                ctx2sid[rs.context + ".light_player"] = sid
            elif running[sid] is not None:
                rs = running[sid]
                if kind == "stop":
                    rs.stop()
                elif kind == "pause":
                    rs.pause()
                elif kind == "resume":
                    rs.resume()
                elif kind == "advance":
                    rs.advance(steps=a)
                elif kind == "step_back":
                    rs.step_back(steps=a)
                elif kind == "update":
                    upd_of.append(sid)
                    rs.update(speed=(a / 4.0 if a else None), manual_advance={0: None, 1: True, 2: False}[b])
            rig.advance(0)
            rig.advance(0)
            snaps.append(_snapshot(m, ctx2sid))
        target = base + case["horizon"] / 32.0
        rig.advance(target - rig.now())
        rig.advance(0)
        snaps.append(_snapshot(m, ctx2sid))
    except Exception as e:   # what the code raises is data
        out["exc"] = "%s: %s" % (type(e).__name__, e)
    if rig._exception:
        out["exc"] = "loop: %r" % (rig._exception,)
        rig._exception = None
    finals = []
    for rs in running:
        if rs is None:
            finals.append([0])
        else:
            h = rs._delay_handler
            pending = h is not None and not h.cancelled() and h.when() > rig.now()
            nst = _us(rs.next_step_time, base)
            finals.append([1, int(rs.stopped), rs.next_step_index, rs.loops, nst if nst is not None else -7,
                           (_us(h.when(), base) or -7) if pending else -1])
    # canonical rows
    ev = [[] for _ in names]
    lops = [[] for _ in names]
    fends = [[] for _ in names]
    oplog = []
    ui = 0
    for rec in log:
        t = _us(rec[1], base)
        if t is None:
            out["offgrid"] = True
            t = int(round((rec[1] - base) * 1e6))
        if rec[0] == "op":
            oplog.append([t, rec[2], rec[3]])
        elif rec[0] == "ev":
            _, _, sid, kind, arg = rec
            if kind == "updated_literal":
                # the literal event has no show in its name: attribute it to the update requests in order
                sid = upd_of[ui] if ui < len(upd_of) else 0
                ui += 1
                ev[sid].append([sid, t, 9, 0, 0, 0])
            elif kind == "marker":
                ev[sid].append([sid, t, 0, arg, 0, 0])
            else:
                ev[sid].append([sid, t, EVCODE[kind], 0, 0, 0])
        else:
            kind, _, lname, col, key, extra = rec
            sid = ctx2sid.get(key)
            if sid is None:
                continue
            l = int(lname[1:])
            if kind == "set":
                st = _us(extra, base) if extra else None
                lops[sid].append([sid, t, 10, l, RGB2CODE.get(col, -1), st if st is not None else -7])
            elif kind == "rem":
                lops[sid].append([sid, t, 11, l, -1 if col is None else int(col) * 1000, 0])
            elif kind == "fade_end":
                fends[sid].append([sid, t, 13, l, 0, 0])
            elif extra:          # clear_context: only lights that had an entry, canonical order below
                lops[sid].append([sid, t, 12, l, 0, 0])
    for rows in lops:            # a run of clear rows is a set: sort it
        i = 0
        while i < len(rows):
            j = i
            while j < len(rows) and rows[j][2] == 12 and rows[j][1] == rows[i][1] and rows[i][2] == 12:
                j += 1
            if j > i + 1:
                rows[i:j] = sorted(rows[i:j])
            i = max(j, i + 1)
    for sid, rows in enumerate(fends):
        # a removal delay that expires at the very instant at which its show sets / removes / clears the same light:
        # whether the stale delay still fires depends on the order of equal deadlines (not promised): left out, as
        # in Model.v quiet_fade_rows; delays of different lights ending at one instant are a set
        busy = set((r[1], r[3]) for r in lops[sid])
        rows[:] = sorted((r for r in rows if (r[1], r[3]) not in busy), key=lambda r: (r[1], r[3]))
    out.update(ev=ev, lops=lops, fends=fends, snaps=snaps, presnaps=presnaps, finals=finals, oplog=oplog)
    _leave_case(running, names)
    return out


# ------------------------------------------------------------------------------------------------
# Coq printers
def coq_cfg(sh):
    steps = coqlist("(mkStep %s %s)" % (zlit(s["d"] * TICK_US),
                                       coqlist("(%s,%s)" % (zlit(l), zlit(c)) for l, c in s["a"]))
                    for s in sh["steps"])
    return "(mkCfg %s %s %s %s %s %s %s)" % (steps, zlit(sh["speed4"]), zlit(sh["loops"]), zlit(sh["start"]),
                                           zlit(sh["sync"] * TICK_US), blit(sh["manual"]), blit(sh["running"]))


def coq_op(kind, a, b):
    if kind == "play":
        return "UPlay"
    if kind == "probe":
        return "UProbe"
    if kind in ("stop", "pause", "resume"):
        return "(UOp %s)" % kind.capitalize()
    if kind == "advance":
        return "(UOp (Advance %s))" % zlit(a)
    if kind == "step_back":
        return "(UOp (StepBack %s))" % zlit(a)
    if kind == "update":
        return "(UOp (Update %s %s))" % (zlit(a), zlit(b))
    raise ValueError(kind)


def zll(rows):
    return coqlist(zlist(r) for r in rows)


def coq_sched(case, out):
    if out.get("exc"):
        # an exception is not an outcome the model has; the oracle reports it
        return None
    inp = "(%s, %s, %s, %s, %s)" % (
        coqlist(coq_cfg(sh) for sh in case["shows"]),
        zlist([f * TICK_US for f in (case.get("fades") or [0] * NLIGHTS)]),
        coqlist("(%s,%s,%s)" % (zlit(t * TICK_US), zlit(sid), coq_op(k, a, b)) for t, sid, k, a, b in case["ops"]),
        zlit(case["horizon"] * TICK_US), zlit(fuel(case)))
    exp = "(%s, %s, %s, %s, %s)" % (
        coqlist(zll(rows) for rows in out["ev"]),
        coqlist(zll(rows) for rows in out["lops"]),
        coqlist(zll(rows) for rows in out["fends"]),
        coqlist(coqlist(zlist([x for e in st for x in e]) for st in snap) for snap in out["snaps"]),
        zll(out["finals"]))
    return "(%s, %s)" % (inp, exp)


def fuel(case):
    # every timer period is at least one tick; requests add at most one step each
    # ... and every step / request starts at most one fade-out per light
    return ((case["horizon"] + 2) * len(case["shows"]) + len(case["ops"]) + 8) * (NLIGHTS + 1)


HDR_SCHED = ("From C17 Require Import Model.\nDefinition run := C17.Model.run.\n"
             "Definition out_eqb := C17.Model.out_eqb.\n")
# the same request sequences through show_player: the model of the player (instance dictionary + actions)
HDR_PLAYER = ("From C17 Require Import Model Player.\nDefinition run := C17.Player.prun.\n"
              "Definition out_eqb := C17.Model.out_eqb.\n")


# ------------------------------------------------------------------------------------------------
# oracle: the property's own predicate on the implementation's trace (independent of the model)
def oracle_sched(case, out):
    fails = []
    if out.get("exc"):
        fails.append({"sig": "exception", "what": "a show request raised: %s" % out["exc"]})
        return fails
    if out.get("offgrid"):
        fails.append({"sig": "drift-offgrid", "what": "an effect happened at an instant that is not on the exact grid"})
    shows = case["shows"]
    for sid, sh in enumerate(shows):
        fails += oracle_show(case, out, sid, sh)
    # stacks.  After a show has stopped, what it still has on a light can only be the fade-out of its entry (a light
    # with a default fade, or `stop-f250ms`), and only until stop + the fade-out time; then nothing of it is left.
    # What the other shows have on the lights is the same before and after a stop request.
    fades = case.get("fades") or [0] * NLIGHTS
    times = [o[0] * TICK_US for o in case["ops"]] + [case["horizon"] * TICK_US]
    for sid, sh in enumerate(shows):
        t_stop = [r[1] for r in out["ev"][sid] if r[2] == 4]
        if not t_stop:
            continue
        t_stop = t_stop[0]
        explicit = set(l for st in sh["steps"] for l, c in st["a"] if c == 6)
        bad = None
        for i, (ts, snap) in enumerate(zip(times, out["snaps"])):
            own_stop = i < len(case["ops"]) and case["ops"][i][1] == sid and case["ops"][i][2] == "stop"
            if ts < t_stop or (ts == t_stop and not own_stop):
                continue
            for l, st in enumerate(snap):
                until = t_stop + max(fades[l] * TICK_US, 250000 if l in explicit else 0)
                for e in st:
                    if e[0] != sid:
                        continue
                    if e[1] != -1:
                        bad = "show %d stopped at %d us but still owns an entry (colour %d) on light %d at %d us" % (
                            sid, t_stop, e[1], l, ts)
                    elif ts >= until:
                        bad = ("show %d stopped at %d us; the fade-out of its entry on light %d (fade-out time %d us) "
                               "is still on the stack at %d us" % (sid, t_stop, l, until - t_stop, ts))
            if bad:
                break
        if bad:
            fails.append({"sig": "context-left-after-stop", "what": bad})
    for i, ((t, sid, kind, a, b), snap) in enumerate(zip(case["ops"], out["snaps"])):
        pre = out["presnaps"][i] if i < len(out.get("presnaps", [])) else None
        if kind != "stop" or pre is None:
            continue
        if any(r[1] == t * TICK_US for s2 in range(len(shows)) if s2 != sid for r in out["ev"][s2] + out["lops"][s2]):
            continue             # another show acted at this very instant
        if any(r[1] == t * TICK_US for s2 in range(len(shows)) if s2 != sid for r in out["fends"][s2]):
            continue
        if [[e for e in st if e[0] != sid] for st in pre] != [[e for e in st if e[0] != sid] for st in snap]:
            fails.append({"sig": "stop-touched-other-show",
                          "what": "stop() of show %d at tick %d changed the entries other shows have on the lights: "
                                  "%s -> %s" % (sid, t, pre, snap)})
    return fails


def oracle_show(case, out, sid, sh):
    fails = []
    ev = out["ev"][sid]
    lops = out["lops"][sid]
    cnt = {c: sum(1 for r in ev if r[2] == c) for c in range(0, 10)}
    markers = [r for r in ev if r[2] == 0]
    myops = [(t * TICK_US, k, a, b) for t, s, k, a, b in case["ops"] if s == sid and k != "probe"]
    play_t = [t for t, k, a, b in myops if k == "play"]
    if not play_t:
        return fails
    play_t = play_t[0]
    ctl = [(t, k, a, b) for t, k, a, b in myops if k != "play" and t >= play_t]
    # ---- events once
    for code, name in ((1, "played"), (3, "completed"), (4, "stopped")):
        if cnt[code] > 1:
            fails.append({"sig": "%s-twice" % name, "what": "show %d posted its %s event %d times" % (sid, name, cnt[code])})
    if cnt[3] == 1 and cnt[4] == 0:
        fails.append({"sig": "completed-without-stopped", "what": "show %d completed without a stopped event" % sid})
    t_stop = [r[1] for r in ev if r[2] == 4]
    t_stop = t_stop[0] if t_stop else None
    if t_stop is not None:
        late = [r for r in ev if r[1] > t_stop and r[2] != 9] + [r for r in lops if r[1] > t_stop]
        # at the stop instant itself: nothing of the show may follow its stopped event except completed
        idx = [i for i, r in enumerate(ev) if r[2] == 4][0]
        late += [r for r in ev[idx + 1:] if r[1] == t_stop and r[2] in (0, 2, 4, 5)]
        if late:
            fails.append({"sig": "effect-after-stop",
                          "what": "show %d acted after it had stopped at %d us: %s" % (sid, t_stop, late[:3])})
    stops_req = [t for t, k, a, b in ctl if k == "stop"]
    if stops_req and (t_stop is None or t_stop > stops_req[0]):
        fails.append({"sig": "stop-not-honoured", "what": "show %d: stop() at %d us, stopped event at %s" %
                      (sid, stops_req[0], t_stop)})
    if markers and cnt[1] == 0:
        # recorded defect: pause/resume/advance/step_back while the show waits for its synchronised start cancel the
        # pending start for good; the steps that a later (or the same) request plays come without the played event
        sync = sh["sync"] * TICK_US
        start_at = play_t + sync - play_t % sync if sync else play_t
        early = [k for t, k, a, b in ctl if k != "update" and t < start_at]      # in request order
        if sync and early and early[0] != "stop":
            fails.append({"sig": "played-missing-request-before-sync-start",
                          "what": "a show that gets a pause/resume/advance/step_back request while it waits for its "
                                  "synchronised start never posts its played event"})
        else:
            fails.append({"sig": "played-missing", "what": "show %d ran steps but never posted played" % sid})
    if cnt[1] == 1 and markers:
        tp = [r[1] for r in ev if r[2] == 1][0]
        if tp != markers[0][1]:
            fails.append({"sig": "played-at-wrong-time", "what": "show %d: played at %d, first step at %d" %
                          (sid, tp, markers[0][1])})
    # ---- schedule: every step that a timer started happens exactly duration/speed after the step before it was
    # scheduled; steps started by a request happen at the request's instant
    speed4 = sh["speed4"]
    manual = sh["manual"]
    durs = [s["d"] * TICK_US for s in sh["steps"]]
    req_times = {}
    for t, k, a, b in ctl:
        req_times.setdefault(t, []).append((k, a, b))
    prev = None          # (step index, time it was executed)
    n_before = len(fails)
    ui = 0
    upd = [(t, a, b) for t, k, a, b in ctl if k == "update"]
    if any(r[3] >= len(durs) for r in markers):
        return fails + [{"sig": "foreign-step", "what": "show %d posted the marker of a step it does not have" % sid}]
    for r in markers:
        t, k = r[1], r[3]
        # speed / manual in force when the PREVIOUS step computed its delay = updates strictly before it was executed,
        # or at the same instant but earlier in the request order (cannot tell: skip the check at such instants)
        if prev is not None:
            pk, pt = prev
            s4, man, ambiguous = speed4, manual, False
            for ut, a, b in upd:
                if ut < pt:
                    s4 = a if a else s4
                    man = {0: man, 1: True, 2: False}[b]
                elif ut == pt:
                    ambiguous = True
            by_request = any(kk in ("resume", "advance", "step_back") for kk, a, b in req_times.get(t, []))
            sync = sh["sync"] * TICK_US
            if not by_request and not ambiguous:
                want = Fraction(durs[pk] * 4, s4)
                if man or want <= 0:
                    fails.append({"sig": "step-without-cause",
                                  "what": "show %d: step %d ran at %d us with no timer due and no request" % (sid, k, t)})
                elif Fraction(t - pt) != want:
                    fails.append({"sig": "drift", "what": "show %d: step %d ran at %d us, %d us after step %d; "
                                  "duration/speed = %s us" % (sid, k, t, t - pt, pk, want)})
                if any(kk == "pause" and pt < tt < t for tt, kk, a, b in ctl):
                    fails.append({"sig": "pause-not-honoured",
                                  "what": "show %d: step %d ran at %d us although the show was paused" % (sid, k, t)})
                if not by_request and k != (pk + 1) % len(durs):
                    fails.append({"sig": "step-order", "what": "show %d: timer ran step %d after step %d" % (sid, k, pk)})
        prev = (k, t)
        if len(fails) > n_before:
            break                # one schedule failure per show is enough
    # closed form for shows without any control request: k-th step at t0 + sum(preceding durations)/speed
    if not ctl and markers and not sh["manual"] and sh["running"]:
        n = len(durs)
        sync = sh["sync"] * TICK_US
        t0 = play_t + sync - play_t % sync if sync else play_t
        if sh["start"] > 0:
            i0 = sh["start"] - 1
        elif sh["start"] < 0:
            i0 = sh["start"] % n
        else:
            i0 = 0
        acc = Fraction(t0)
        idx = i0 if i0 < n else 0
        for j, r in enumerate(markers):
            if Fraction(r[1]) != acc or r[3] != idx:
                fails.append({"sig": "drift", "what": "show %d: executed step #%d is step %d at %d us; schedule says "
                              "step %d at %s us" % (sid, j, r[3], r[1], idx, acc)})
                break
            if durs[idx] < 0:
                break
            acc += Fraction(durs[idx] * 4, speed4)
            idx = (idx + 1) % n
        want_loops = None
        if sh["loops"] >= 0 and all(d > 0 for d in durs) and i0 < n:
            total = (sh["loops"] + 1) * n - i0
            end = t0 + sum(Fraction(durs[(i0 + j) % n] * 4, speed4) for j in range(total))
            if end <= case["horizon"] * TICK_US:
                if len(markers) != total or cnt[3] != 1 or cnt[4] != 1 or cnt[2] != sh["loops"]:
                    fails.append({"sig": "loop-count", "what": "show %d with loops=%d from step %d: %d steps, %d looped, "
                                  "%d completed, %d stopped; expected %d steps" %
                                  (sid, sh["loops"], i0, len(markers), cnt[2], cnt[3], cnt[4], total)})
                elif [r[1] for r in ev if r[2] == 3][0] != end:
                    fails.append({"sig": "drift", "what": "show %d completed at the wrong time" % sid})
    # every light effect carries the scheduled time as start_time: it must be the instant it is applied at
    for r in lops:
        if r[2] == 10 and r[5] != r[1]:
            fails.append({"sig": "drift", "what": "show %d set light %d at %d us with start_time %d us" %
                          (sid, r[3], r[1], r[5])})
            break
    return fails


def shrink_sched(case):
    shows, ops = case["shows"], case["ops"]
    # drop a whole show
    if len(shows) > 1:
        for sid in range(len(shows)):
            ns = shows[:sid] + shows[sid + 1:]
            no = [[t, s - (1 if s > sid else 0), k, a, b] for t, s, k, a, b in ops if s != sid]
            if no:
                yield {"shows": ns, "ops": no, "horizon": case["horizon"], "fades": case.get("fades")}
    # drop a request (never the plays)
    for i, o in enumerate(ops):
        if o[2] != "play":
            yield {"shows": shows, "ops": ops[:i] + ops[i + 1:], "horizon": case["horizon"], "fades": case.get("fades")}
    # drop a step / light actions / simplify parameters
    for sid, sh in enumerate(shows):
        for k in range(len(sh["steps"])):
            if len(sh["steps"]) > 1:
                s2 = dict(sh, steps=sh["steps"][:k] + sh["steps"][k + 1:], form="dur")
                yield {"shows": shows[:sid] + [s2] + shows[sid + 1:], "ops": ops, "horizon": case["horizon"], "fades": case.get("fades")}
            if sh["steps"][k]["a"]:
                st = dict(sh["steps"][k], a=sh["steps"][k]["a"][1:])
                s2 = dict(sh, steps=sh["steps"][:k] + [st] + sh["steps"][k + 1:])
                yield {"shows": shows[:sid] + [s2] + shows[sid + 1:], "ops": ops, "horizon": case["horizon"], "fades": case.get("fades")}
        for key, val in (("sync", 0), ("speed4", 4), ("start", 1), ("manual", False), ("running", True),
                         ("form", "dur"), ("prio", 0)):
            if sh[key] != val:
                s2 = dict(sh, **{key: val})
                yield {"shows": shows[:sid] + [s2] + shows[sid + 1:], "ops": ops, "horizon": case["horizon"], "fades": case.get("fades")}
    last = max(o[0] for o in ops)
    if case["horizon"] > last + 16:
        yield {"shows": shows, "ops": ops, "horizon": last + (case["horizon"] - last) // 2, "fades": case.get("fades")}
    fd = case.get("fades") or [0] * NLIGHTS
    for l in range(NLIGHTS):
        if fd[l]:
            yield dict(case, fades=fd[:l] + [0] + fd[l + 1:])


def nontrivial_sched(case, out):
    if out.get("exc"):
        return True
    shared = False
    used = [set(l for s in sh["steps"] for l, c in s["a"]) for sh in case["shows"]]
    for i in range(len(used)):
        for j in range(i + 1, len(used)):
            if used[i] & used[j]:
                shared = True
    # a control request that hits a show which has not stopped yet
    live = False
    for t, sid, k, a, b in case["ops"]:
        if k in ("play", "probe"):
            continue
        st = [r[1] for r in out["ev"][sid] if r[2] == 4]
        if not st or st[0] >= t * TICK_US:
            live = True
    return shared or live


def describe_sched(case):
    kinds = sorted(set(o[2] for o in case["ops"]) - {"play", "probe"})
    return "shows=%d ops=%s%s" % (len(case["shows"]), ",".join(kinds) if kinds else "-",
                                  " fade" if any(case.get("fades") or []) else "")


# ------------------------------------------------------------------------------------------------
# generic stream: float arithmetic is NOT exact here; one free-running show, no control requests.  Oracle only:
# |t_k - (t0 + sum(durations)/speed)| stays below one microsecond for every k (no accumulation over loops).
def gen_generic(rng, tier, i):
    n = rng.choice([1, 2, 3, 5, 8])
    durs = [rng.choice([rng.randint(1, 40), rng.randint(1, 1000), 33, 100, 7]) for _ in range(n)]
    speed = rng.choice([3.0, 0.7, 1.1, 2.5, 0.3, 7.0, 1.0, rng.choice([0.1, 10.0])])
    run_ms = rng.choice([3000, 20000, 60000])
    while run_ms > 3000 and run_ms * speed * n / sum(durs) > 15000:
        run_ms //= 2             # keep the trace (two rows per executed step) well below the harness' output cap
    return {"durs_ms": durs, "speed": speed, "loops": rng.choice([-1, 5, 40]),
            "t0_ms": rng.choice([0, 1, 333, rng.randint(0, 5000)]),
            "run_ms": run_ms}


def run_generic(case):
    rig, m, log = _G["rig"], _G["m"], _G["log"]
    _G["n"] += 1
    now = rig.now()
    base = (int(now) // 6 + 1) * 6.0
    rig.advance(base - now)
    for l in range(NLIGHTS):
        m.lights["l%d" % l].clear_stack()
    rig.advance(0)
    name = "c17g_%d" % _G["n"]
    m.show_controller.register_show(name)
    steps = [{"duration": "%dms" % d, "lights": {"l%d" % (k % NLIGHTS): COLORS[1 + k % 3]},
              "events": "c17_0_m%d" % k} for k, d in enumerate(case["durs_ms"])]
    m.shows[name].load(steps)
    rig.advance(case["t0_ms"] / 1000.0)
    del log[:]
    t0 = rig.now()
    rs = m.shows[name].play(speed=case["speed"], loops=case["loops"], **_evkw(0))
    rig.advance(case["run_ms"] / 1000.0)
    rows = []
    for rec in log:
        if rec[0] == "ev":
            rows.append([rec[3], rec[4], repr(rec[1] - t0)])
        elif rec[0] == "set":
            rows.append(["set", int(rec[2][1:]), repr(rec[1] - t0), repr((rec[5] or 0) - t0)])
    stopped = rs.stopped
    rs.stop()
    rig.advance(0)
    left = sum(len(m.lights["l%d" % l].stack) for l in range(NLIGHTS))
    _leave_case([rs], [name])
    return {"rows": rows, "stopped": stopped, "left": left, "t0": repr(t0)}


def oracle_generic(case, out):
    fails = []
    durs = [Fraction(d, 1000) for d in case["durs_ms"]]
    sp = Fraction(case["speed"])            # the float the implementation divides by, exactly
    n = len(durs)
    acc = Fraction(0)
    k = 0
    eps = Fraction(1, 1000000)
    for r in out["rows"]:
        if r[0] == "marker":
            t = Fraction(float(r[2]))
            if r[1] != k % n or abs(t - acc) >= eps:
                fails.append({"sig": "drift", "what": "generic stream: executed step #%d is step %d at %s s after play; "
                              "schedule: step %d at %s s" % (k, r[1], r[2], k % n, float(acc))})
                break
            acc += durs[k % n] / sp
            k += 1
    if out["left"]:
        fails.append({"sig": "context-left-after-stop", "what": "entries left on light stacks after stop()"})
    played = sum(1 for r in out["rows"] if r[0] == "played")
    if played != 1:
        fails.append({"sig": "played-count", "what": "played posted %d times" % played})
    if case["loops"] >= 0:
        total = (case["loops"] + 1) * n
        end = sum(durs[j % n] for j in range(total)) / sp
        if end + eps < Fraction(case["run_ms"], 1000):
            c = sum(1 for r in out["rows"] if r[0] == "completed")
            lo = sum(1 for r in out["rows"] if r[0] == "looped")
            if k != total or c != 1 or lo != case["loops"] or not out["stopped"]:
                fails.append({"sig": "loop-count", "what": "generic stream: %d steps, %d looped, %d completed; expected "
                              "%d steps, %d looped, 1 completed" % (k, lo, c, total, case["loops"])})
    return fails


def shrink_generic(case):
    if len(case["durs_ms"]) > 1:
        yield dict(case, durs_ms=case["durs_ms"][1:])
        yield dict(case, durs_ms=case["durs_ms"][:-1])
    if case["run_ms"] > 3000:
        yield dict(case, run_ms=case["run_ms"] // 2)
    if case["t0_ms"]:
        yield dict(case, t0_ms=0)


def gen_player(rng, tier, i):
    """the same request sequences through the show_player (keys k<sid>): advance / step_back by one step only, no
    manual_advance (the player's update action always passes manual_advance)"""
    c = gen_sched(rng, tier, i)
    for sh in c["shows"]:
        sh["manual"] = False
    c["ops"] = [[t, sid, k, (1 if k in ("advance", "step_back") else a), 0] for t, sid, k, a, b in c["ops"]]
    return c


def run_player(case):
    return run_sched(case, via="player")


def oracle_player(case, out):
    # after a stop action the player forgets the key: later requests for it are not delivered, which is what the
    # property oracle expects of a stopped show anyway
    return oracle_sched(case, out)


# ------------------------------------------------------------------------------------------------
# prio: show_player entries of modes (calling priority = mode priority) and of the machine config, triggered
# repeatedly by their events; concurrent shows of different priorities on the same lights.  Oracle only.
def gen_prio(rng, tier, i):
    ops = []
    t = 0
    for name in sorted(PRIO_MODES):
        if rng.random() < 0.9:
            ops.append([t, "mode_start", name])
    evs = sorted(PRIO_ENTRIES)
    fav = rng.sample(evs, 2)
    for _ in range(rng.choice([3, 5, 8, 12])):
        # same instant (the running show is still on its first step), or later
        t += rng.choice([0, 0, 1, 4, 8, 8, 12, 16, 40])
        r = rng.random()
        if r < 0.08:
            ops.append([t, "mode_stop", rng.choice(sorted(PRIO_MODES))])
        elif r < 0.14:
            ops.append([t, "mode_start", rng.choice(sorted(PRIO_MODES))])
        else:
            ops.append([t, "trigger", rng.choice(fav) if rng.random() < 0.6 else rng.choice(evs)])
    return {"ops": ops, "horizon": t + rng.choice([4, 16, 48])}


def _canon(x):
    if isinstance(x, dict):
        return sorted(([repr(_canon(k)), _canon(v)] for k, v in x.items()), key=lambda kv: kv[0])
    if isinstance(x, (list, tuple)):
        return [_canon(v) for v in x]
    if x is None or isinstance(x, (bool, int, float, str)):
        return x
    return [type(x).__name__, str(getattr(x, "name", "")), str(getattr(x, "text", ""))]


def _prio_config_canon(m):
    out = {"machine": _canon(m.config.get("show_player", {}))}
    for name in PRIO_MODES:
        out[name] = _canon(m.modes[name].config.get("show_player", {}))
    return out


def run_prio(case):
    import json as _json
    rig, m, log = _G["rig"], _G["m"], _G["log"]
    now = rig.now()
    base = (int(now) // 6 + 1) * 6.0
    rig.advance(base - now)
    for l in range(NLIGHTS):
        m.lights["l%d" % l].clear_stack()
    rig.advance(0)
    sp = m.show_controller.show_players["shows"]
    canon0 = _json.dumps(_prio_config_canon(m), sort_keys=True)
    seen = {}            # show id -> [context, key, RunningShow]
    recs = []
    exc = None

    def inst(ctx, key):
        return sp.instances.get(ctx, {}).get("show_player", {}).get(key)

    def scan():
        for ctx, d in sp.instances.items():
            if ctx == "_global" or ctx in PRIO_MODES:
                for key, rs in d.get("show_player", {}).items():
                    seen[rs.id] = [ctx, key, rs]

    try:
        for t, kind, arg in case["ops"]:
            target = base + t / 32.0
            if target > rig.now():
                rig.advance(target - rig.now())
            rec = {"t": t, "kind": kind, "arg": arg,
                   "active": {name: bool(m.modes[name].active) for name in PRIO_MODES}}
            if kind == "trigger":
                e = PRIO_ENTRIES[arg]
                ctx = e["mode"] or "_global"
                key = e.get("key") or e["show"]
                old = inst(ctx, key)
                rec["before"] = None if old is None else [old.id, int(old.stopped), old.current_step_index]
                rig.post(arg)
                rig.advance(0)
                new = inst(ctx, key)
                rec["after"] = None if new is None else [new.id, int(new.stopped), new.show_config.priority]
            elif kind == "mode_start":
                rig.post("%s_start" % arg)
                rig.advance(0)
            else:
                scan()
                rig.post("%s_stop" % arg)
                rig.advance(0)
                rec["left"] = sorted(sp.instances.get(arg, {}).get("show_player", {}))
            rig.advance(0)
            scan()
            rec["alive"] = sorted([sid, v[0], v[1], v[2].show_config.priority] for sid, v in seen.items()
                                  if not v[2].stopped)
            rec["stacks"] = [[[int(en.key.split(".")[0][5:]) if en.key.startswith("show_") else -1, en.priority]
                              for en in m.lights["l%d" % l].stack] for l in range(NLIGHTS)]
            rec["cfg_same"] = _json.dumps(_prio_config_canon(m), sort_keys=True) == canon0
            recs.append(rec)
        rig.advance(base + case["horizon"] / 32.0 - rig.now())
    except Exception as ex:
        exc = "%s: %s" % (type(ex).__name__, ex)
    if rig._exception:
        exc = "loop: %r" % (rig._exception,)
        rig._exception = None
    # leave: stop the modes and the machine-wide shows through the players' own API
    try:
        for name in PRIO_MODES:
            rig.post("%s_stop" % name)
        rig.advance(0)
        sp.clear_context("_global")
        rig.advance(0)
    except Exception:
        pass
    end_stacks = [len(m.lights["l%d" % l].stack) for l in range(NLIGHTS)]
    mutated = _json.dumps(_prio_config_canon(m), sort_keys=True) != canon0
    _leave_case([], [])
    if mutated:
        # the shared config is damaged for good: do not let it leak into the next case of this worker
        _G["rig"].stop()
        _boot()
    return {"recs": recs, "exc": exc, "end_stacks": end_stacks}


def oracle_prio(case, out):
    fails = []
    if out.get("exc"):
        return [{"sig": "exception", "what": "show_player raised: %s" % out["exc"]}]
    expected = {}        # show id -> priority it must have
    for rec in out["recs"]:
        if not rec["cfg_same"] and not any(f["sig"] == "config-mutated" for f in fails):
            fails.append({"sig": "config-mutated",
                          "what": "the validated show_player config of the machine/mode changed after %s %s at tick %d"
                                  % (rec["kind"], rec["arg"], rec["t"])})
        if rec["kind"] == "trigger":
            e = PRIO_ENTRIES[rec["arg"]]
            active = e["mode"] is None or rec["active"][e["mode"]]
            before, after = rec["before"], rec["after"]
            if not active:
                if before != (after[:2] + [before[2]] if after and before else after) and (before or after):
                    if (before is None) != (after is None) or (before and after and before[0] != after[0]):
                        fails.append({"sig": "inactive-mode-played", "what": "entry %s acted although its mode is "
                                      "not active" % rec["arg"]})
                continue
            if e.get("action") == "stop":
                if after is not None:
                    fails.append({"sig": "stop-not-honoured", "what": "stop entry %s left an instance" % rec["arg"]})
                continue
            want = e["priority"] + (PRIO_MODES[e["mode"]] if e["mode"] else 0)
            if after is None or after[1]:
                fails.append({"sig": "not-playing", "what": "entry %s: no running show after its event" % rec["arg"]})
                continue
            if after[2] != want:
                fails.append({"sig": "show-priority-wrong",
                              "what": "entry %s (priority %d, calling priority %d): the running show has priority %d "
                                      "after trigger at tick %d" % (rec["arg"], e["priority"], want - e["priority"],
                                                                   after[2], rec["t"])})
                break
            expected[after[0]] = want
            # re-trigger semantics of replace_or_advance_show on the unchanged tree: an identical running show is kept
            # only while it is on its start step and no played/stopped events are configured; otherwise replaced
            if before is not None and not before[1]:
                keep = (not e.get("ev")) and before[2] == 0
                if keep != (before[0] == after[0]):
                    fails.append({"sig": "retrigger-semantics",
                                  "what": "entry %s re-triggered while its show was on step index %s: %s, expected %s"
                                          % (rec["arg"], before[2], "kept" if before[0] == after[0] else "replaced",
                                             "kept" if keep else "replaced")})
        elif rec["kind"] == "mode_stop":
            if rec.get("left"):
                fails.append({"sig": "context-left-after-mode-stop", "what": "mode %s stopped, show_player still holds %s"
                              % (rec["arg"], rec["left"])})
            if any(a[1] == rec["arg"] for a in rec["alive"]):
                fails.append({"sig": "context-left-after-mode-stop", "what": "mode %s stopped, its shows still run"
                              % rec["arg"]})
        alive = {a[0]: a for a in rec["alive"]}
        for l, st in enumerate(rec["stacks"]):
            for owner, prio in st:
                if owner not in alive:
                    fails.append({"sig": "context-left-after-stop", "what": "light l%d holds an entry of show %d which "
                                  "is not running (tick %d)" % (l, owner, rec["t"])})
                elif owner in expected and prio != expected[owner]:
                    fails.append({"sig": "stack-priority-wrong", "what": "light l%d: entry of show %d has priority %d, "
                                  "the show must have %d" % (l, owner, prio, expected[owner])})
            if [p for _, p in st] != sorted([p for _, p in st], reverse=True):
                fails.append({"sig": "stack-order", "what": "light l%d stack is not ordered by priority: %s" % (l, st)})
        if any(f["sig"] != "config-mutated" for f in fails):
            break
    if any(out["end_stacks"]):
        fails.append({"sig": "context-left-after-stop", "what": "entries left on the light stacks after every mode and "
                      "show was stopped: %s" % out["end_stacks"]})
    return fails


def shrink_prio(case):
    ops = case["ops"]
    for i in range(len(ops)):
        yield {"ops": ops[:i] + ops[i + 1:], "horizon": case["horizon"]}
    for i, o in enumerate(ops):
        if o[0] > 0:
            d = o[0] - (ops[i - 1][0] if i else 0)
            if d > 0:
                yield {"ops": ops[:i] + [[x[0] - d, x[1], x[2]] for x in ops[i:]], "horizon": case["horizon"] - d}


def nontrivial_prio(case, out):
    cnt = {}
    for rec in out.get("recs", []):
        if rec["kind"] == "trigger":
            e = PRIO_ENTRIES[rec["arg"]]
            if e["mode"] and rec["active"][e["mode"]] and e.get("action") != "stop":
                cnt[rec["arg"]] = cnt.get(rec["arg"], 0) + 1
    return any(v >= 2 for v in cnt.values())


def describe_prio(case):
    n = sum(1 for o in case["ops"] if o[1] == "trigger")
    return "triggers=%s" % ("<=3" if n <= 3 else "4-8" if n <= 8 else ">8")



# ------------------------------------------------------------------------------------------------
# replay: shows with `(token)` placeholders and show pools played REPEATEDLY through show_player on a few keys:
# identical and non-identical requests while the previous show of the key runs (start step / later steps), after it
# was stopped, after it completed by itself; sync_ms 0 and > 0 (the old show's stop is the new show's
# start_callback), block_queue (stop callback = queue.clear).  Fed to the model of coq/C17/Replay.v and to the oracle.
TOKS = ["ta", "tb", "tc", "td", "te"]            # light, light, colour, colour, event name
TOKID = {n: i for i, n in enumerate(TOKS)}
TOKCOL = {1: "red", 2: "lime", 3: "blue"}
TOKEV = {1: "x", 2: "y"}
MAXSLOTS = 14
XKINDS = [k for k in EVKINDS if k != "updated"]


def _tokval(name, v):
    if name in ("ta", "tb"):
        return "l%d" % v
    if name in ("tc", "td"):
        return TOKCOL[v]
    return TOKEV[v]


def gen_src(rng, short):
    n = rng.choice([1, 1, 2, 2, 3, 4])
    steps = []
    use_tok = rng.random() < 0.8
    for k in range(n):
        d = rng.choice([4, 4, 8, 8] if short else [4, 8, 8, 16, 24, 32])
        acts = []
        for l in (2, 3):
            if rng.random() < 0.45:
                acts.append([l, rng.choice([1, 2, 3, 4, 5, 0, 6, 7, "tc", "td", "tcF"]) if use_tok
                             else rng.choice([1, 2, 3, 4, 5, 0, 6, 7])])
        if use_tok:
            for lt in ("ta", "tb"):
                if rng.random() < 0.55:
                    acts.append([lt, rng.choice([1, 2, 3, "tc", "td", "tc", "td", "tdF", 0])])
        if not acts:
            acts.append([rng.choice([2, 3]), rng.choice([1, 2, 3])])
        rng.shuffle(acts)
        steps.append({"d": d, "a": acts, "e": "te" if (use_tok and rng.random() < 0.4) else None})
    return {"steps": steps}


def _src_tokens(src):
    out = set()
    for st in src["steps"]:
        for l, c in st["a"]:
            if isinstance(l, str):
                out.add(l)
            if isinstance(c, str):
                out.add(c[:2])
        if st["e"]:
            out.add(st["e"])
    return out


def gen_tokdict(rng):
    la = rng.choice([0, 1])
    vals = {"ta": la, "tb": 1 - la, "tc": rng.choice([1, 2, 3]), "td": rng.choice([1, 2, 3]), "te": rng.choice([1, 2])}
    return [[n, vals[n]] for n in TOKS]


def vary_tokdict(rng, tok):
    d = dict((n, v) for n, v in tok)
    r = rng.random()
    if r < 0.3:
        d["ta"], d["tb"] = d["tb"], d["ta"]
    elif r < 0.6:
        d["tc"], d["td"] = d["td"], d["tc"]
    elif r < 0.75:
        d["tc"] = rng.choice([1, 2, 3])
    elif r < 0.85:
        d["te"] = 3 - d["te"]
    order = [n for n, _ in tok]
    if rng.random() < 0.25:
        rng.shuffle(order)
    return [[n, d[n]] for n in order]


def gen_replay(rng, tier, i):
    short = rng.random() < 0.5          # short finite shows: completion by itself between requests
    nsrc = rng.choice([1, 2, 2, 3])
    srcs = [gen_src(rng, short) for _ in range(nsrc)]
    pools = []
    for _ in range(rng.choice([0, 1, 1, 2])):
        pools.append({"type": rng.choice(["sequence", "sequence", "random"]),
                      "members": [rng.randrange(nsrc) for _ in range(rng.choice([1, 2, 2, 3]))]})
    palette = []
    for _ in range(rng.choice([1, 2, 2, 3])):
        if palette and rng.random() < 0.6:
            e = dict(palette[-1])
            r = rng.random()
            if r < 0.5:
                e["tok"] = vary_tokdict(rng, e["tok"]) if e["tok"] else e["tok"]
            elif r < 0.65:
                e["start"] = e["start"] + 1
            elif r < 0.75:
                e["speed4"] = rng.choice([2, 4, 8])
            elif r < 0.85:
                e["sync"] = rng.choice([0, 8, 16])
            else:
                e["ev"] = not e["ev"]
            palette.append(e)
            continue
        ref = 100 + rng.randrange(len(pools)) if pools and rng.random() < 0.45 else rng.randrange(nsrc)
        members = pools[ref - 100]["members"] if ref >= 100 else [ref]
        n = len(srcs[members[0]]["steps"])
        need = set().union(*[_src_tokens(srcs[mm]) for mm in members])
        palette.append({"show": ref, "tok": gen_tokdict(rng) if (need or rng.random() < 0.3) else [],
                        "prio": rng.choice([0, 0, 1, 2]),
                        "speed4": rng.choice([2, 4, 4, 4, 8]),
                        "loops": rng.choice([0, 0, 0, 1] if short else [-1, -1, 0, 1, 2]),
                        "start": rng.choice([1, 1, 1, 1, 2, n, n, n + 1, 0, -1]),
                        "sync": rng.choice([0, 0, 0, 0, 8, 16]),
                        "manual": rng.random() < 0.12, "running": rng.random() > 0.06,
                        "ev": rng.random() < 0.25, "bq": rng.random() < 0.2})
    nkeys = rng.choice([1, 1, 2])
    ops = []
    # mostly odd ticks: shows started at once then run on odd ticks and never have a step due at a sync boundary
    # (a multiple of 8 ticks) at which a synchronised replacement stops them (order of equal deadlines: see _tie)
    odd = rng.random() < 0.8
    t = 2 * rng.randint(0, 20) + 1 if odd else rng.choice([0, 0, 4, rng.randint(0, 40)])
    nplay = 0
    waiting = {}
    for j in range(rng.choice([3, 4, 5, 6, 8, 10])):
        key = rng.randrange(nkeys)
        if j == 0 or (rng.random() < 0.62 and nplay < MAXSLOTS):
            pi = rng.randrange(len(palette))
            sy = palette[pi]["sync"]
            bnd = t + sy - t % sy if sy else None
            if sy and bnd in waiting.setdefault(key, set()) and rng.random() < 0.9:
                # the show of this key still waits for the same sync boundary: two starts due at one instant, the
                # later one stopping the earlier one (see _tie): rarely generated
                ops.append([t, key, "probe", 0])
            else:
                ops.append([t, key, "play", pi])
                waiting.setdefault(key, set()).add(bnd)
                nplay += 1
        else:
            ops.append([t, key, rng.choice(["stop", "pause", "resume", "advance", "advance", "step_back", "probe"]), 0])
        t += rng.choice([0, 0, 1, 4, 4, 8, 8, 12, 16, 32, 64, 64] if short else [0, 0, 1, 4, 4, 8, 8, 12, 16, 32, 48])
        if odd and t % 2 == 0:
            t += 1
    return {"srcs": srcs, "pools": pools, "palette": palette, "nkeys": nkeys,
            "fades": [0] * NLIGHTS if rng.random() < 0.5 else [rng.choice([0, 4, 8]) for _ in range(NLIGHTS)],
            "ops": ops, "horizon": ops[-1][0] + rng.choice([24, 64, 128])}


def src_yaml(src):
    out = []
    for st in src["steps"]:
        lights = {}
        for l, c in st["a"]:
            ln = "(%s)" % l if isinstance(l, str) else "l%d" % l
            if isinstance(c, str):
                cn = "(%s)" % c[:2] + ("-f250ms" if c.endswith("F") else "")
            else:
                cn = STOPS[c] if c in STOPS else COLORS[c]
            lights[ln] = cn
        out.append({"duration": _ms(st["d"]), "lights": lights,
                    "events": "c17r_(%s)" % st["e"] if st["e"] else "c17r_m"})
    return out


def subst_src(src, tok):
    """independent substitution of a token dict into the abstract source steps: per step the set of
    (light, colour code | stop code)"""
    d = dict((n, v) for n, v in tok)
    out = []
    for st in src["steps"]:
        acts = set()
        for l, c in st["a"]:
            li = d[l] if isinstance(l, str) else l
            ci = d[c[:2]] if isinstance(c, str) else c
            acts.add((li, ci))
        if st["e"]:
            acts.add((100, d[st["e"]]))
        out.append(sorted(acts))
    return out


def replay_init():
    sched_init()
    if _G.get("replay"):
        return
    _G["replay"] = True
    log = _G["log"]
    from mpf.config_players.event_player import EventPlayer
    from mpf.config_players.light_player import LightPlayer
    oep, occ = EventPlayer.play, LightPlayer.clear_context

    def ep(self, settings, context, calling_context, priority=0, **kwargs):
        if _G.get("replay_on") and isinstance(context, str) and context.startswith("show_"):
            log.append(("step", _G["m"].clock.get_time(), context, calling_context,
                        sorted(str(k) for k in settings), kwargs.get("start_time")))
        return oep(self, settings, context, calling_context, priority, **kwargs)

    def cc(self, context):
        if _G.get("replay_on"):
            log.append(("ctxclear", _G["m"].clock.get_time(), context))
        return occ(self, context)
    EventPlayer.play = ep
    LightPlayer.clear_context = cc
    _install_slot_handlers()


def _install_slot_handlers():
    m, log = _G["m"], _G["log"]
    if getattr(m, "_c17_slots", False):
        return
    m._c17_slots = True

    def mk(slot, kind):
        def h(**kwargs):
            log.append(("xev", m.clock.get_time(), slot, kind))
        return h
    for slot in range(MAXSLOTS + 1):
        for kind in XKINDS:
            m.events.add_handler("c17x_%d_%s" % (slot, kind), mk(slot, kind))


def run_replay(case):
    import json as _json
    from mpf.core.events import QueuedEvent
    rig, m, log = _G["rig"], _G["m"], _G["log"]
    _install_slot_handlers()
    _G["replay_on"] = True
    try:
        return _run_replay(case)
    finally:
        _G["replay_on"] = False


def _run_replay(case):
    import json as _json
    from mpf.core.events import QueuedEvent
    rig, m, log = _G["rig"], _G["m"], _G["log"]
    _G["n"] += 1
    now = rig.now()
    base = (int(now) // 6 + 1) * 6.0
    rig.advance(base - now)
    fades = case.get("fades") or [0] * NLIGHTS
    for l in range(NLIGHTS):
        m.lights["l%d" % l].clear_stack()
        m.lights["l%d" % l].default_fade_ms = fades[l] * 125 // 4
    rig.advance(0)
    del log[:]
    names = []
    for i, src in enumerate(case["srcs"]):
        name = "c17r_%d_%d" % (_G["n"], i)
        m.show_controller.register_show(name)
        m.shows[name].load(src_yaml(src))
        names.append(name)
    pnames = []
    for j, p in enumerate(case["pools"]):
        pn = "c17rp_%d_%d" % (_G["n"], j)
        m.show_controller._create_show_pool({"show_pools": {pn: {"shows": ", ".join(names[i] for i in p["members"]),
                                                                 "type": p["type"]}}})
        pnames.append(pn)
    steps0 = _json.dumps([_canon(m.shows[nme].show_steps) for nme in names], sort_keys=True)
    sp = m.show_controller.show_players["shows"]
    nslots = sum(1 for o in case["ops"] if o[2] == "play")
    out = {"exc": None, "offgrid": False}
    valid = {}           # (palette index, key) without events -> the validated entry (one config entry, triggered again)
    valid0 = {}
    id2slot = {}
    insts = [None] * nslots
    inst_steps0 = [None] * nslots
    snaps, bsnaps, post = [], [], []
    cbrows = [[] for _ in range(nslots)]

    class Q(QueuedEvent):
        def __init__(self, slot):
            super().__init__(lambda *a: None)
            self.slot = slot

        def clear(self):
            t = rig.now()
            if 0 <= self.slot < nslots:
                cbrows[self.slot].append(t)
            return super().clear()

    def bind_snap():
        d = sp.instances.get("_global", {}).get("show_player", {})
        rows = []
        for k in range(case["nkeys"]):
            rs = d.get("k%d" % k)
            rows.append([-1, 0] if rs is None else [id2slot.get(rs.id, -2), int(rs.stopped)])
        rows.append([-1 if rs is None else int(rs.stopped) for rs in insts])
        return rows

    slot = -1
    try:
        for t, key, kind, a in case["ops"]:
            target = base + t / 32.0
            if target > rig.now():
                rig.advance(target - rig.now())
            log.append(("op", rig.now(), key, kind))
            kname = "k%d" % key
            info = None
            if kind == "play":
                slot += 1
                e = case["palette"][a]
                ck = (a, key)
                if e["ev"] or ck not in valid:
                    st = {"action": "play", "key": kname, "priority": e["prio"], "speed": e["speed4"] / 4.0,
                          "start_step": e["start"], "loops": e["loops"], "sync_ms": e["sync"] * 125 // 4,
                          "manual_advance": e["manual"], "start_running": e["running"], "block_queue": e["bq"],
                          "show_tokens": {n: _tokval(n, v) for n, v in e["tok"]}}
                    if e["ev"]:
                        st.update({"events_when_" + k: "c17x_%d_%s" % (slot, k) for k in XKINDS})
                    ref = pnames[e["show"] - 100] if e["show"] >= 100 else names[e["show"]]
                    v = sp.validate_config_entry({ref: st}, "c17")
                    if not e["ev"]:
                        valid[ck] = v
                        valid0[ck] = _json.dumps(_canon(v), sort_keys=True)
                else:
                    v = valid[ck]
                d = sp.instances.get("_global", {}).get("show_player", {})
                old = d.get(kname)
                info = {"old": None if old is None else [id2slot.get(old.id, -2), int(old.stopped),
                                                         -1 if old.current_step_index is None else old.current_step_index]}
                q = Q(slot) if e["bq"] else None
                sp.play(v, "_global", None, 0, queue=q)
                new = sp.instances["_global"]["show_player"].get(kname)
                if new is not None and new.id not in id2slot:
                    id2slot[new.id] = slot
                    insts[slot] = new
                    inst_steps0[slot] = _json.dumps(_canon(new.show_steps), sort_keys=True)
                info["new"] = None if new is None else [id2slot.get(new.id, -2), int(new.stopped),
                                                        -1 if new.current_step_index is None else new.current_step_index]
            elif kind != "probe":
                sp.play(sp.validate_config_entry({kname: {"action": kind}}, "c17"), "_global", None, 0)
            rig.advance(0)
            rig.advance(0)
            post.append(info)
            ctx2slot = {"show_%d.light_player" % i: s for i, s in id2slot.items()}
            snaps.append(_snapshot(m, ctx2slot))
            bsnaps.append(bind_snap())
        rig.advance(base + case["horizon"] / 32.0 - rig.now())
        rig.advance(0)
        ctx2slot = {"show_%d.light_player" % i: s for i, s in id2slot.items()}
        snaps.append(_snapshot(m, ctx2slot))
        bsnaps.append(bind_snap())
    except Exception as ex:
        out["exc"] = "%s: %s" % (type(ex).__name__, ex)
    if rig._exception:
        out["exc"] = "loop: %r" % (rig._exception,)
        rig._exception = None
    ctx2slot = {"show_%d.light_player" % i: s for i, s in id2slot.items()}
    c2slot = {"show_%d" % i: s for i, s in id2slot.items()}

    def us(x):
        r = _us(x, base)
        if r is None:
            out["offgrid"] = True
            return int(round((x - base) * 1e6))
        return r
    finals, members = [], []
    for rs in insts:
        if rs is None:
            finals.append([0])
            members.append(-1)
        else:
            h = rs._delay_handler
            pending = h is not None and not h.cancelled() and h.when() > rig.now()
            finals.append([1, int(rs.stopped), rs.next_step_index, rs.loops, us(rs.next_step_time),
                           us(h.when()) if pending else -1])
            members.append(names.index(rs.name) if rs.name in names else -2)
    ev = [[] for _ in range(nslots)]
    lops = [[] for _ in range(nslots)]
    fends = [[] for _ in range(nslots)]
    execs = [[] for _ in range(nslots)]          # [time, step index, sorted [(light, code)]] in program order
    tstop = [None] * nslots
    cur = [[] for _ in range(nslots)]
    evval = {"c17r_x": 1, "c17r_y": 2}
    for rec in log:
        if rec[0] == "op":
            continue
        t = us(rec[1])
        if rec[0] == "xev":
            if rec[2] < nslots:
                ev[rec[2]].append([rec[2], t, EVCODE[rec[3]], 0, 0, 0])
        elif rec[0] == "step":
            s = c2slot.get(rec[2])
            if s is None:
                continue
            for nme in rec[4]:
                if nme in evval:
                    lops[s].append([s, t, 10, 100, evval[nme], us(rec[5]) if rec[5] else -7])
                    cur[s].append((100, evval[nme]))
                elif nme != "c17r_m":
                    cur[s].append((100, -1))
            ev[s].append([s, t, 0, rec[3], 0, 0])
            execs[s].append([t, rec[3], sorted(cur[s])])
            cur[s] = []
        elif rec[0] == "ctxclear":
            s = ctx2slot.get(rec[2] + ".light_player") if not rec[2].endswith(".light_player") else ctx2slot.get(rec[2])
            if s is not None and tstop[s] is None:
                tstop[s] = t
        elif rec[0] in ("set", "rem", "clear", "fade_end"):
            kind, _, lname, col, key, extra = rec
            s = ctx2slot.get(key)
            if s is None:
                continue
            l = int(lname[1:])
            if kind == "set":
                code = RGB2CODE.get(col, -1)
                lops[s].append([s, t, 10, l, code, us(extra) if extra else -7])
                cur[s].append((l, code))
            elif kind == "rem":
                lops[s].append([s, t, 11, l, -1 if col is None else int(col) * 1000, 0])
                cur[s].append((l, {None: 0, 250: 6, 0: 7}.get(col, -9)))
            elif kind == "fade_end":
                fends[s].append([s, t, 13, l, 0, 0])
            elif extra:
                lops[s].append([s, t, 12, l, 0, 0])
    for rows in lops:
        rows.sort(key=lambda r: (r[1], r[3]))            # stable: as Replay.sort_rows
    for s, rows in enumerate(fends):
        busy = set((r[1], r[3]) for r in lops[s])
        rows[:] = sorted((r for r in rows if (r[1], r[3]) not in busy), key=lambda r: (r[1], r[3]))
    mutated = []
    for ck, v in valid.items():
        if _json.dumps(_canon(v), sort_keys=True) != valid0[ck]:
            mutated.append("validated show_player entry %s" % (ck,))
    if _json.dumps([_canon(m.shows[nme].show_steps) for nme in names], sort_keys=True) != steps0:
        mutated.append("Show.show_steps")
    for s, rs in enumerate(insts):
        if rs is not None and _json.dumps(_canon(rs.show_steps), sort_keys=True) != inst_steps0[s]:
            mutated.append("steps of instance %d (cached per token dict)" % s)
    out.update(ev=ev, lops=lops, fends=fends, snaps=snaps, bsnaps=bsnaps, finals=finals, members=members,
               cb=[[[s, _cbus(x, base), 14, 0, 0, 0] for x in xs] for s, xs in enumerate(cbrows)],
               execs=execs, tstop=tstop, post=post, mutated=mutated, nslots=nslots)
    try:
        sp.clear_context("_global")
        rig.advance(0)
    except Exception:
        pass
    _leave_case([rs for rs in insts if rs is not None], names + pnames)
    return out


def _cbus(x, base):
    r = _us(x, base)
    return r if r is not None else int(round((x - base) * 1e6))


def _coq_ref(x, colour):
    if isinstance(x, str):
        return "(Tok %s)" % zlit(TOKID[x[:2]])
    return "(Lit %s)" % zlit(x)


def coq_pcfg(e, pick):
    return "(mkPC %s %s %s %s %s %s %s %s %s %s %s %s)" % (
        zlit(e["show"]), zlit(pick), coqlist("(%s,%s)" % (zlit(TOKID[n]), zlit(v)) for n, v in e["tok"]),
        zlit(e["prio"]), zlit(e["speed4"]), zlit(e["loops"]), zlit(e["start"]), zlit(e["sync"] * TICK_US),
        blit(e["manual"]), blit(e["running"]), blit(e["ev"]), blit(e["bq"]))


def _tie(case, out):
    """a synchronised start whose start callback stops a show that has a timer due at the very same instant: which
    of the two equal deadlines asyncio runs first is not promised, and here it matters (the replaced show does or
    does not run one more step): outside the model's domain, left to the oracle"""
    plays = [(i, o) for i, o in enumerate(case["ops"]) if o[2] == "play"]
    for s, (i, o) in enumerate(plays):
        e = case["palette"][o[3]]
        info = out["post"][i] if i < len(out["post"]) else None
        if not e["sync"] or not info or not info["old"] or not info["new"]:
            continue
        if info["new"][0] != s or info["old"][0] < 0 or info["old"][0] == s or info["old"][1]:
            continue
        cand = set()
        if out["execs"][s]:
            cand.add(out["execs"][s][0][0])
        sync = e["sync"] * TICK_US
        cand.add(o[0] * TICK_US + sync - (o[0] * TICK_US) % sync)
        if out["tstop"][s] is not None:
            cand.add(out["tstop"][s])
        # the replaced show and, through its own pending start callback, every older show of the key that still
        # ran when this request came (the chain of start callbacks)
        before = out["bsnaps"][i - 1][-1] if i > 0 else []
        for a, (ia, oa) in enumerate(plays[:s]):
            if oa[1] != o[1] or a >= len(before) or before[a] != 0:
                continue
            if out["finals"][a][0] and out["finals"][a][4] in cand:
                return True
            if any(x[0] in cand for x in out["execs"][a]):
                return True
    return False


def coq_replay(case, out):
    if out.get("exc") or _tie(case, out):
        return None
    srcs = coqlist(coqlist("(mkSS %s %s)" % (
        zlit(st["d"] * TICK_US),
        coqlist(["(%s,%s)" % (_coq_ref(l, False), _coq_ref(c, True)) for l, c in st["a"]] +
                (["(Lit 100, Tok %s)" % zlit(TOKID[st["e"]])] if st["e"] else []))) for st in src["steps"])
        for src in case["srcs"])
    pools = coqlist("(%s,%s)" % (zlit(0 if p["type"] == "sequence" else 1), zlist(p["members"])) for p in case["pools"])
    ops = []
    slot = -1
    for t, key, kind, a in case["ops"]:
        if kind == "play":
            slot += 1
            pick = out["members"][slot] if slot < len(out["members"]) else -1
            act = "(XPlay %s %s)" % (zlit(slot), coq_pcfg(case["palette"][a], pick))
        else:
            act = {"stop": "XStop", "pause": "XPause", "resume": "XResume", "advance": "XAdvance",
                   "step_back": "XStepBack", "probe": "XProbe"}[kind]
        ops.append("(%s,%s,%s)" % (zlit(t * TICK_US), zlit(key), act))
    nslots = out["nslots"]
    fuel = ((case["horizon"] + 2) * max(nslots, 1) + len(case["ops"]) + 8) * (NLIGHTS + 1)
    inp = "(%s, %s, %s, %s, %s, %s, %s, %s)" % (
        srcs, pools, zlist([f * TICK_US for f in case["fades"]]), zlit(case["nkeys"]), zlit(nslots),
        coqlist(ops), zlit(case["horizon"] * TICK_US), zlit(fuel))
    exp = "((%s, %s, %s, %s, %s), %s, %s, %s)" % (
        coqlist(zll(rows) for rows in out["ev"]),
        coqlist(zll(rows) for rows in out["lops"]),
        coqlist(zll(rows) for rows in out["fends"]),
        coqlist(coqlist(zlist([x for e in st for x in e]) for st in snap) for snap in out["snaps"]),
        zll(out["finals"]),
        coqlist(zll(b) for b in out["bsnaps"]),
        coqlist(zll(rows) for rows in out["cb"]),
        zlist(out["members"]))
    return "(%s, %s)" % (inp, exp)


HDR_REPLAY = ("From C17 Require Import Model Replay.\nDefinition run := C17.Replay.xrun.\n"
              "Definition out_eqb := C17.Replay.xout_eqb.\n")


def oracle_replay(case, out):
    fails = []
    if out.get("exc"):
        return [{"sig": "exception", "what": "a show_player request raised: %s" % out["exc"]}]
    if out.get("offgrid"):
        fails.append({"sig": "drift-offgrid", "what": "an effect happened at an instant that is not on the exact grid"})
    for what in out["mutated"]:
        fails.append({"sig": "config-mutated", "what": "%s changed while shows were played" % what})
    nslots = out["nslots"]
    ops = case["ops"]
    plays = [(i, o) for i, o in enumerate(ops) if o[2] == "play"]
    entry = [case["palette"][o[3]] for _, o in plays]
    play_t = [o[0] * TICK_US for _, o in plays]
    play_key = [o[1] for _, o in plays]
    hz = case["horizon"] * TICK_US
    # which instance every request was delivered to (the one bound to the key before the request)
    ctl = [[] for _ in range(nslots)]         # non-play requests an instance received: (time, kind)
    for i, o in enumerate(ops):
        if o[2] in ("play", "probe") or i == 0:
            continue
        b = out["bsnaps"][i - 1][o[1]]
        if b[0] >= 0:
            ctl[b[0]].append((o[0] * TICK_US, o[2]))
    seqpos = {}
    for s in range(nslots):
        e = entry[s]
        if out["members"][s] < 0:
            continue
        # ---- pools: the member that plays belongs to the pool; a sequence pool goes round
        if e["show"] >= 100:
            p = case["pools"][e["show"] - 100]
            if out["members"][s] not in p["members"]:
                fails.append({"sig": "pool-member-wrong", "what": "slot %d plays a show that is not in its pool" % s})
                continue
            if p["type"] == "sequence":
                k = seqpos.get(e["show"], 0)
                seqpos[e["show"]] = k + 1
                if out["members"][s] != p["members"][k % len(p["members"])]:
                    fails.append({"sig": "pool-sequence-wrong", "what": "sequence pool %d: play #%d used show %d" %
                                  (e["show"] - 100, k, out["members"][s])})
        elif out["members"][s] != e["show"]:
            fails.append({"sig": "wrong-show-played", "what": "slot %d plays show %d, requested %d" %
                          (s, out["members"][s], e["show"])})
            continue
        # ---- token substitution: what every executed step does = ITS token dict put into the show's source steps
        src = case["srcs"][out["members"][s]]
        want = subst_src(src, e["tok"]) if e["tok"] else subst_src(src, [])if not _src_tokens(src) else None
        if want is not None:
            for t, k, acts in out["execs"][s]:
                if k >= len(want) or [list(a) for a in acts] != [list(a) for a in want[k]]:
                    fails.append({"sig": "token-substitution-wrong",
                                  "what": "instance %d (show %d, tokens %s) executed step %d at %d us as %s; its token "
                                          "dict substituted into the source step gives %s" %
                                          (s, out["members"][s], e["tok"], k, t, acts, want[k] if k < len(want) else None)})
                    break
    # ---- every play request ends with a RUNNING show bound to the key that executes from the requested step
    for s, (i, o) in enumerate(plays):
        e = entry[s]
        info = out["post"][i] if i < len(out["post"]) else None
        if info is None:
            continue
        new, old = info["new"], info["old"]
        n_any = [len(src["steps"]) for src in case["srcs"]]
        ms = case["pools"][e["show"] - 100]["members"] if e["show"] >= 100 else [e["show"]]
        # start_step beyond the end: the show wraps (a loop is used up) or completes at once, and the "one step
        # behind -> advance" shortcut compares the raw start_step: an out-of-range oddity (NOTES), not judged here
        may_complete_at_once = any(e["start"] > n_any[mm] for mm in ms)
        if new is None or new[0] == -2:
            fails.append({"sig": "play-request-dropped", "what": "play #%d on key %d: no instance bound" % (s, o[1])})
            continue
        if new[1] and not may_complete_at_once:
            fails.append({"sig": "play-request-dropped",
                          "what": "play #%d on key %d at tick %d: the instance bound to the key afterwards (slot %d) is "
                                  "stopped: the request was dropped" % (s, o[1], o[0], new[0])})
            continue
        if new[1]:
            continue
        inst = new[0]
        n = n_any[out["members"][inst]] if 0 <= inst < nslots and out["members"][inst] >= 0 else None
        if n is None:
            continue
        st = e["start"]
        want_idx = (st - 1) if st > 0 else (st % n if st < 0 else 0)
        if want_idx >= n:
            want_idx = 0
        if inst != s or e["sync"] == 0:
            if new[2] != want_idx:
                fails.append({"sig": "start-step-wrong",
                              "what": "play #%d (start_step %d) on key %d: the running instance is on step index %d"
                                      % (s, st, o[1], new[2])})
        else:
            sync = e["sync"] * TICK_US
            t0 = play_t[s] + sync - play_t[s] % sync
            later = any(oo[2] == "play" and oo[1] == o[1] and o[0] <= oo[0] and oo[0] * TICK_US < t0
                        for oo in ops[i + 1:])     # replaced while it waited (incl. a start at the same instant)
            if (not any(t < t0 for t, k in ctl[s]) and t0 <= hz and _replaced_before(case, out, s, t0) is None
                    and not later and not may_complete_at_once):
                ex = out["execs"][s]
                if not ex or ex[0][0] != t0 or ex[0][1] != want_idx:
                    fails.append({"sig": "start-step-wrong",
                                  "what": "play #%d (sync %d us): first step %s, expected step %d at %d us" %
                                          (s, sync, ex[:1], want_idx, t0)})
        # ---- a replaced show stops exactly when the new one starts
        if old is not None and old[0] >= 0 and not old[1] and inst == s and old[0] != s:
            o_s = old[0]
            if e["sync"] == 0:
                t_new = play_t[s]
            else:
                sync = e["sync"] * TICK_US
                t_new = play_t[s] + sync - play_t[s] % sync
                early = [(t, k) for t, k in ctl[s] if t < t_new]
                if early and early[0][1] != "stop":
                    # recorded defect: a request during the wait for the synchronised start cancels the start
                    if out["finals"][o_s][1] == 0 or (out["tstop"][o_s] is not None and out["tstop"][o_s] > t_new):
                        fails.append({"sig": "played-missing-request-before-sync-start",
                                      "what": "a show that gets a pause/resume/advance/step_back request while it waits "
                                              "for its synchronised start never starts properly: the show it replaces "
                                              "is only stopped when it stops"})
                    continue
                if early:
                    t_new = early[0][0]
                rep = _replaced_before(case, out, s, t_new)
                if rep is not None:
                    t_new = rep      # replaced itself before it started: its stop() runs its start callback
            if t_new > hz:
                continue
            ts = out["tstop"][o_s]
            stopped_end = out["finals"][o_s][1] == 1
            # (it may have completed by itself while the new show waited for its start: earlier is fine)
            if not stopped_end or (ts is not None and ts > t_new) or (e["sync"] == 0 and ts is not None and ts != t_new):
                fails.append({"sig": "replaced-show-not-stopped-at-start",
                              "what": "play #%d on key %d replaces instance %d: the new show starts at %d us, the old one "
                                      "%s" % (s, o[1], o_s, t_new, "is never stopped" if not stopped_end
                                              else "stops at %d us" % ts)})
    # ---- stop callback (queue.clear of block_queue): exactly once, when the show has stopped
    for s in range(nslots):
        rows = out["cb"][s]
        if not entry[s]["bq"]:
            continue
        created = out["members"][s] >= 0
        stopped = created and out["finals"][s][1] == 1
        if len(rows) != (1 if stopped else 0):
            fails.append({"sig": "stop-callback-count",
                          "what": "instance %d (block_queue): the queue was released %d times, the show %s" %
                                  (s, len(rows), "has stopped" if stopped else "has not stopped"
                                   if created else "was never created")})
        elif rows and out["tstop"][s] is not None and rows[0][1] != out["tstop"][s]:
            fails.append({"sig": "stop-callback-at-wrong-time",
                          "what": "instance %d: queue released at %d us, the show stopped at %d us" %
                                  (s, rows[0][1], out["tstop"][s])})
    # ---- schedule of instances that got no control request: k-th executed step at t0 + sum(durations)/speed
    for s in range(nslots):
        e = entry[s]
        if out["members"][s] < 0 or ctl[s] or e["manual"] or not e["running"] or not out["execs"][s]:
            continue
        if any(info and info["old"] and info["old"][0] == s and info["new"] and info["new"][0] == s
               for info in out["post"]):
            continue            # advanced / kept by a later identical request
        durs = [st["d"] * TICK_US for st in case["srcs"][out["members"][s]]["steps"]]
        sync = e["sync"] * TICK_US
        acc = Fraction(play_t[s] + sync - play_t[s] % sync if sync else play_t[s])
        idx = out["execs"][s][0][1]
        for j, (t, k, acts) in enumerate(out["execs"][s]):
            if Fraction(t) != acc or k != idx:
                fails.append({"sig": "drift", "what": "instance %d: executed step #%d is step %d at %d us; schedule says "
                              "step %d at %s us" % (s, j, k, t, idx, acc)})
                break
            acc += Fraction(durs[idx] * 4, e["speed4"])
            idx = (idx + 1) % len(durs)
    # ---- clean-up: at the end a stopped instance owns no live entry
    for l, st in enumerate(out["snaps"][-1] if out["snaps"] else []):
        for owner, col in st:
            if 0 <= owner < nslots and out["finals"][owner][1] == 1 and col != -1:
                fails.append({"sig": "context-left-after-stop",
                              "what": "instance %d has stopped but still owns an entry on light %d at the end" % (owner, l)})
    for s in range(nslots):
        if sum(1 for r in out["ev"][s] if r[2] == 4) > 1 or sum(1 for r in out["ev"][s] if r[2] == 1) > 1:
            fails.append({"sig": "stopped-twice", "what": "instance %d posted played/stopped more than once" % s})
    return fails


def _replaced_before(case, out, s, t0):
    """time (< t0) at which instance s was stopped by a request (stop action / replacement), else None"""
    ts = out["tstop"][s]
    if ts is not None and ts < t0:
        return ts
    # never executed a step: look at the stopped flags after every request
    for i, b in enumerate(out["bsnaps"][:-1]):
        if s < len(b[-1]) and b[-1][s] == 1:
            t = case["ops"][i][0] * TICK_US
            return t if t < t0 else None
    return None


def shrink_replay(case):
    ops = case["ops"]
    for i in range(len(ops) - 1, 0, -1):
        yield dict(case, ops=ops[:i] + ops[i + 1:])
    for pi, e in enumerate(case["palette"]):
        for key, val in (("sync", 0), ("speed4", 4), ("manual", False), ("running", True), ("ev", False),
                         ("bq", False), ("prio", 0)):
            if e[key] != val:
                yield dict(case, palette=case["palette"][:pi] + [dict(e, **{key: val})] + case["palette"][pi + 1:])
    if any(case["fades"]):
        yield dict(case, fades=[0] * NLIGHTS)
    last = max(o[0] for o in ops)
    if case["horizon"] > last + 24:
        yield dict(case, horizon=last + 24)


def nontrivial_replay(case, out):
    if out.get("exc"):
        return True
    # a play request that met a previous instance on its key
    return any(info and info.get("old") for info in out.get("post", []))


def describe_replay(case):
    return "plays=%d%s%s" % (sum(1 for o in case["ops"] if o[2] == "play"), " pool" if case["pools"] else "",
                             " sync" if any(e["sync"] for e in case["palette"]) else "")


SUITES = [
    Suite("sched", gen_sched, run_sched, HDR_SCHED, coq_sched, oracle_sched, shrink_sched, nontrivial_sched,
          {"quick": 1200, "thorough": 40000}, worker_init=sched_init, describe=describe_sched, shard=150),
    Suite("generic", gen_generic, run_generic, None, None, oracle_generic, shrink_generic, lambda c, o: True,
          {"quick": 120, "thorough": 3000}, worker_init=sched_init),
    Suite("player", gen_player, run_player, HDR_PLAYER, coq_sched, oracle_player, shrink_sched, nontrivial_sched,
          {"quick": 400, "thorough": 10000}, worker_init=sched_init, describe=describe_sched, shard=150),
    Suite("prio", gen_prio, run_prio, None, None, oracle_prio, shrink_prio, nontrivial_prio,
          {"quick": 400, "thorough": 10000}, worker_init=sched_init, describe=describe_prio),
    Suite("replay", gen_replay, run_replay, HDR_REPLAY, coq_replay, oracle_replay, shrink_replay, nontrivial_replay,
          {"quick": 400, "thorough": 12000}, worker_init=replay_init, describe=describe_replay, shard=150),
]

LEVEL_TEXT = ("Machine-checked proof (Coq) about an executable model of RunningShow, its control requests, the light "
              "stacks' ownership and fade-out (per-key removal delays), the timer clock and the show_player instance "
              "dictionary: a free-running show executes its k-th step exactly at t0 + (sum of the preceding durations)"
              "/speed for every k and every number of loops, and with loops=L exactly (L+1)*n - start steps, L looped "
              "events, then stops and completes; played/stopped/completed are posted at most once and a stopped show "
              "does nothing more, for every request sequence; a stopped show owns no live light stack entry, what is "
              "left of it is a fade-out whose removal is pending and due exactly at stop + the light's default fade, "
              "after which nothing of it is left, and requests for one show (or the end of its fade-out) never change "
              "what another show has on the lights, for every history of several shows on shared lights with any "
              "default fades; at most one running show per (context, key), stop by key stops exactly that show, a "
              "stopped mode's context ends empty, for every sequence of show_player actions.  The models are tied to "
              "/repo by running both on the same generated request sequences on every run.  Second pass (Replay.v): "
              "whatever token dicts were played before, a play gets the substitution of ITS OWN token dict into the "
              "show's source steps (a cache keyed by the sorted values is refuted); after a play request the key is "
              "bound to the new show or to a previous one that has not stopped (keep / advance), a dead or missing "
              "previous instance always gives a new show of the requested configuration from the requested step; a "
              "show replaced in sync is stopped when the new show's start timer expires or when the new show is "
              "stopped before; the stop callback runs when the show stops and never again.")
LEVEL_NOTE = ("Trusted: Coq kernel + vm_compute; no axioms. Models hand-written (of the code with fixes/C17-*.patch); "
              "correspondence (differential) validates them against the working tree on the exact 1/32 s grid (sched "
              "suite: direct API; player suite: through show_player); the generic (non-grid) stream, the replacement / "
              "keep / advance branches of replace_or_advance_show, calling priorities and the mode route of "
              "clear_context (prio suite) are checked by the direct oracle only. Light stack ordering and fade colours "
              "are C09's subject; asset loading from disk, RuntimeToken (typed placeholders), show queues, random pool "
              "selection and show_step= of advance are outside the model.  The replay suite (tokens, pools, "
              "replace_or_advance_show, callbacks) is fed to the model Replay.v AND to the direct oracle.")
TECHNIQUE = "Coq proof over hand-written executable model + differential correspondence (vm_compute) + direct property oracle"
DESIGN_REF = "DESIGN.md section 3, C17"
