"""C11 — Player state is isolated per player and restored on their next turn.

Correspondence: a real MPF game (rig.FakeGameRig = mpf.tests.MpfFakeGameTestCase on the virtual clock) and the Gallina
model interpret the same generated histories (start button / add player, scoring and progress events, drains, extra
balls, end_game, new game).  After every operation the harness dumps every player's variables (LogicBlockState objects
flattened, dicts and lists with their content), the values the devices read through their binding, the running
modes, the machine variables and the player_<var> events with their kwargs; the model must produce the same.
  suite 'game'  (coq/C11/Model.v): one game mode with persisted counters, a persisted accrual, shots with profiles
                (persisted enable flag and profile state) and single-variable variable_player entries.
  suite 'turns' (coq/C11/XModel.v, a second layer on top of Model.step): the same game mode plus variable_player
                entries with 1-4 variables (`player:` overrides, add/set/add_machine/set_machine, int/float/str,
                conditions), two achievements (all eight control events), three optional game modes
                (restart_on_next_ball or not) with their own entries, 3-5 balls per player.
  suite 'ext'   (oracle only): timers, a second game mode with devices that is not running for the next player.
  suite 'groups' (coq/C11/GModel.v, a third layer on top of Model.step; harness/props/c11_groups.py): a shot group with
                rotation over three persisted shots (mixed rotation_pattern, rotate / rotate_left / rotate_right,
                enable_rotation / disable_rotation, state_names_to_not_rotate) and a score queue whose entries are
                still being chimed out when the ball drains, both fed to the model; an achievement group (oracle only).
  all suites:   generic cache oracle: a game mode loaded for a player who never had it loaded in this game leaves its
                devices with the same instance attributes as the first such load on this machine.

Oracle: the property's own predicates, evaluated on the implementation's dumps only (no model): other players'
variables are untouched by an operation unless a variable_player variable names that player with `player: N` (then
exactly that variable changes), a variable without `player:` lands on the player whose turn it is, machine actions
touch no player, what the devices read at a player's ball start equals what they read at that player's previous ball
end (or the configured initial values), the optional modes running after a ball start are exactly the
restart_on_next_ball modes that ran when that player's previous ball ended, achievements are restored as configured,
a new game starts from the initial values, and the player_<var> events of every operation form an exact chain from
the old to the new value of each variable with the owning player's number.
"""
import json

from vlib import Suite, zlit, coqlist, blit

ID = "C11"
READY = True
RULE = ("machine + game-mode configuration drawn per case (1-3 balls per game, up to 4 players, two persisted counters "
        "with random start/complete/direction/interval/reset_on_complete/disable_on_complete/start_enabled, one persisted "
        "accrual, two shots with 2-4 profile states, loop or not, variable_player add/set of int, str and float "
        "variables incl. no-op sets and a first assignment of 0); histories of 10-60 operations from one PRNG: start "
        "button (new game / add player, also when refused), scoring and progress events (also outside a game), drains, "
        "extra balls, end_game, new game.  non-trivial = at least two players had a turn each, a hand-over happened "
        "after their persisted device states had diverged, and a player came back to a second ball; distinct by case "
        "hash.  suite 'turns' (fed to the model XModel.v): the same game mode, 3-5 balls per game, 1-4 players, plus "
        "7 variable_player entries with 1-4 variables each (4 in the always-on mode, one in each optional mode) mixing "
        "`player:` 0 / the current player / another player / a player who does not exist, add / set / add_machine / "
        "set_machine, int / float / str values and conditions on the event argument n (half of the multi-variable "
        "entries put an explicit player first and the current player's variables after it), two achievements with "
        "random restart_on_next_ball_when_started / enable_on_next_ball_when_enabled / restart_after_stop_possible / "
        "start_enabled driven by all eight control events, three optional game modes (restart_on_next_ball random) "
        "started and stopped at generated points; a mode that came back with a ball is stopped again with "
        "probability 0.45 so that 'stopped modes do not come back' is exercised on a third ball; up to 2 games, 30-90 "
        "operations.  non-trivial = a player reached a third ball, a restart mode was carried over and one was "
        "dropped, and an entry with an explicit other player followed by a variable of the current player fired.  "
        "suite 'ext' (validation only, not fed to the model): the 'game' configuration with two achievements and "
        "a running timer added to the game mode, plus a second game mode m2 that only runs when a player starts it "
        "(optionally restart_on_next_ball) with a timer (timed pause, add, start, stop), a shot with persist_enable: false "
        "and machine-wide control_events, a persisted shot with control_events, a persisted accrual (machine-wide step "
        "handlers), a non-persisted and a persisted counter (control events add/subtract/jump, delivered also while "
        "m2 is not running); hand-over scenarios are injected: a timed pause or device progress right before the ball "
        "ends, then 3-6 operations of the next player without m2 (control events, step events, waiting).  "
        "non-trivial = >= 3 distinct achievement readings and a hand-over out of a running m2 followed by >= 3 "
        "operations of the next player without m2.  suite 'groups' (fed to the model GModel.v): the 'game' configuration, "
        "2-4 players, 2-3 balls, plus three persisted shots g1..g3 in a shot group (profile with 2-4 states, loop or "
        "not, a rotation_pattern of 2-5 entries that always mixes both directions, state_names_to_not_rotate in a "
        "quarter of the cases, rotation starting disabled (enable_rotation_events configured) in 30 %), a score queue on "
        "`score` (chimes for 1000/100/10, 125 ms per chime) with three score_queue_player entries drawn from "
        "{10..2100}, three achievements in an achievement group (auto_select, allow_selection_change_while_disabled, "
        "disable_while_achievement_started, enable_while_no_achievement_started random; disable_random: true); per ball: "
        "pattern rotations (30 % of the operations), explicit left/right rotations, rotation on/off, member hits / "
        "advance / reset / enable / disable, achievement life-cycle preludes (enable members, enable the group, select), "
        "group rotate / start_selected / select events, queued scoring; 45 % of the balls end with 1-3 queue entries "
        "posted back to back and the drain 1/16 s later (entries still queued while the ball_ending event is held), the "
        "others with a plain drain; up to 2 games.  non-trivial = a ball with pattern rotations stopped at a cursor "
        "position whose direction differs from the head of the pattern, a later ball (another player / new game) had "
        "pattern rotations, and a hand-over happened with >= 2 entries queued")
TRUSTED_BASE = [
    "Coq 8.16.1 kernel (coqc), vm_compute for evaluating the model in the correspondence run; no native_compute",
    "axioms: none (every Print Assumptions is 'Closed under the global context')",
    "hand-written models coq/C11/Model.v (game, devices), coq/C11/XModel.v (second layer: multi-variable "
    "variable_player entries, machine variables, optional modes with restart_on_next_ball, achievements) and "
    "coq/C11/GModel.v (third layer: shot group rotation cursor / rotation_enabled, score queue) tied to "
    "/repo by correspondence: harness/props/c11.py runs a real game (MpfFakeGameTestCase machine on the virtual "
    "clock) and the model on the same histories and compares all player variables, device reads, running modes, "
    "restart lists, achievement records, machine variables and player_<var> events after every operation",
    "the table variable-name <-> id, event-name <-> id and mode-name <-> id lives in the harness (the model works on "
    "ids); the names the implementation uses for device state ('<block>_state', 'shot_<name>', "
    "'shot_<name>_enabled') are observed in the dumps, an unknown variable name maps to an id the model never produces",
    "MPF's EventManager, Mode start/stop machinery, config loading, template/condition evaluation and the game loop "
    "coroutine are exercised for real but modelled only through their effect on player variables (which player a "
    "handler is bound to, order of posts, condition n==K on the event argument)",
    "suite 'groups': the table MPF event -> model operation for the group's own events (ev_grp_rot -> GRotate None, "
    "ev_grp_rotl/rotr, ev_grp_enrot/disrot, ev_sq<k> -> entries of GSq) lives in the harness; the score queue is "
    "modelled at the granularity of the operation (entries queued, optional drain 1/16 s later, then 5.9 s of virtual "
    "time so that every chime has been played): asyncio's interleaving of the queue task with the held ball_ending "
    "event is exercised for real and modelled through its result (all entries land before the ball ends)",
    "generic cache oracle: instance attributes are compared after canonicalisation (primitives, containers of "
    "primitives, device names, LogicBlockState content; any other object by its type name); ignored by name: the "
    "device's wiring (machine, name, config, mode, tags, label, platform, logging fields, handler-key bookkeeping "
    "event_keys) and Timer.ticks_remaining (derived display value, stale until the first tick)",
]
ASSUMPTIONS = [
    "every MPF event of the alphabet drives at most one action per device; one event may drive several devices "
    "(ev_c2 counts counter c2 and advances shot sh2; ev_c1 counts c1 and scores) but they write different variables, "
    "so handler order inside one dispatch does not matter; variable_player never writes the built-in variables "
    "index/number/ball or device state variables; every event has at most one multi-variable entry",
    "variable_player 'add' is only used on numeric variables (adding to a str variable raises TypeError in MPF); a "
    "variable name occurs once per entry (MPF keys the entry's dict by the variable name without its condition)",
    "`player: N` is generated with N >= 0 only (a negative N indexes player_list from its end in Python); for a "
    "player who does not exist MPF logs 'Failed to set player var' and credits the CURRENT player: modelled as the "
    "code does it and accepted by the oracle (the variable changes in its owner's own turn)",
    "floats stay on the 1/8 grid (exact binary arithmetic); extra_balls is only ever incremented by the config",
    "game modes stop at ball end (MPF rejects game_mode + stop_on_ball_end: false at config time); the optional "
    "modes of suite 'turns' carry variable_player entries but no devices; their priorities are distinct",
    "not modelled in Coq, validated by the oracle-only suite 'ext': timers (a timer's tick variable is "
    "re-initialised at every mode start by design; its ticks depend on the clock phase), a second game mode WITH "
    "DEVICES that is not running for the next player, shots with persist_enable: false, non-persisted logic "
    "blocks, machine-wide control events.  Achievement groups (suite 'groups') are covered by the oracle only.  Not "
    "covered at all: sequences, state machines, ball holds / multiball locks, logic_block_timeout, persist_enable: "
    "false on devices other than shots, variable_player block:/subscriptions, Player.monitor_enabled, bonus mode "
    "entries, extra_ball awards and delayed variable_player entries ({event: delay}), shot group enable / disable / "
    "reset / restart events (the member shots' own events are used), rotate events with an explicit direction kwarg",
    "suite 'groups': every score queue entry is >= 1 and has at most 14 chimes in total per operation; the member "
    "shots of the group are distinct shots of the base configuration; rotation_pattern is not empty",
    "known finding achievement-group-rotation-flag-stuck (known_findings.d/C11.json; proposed repair "
    "fixes/C11-achievement-group-rotation-flag-stuck.patch): after it has struck in a case the achievement group's "
    "automatic behaviour is dead for the rest of that case",
    "suite 'ext': counter control events (add/subtract/jump) are delivered also while mode m2 is not running; since "
    "the repair 6a5039f in /repo (fixes/C11-counter-control-events-without-state.patch) they are ignored then; the "
    "crash the repair removed would be reported as VIOLATION counter-control-event-without-state (the finding is "
    "recorded as fixed, not as known)",
]
DESIGN_REF = "DESIGN.md section 3, C11"
TECHNIQUE = ("Coq proof over an executable Gallina model in three layers (game + devices; multi-variable variable_player, "
             "machine scope, restart_on_next_ball modes, achievements; shot group rotation + score queue) + differential "
             "correspondence (vm_compute) + direct trace oracle incl. a generic device-attribute oracle")
LEVEL_TEXT = ("Machine-checked proof (Coq) over an executable model of Player.__setattr__, persisted logic-block/shot "
              "state, achievements, variable_player and the turn hand-over: for every configuration and every history, "
              "an operation changes only the variables of the player whose turn it is or whom a variable_player "
              "variable names with `player: N`, each variable's target is resolved on its own (frame), what the "
              "devices and achievements read when a player's next ball starts is what they read when that player's "
              "previous ball ended (restore; achievements: the configured image), exactly the restart_on_next_ball "
              "modes that ran at the end of a player's ball run when that player's next ball starts, machine actions "
              "touch no player, a new game does not depend on the previous one and starts every player from the "
              "configured initial values, and every assignment posts exactly one player_<var> event iff it is a new "
              "variable or an effective change of an int/str/float, with value, prev_value, change = value - prev_value "
              "and the owning player's number; a shot group's rotation cursor and rotation_enabled are reset by every "
              "ball start, any sequence of rotations changes only the current player's variables as a function of his "
              "own variables and the rotations of this ball, and everything queued in a score queue during a turn is "
              "added to that turn's player before the hand-over.  The model is tied to the working tree by running "
              "both on the same generated histories on every run.")
LEVEL_NOTE = ("Trusted: Coq kernel + vm_compute; no axioms.  Model hand-written; the correspondence run validates it "
              "against a real game on every run.  Event dispatch order between different variables is not compared "
              "(events are compared per player and variable, in order).  Timers and game modes with devices that do "
              "not run for the next player are covered by the direct oracle only (suite 'ext'), not by the proof; so are "
              "achievement groups (suite 'groups') and the generic device-attribute oracle.")

# ------------------------------------------------------------------------------------------------
# name tables (shared with Model.v: n_index .. n_restart_modes)
VARS = {"index": 1, "number": 2, "score": 3, "ball": 4, "extra_balls": 5, "restart_modes_on_next_ball": 6,
        "pv_int": 10, "pv_str": 11, "v_str": 12, "v_int": 13, "bonus": 14, "v_float": 15, "bonus2": 16,
        "c1_state": 20, "c2_state": 21, "a1_state": 30,
        "shot_sh1": 40, "shot_sh1_enabled": 41, "shot_sh2": 42, "shot_sh2_enabled": 43,
        "xa": 50, "xb": 51, "xf": 52, "xs": 53,
        # suite 'groups': the member shots of the shot group
        "shot_g1": 44, "shot_g1_enabled": 45, "shot_g2": 46, "shot_g2_enabled": 47, "shot_g3": 48, "shot_g3_enabled": 49}
MVARS = {"mv_a": 60, "mv_f": 61, "mv_s": 62}      # machine variables written by variable_player (suite 'turns')
UNKNOWN_VAR = 999
EVENTS = {}


def _ev(name):
    if name not in EVENTS:
        EVENTS[name] = 100 + len(EVENTS)
    return EVENTS[name]


for _c in ("c1", "c2"):
    for _s in ("", "_en", "_dis", "_reset", "_restart"):
        _ev("ev_%s%s" % (_c, _s))
    _ev("logicblock_%s_complete" % _c)
for _s in ("_0", "_1", "_2", "_en", "_dis", "_reset", "_restart"):
    _ev("ev_a1%s" % _s)
_ev("logicblock_a1_complete")
for _c in ("sh1", "sh2"):
    for _s in ("", "_en", "_dis", "_reset", "_adv", "_restart"):
        _ev("ev_%s%s" % (_c, _s))
for _n in ("ev_score", "ev_str1", "ev_str2", "ev_strpv", "ev_set", "ev_addpv", "ev_xb", "ev_float", "ev_two", "ev_nothing"):
    _ev(_n)
POSTABLE = [e for e in EVENTS if e.startswith("ev_")]
# suite 'turns': multi-variable variable_player entries (ev_x*: in the game mode m1, ev_y<k>: in the optional mode
# m<k>) and the start/stop events of the optional game modes m2..m4 (ids after the ones above: the numbering of the
# events of suite 'game' does not move)
X_ENTRY_EVENTS = ["ev_x1", "ev_x2", "ev_x3", "ev_x4"]
X_MODES = (3, 2, 4)                    # in the order of ModeController.active_modes (priority 300, 200, 150)
X_MODE_PRIORITY = {3: 300, 2: 200, 4: 150}
X_ACH_EVENTS = ["ev_%s_%s" % (_a, _s) for _a in ("ach1", "ach2")
                for _s in ("en", "start", "done", "stop", "dis", "reset", "sel", "unsel")]
for _n in X_ENTRY_EVENTS + ["ev_y%d" % _k for _k in X_MODES] + \
        ["ev_m%d_%s" % (_k, _s) for _k in X_MODES for _s in ("start", "stop")] + X_ACH_EVENTS:
    _ev(_n)
# suite 'groups' (harness/props/c11_groups.py): member shots g1..g3, shot group, score queue entries, achievement group
for _c in ("g1", "g2", "g3"):
    for _s in ("", "_en", "_dis", "_reset", "_adv", "_restart"):
        _ev("ev_%s%s" % (_c, _s))
for _n in ["ev_grp_rot", "ev_grp_rotl", "ev_grp_rotr", "ev_grp_enrot", "ev_grp_disrot", "ev_sq1", "ev_sq2", "ev_sq3",
           "ev_agrp_en", "ev_agrp_dis", "ev_agrp_start", "ev_agrp_sel", "ev_agrp_rotr", "ev_agrp_rotl"] + \
        ["ev_%s_%s" % (_a, _s) for _a in ("ga1", "ga2", "ga3") for _s in ("en", "start", "done", "stop", "dis", "sel")]:
    _ev(_n)
# coincidence: the event that counts counter c2 also advances shot sh2 (two devices, one dispatch)
ADV_EVENT = {"sh1": "ev_sh1_adv", "sh2": "ev_c2", "g1": "ev_g1_adv", "g2": "ev_g2_adv", "g3": "ev_g3_adv"}


def shot_names(c):
    return ("sh1", "sh2") + (("g1", "g2", "g3") if c.get("g") else ())


def is_drain(op):
    """operations that make the ball in play drain (suite 'groups': score queue entries followed by a drain)"""
    return op[0] in ("drain", "end_game") or (op[0] == "sq" and bool(op[2]))
PROGRESS = ["ev_c1", "ev_c1", "ev_c2", "ev_a1_0", "ev_a1_1", "ev_a1_2", "ev_sh1", "ev_sh2", "ev_sh1_adv", "ev_score"]


# ------------------------------------------------------------------------------------------------
# generator
def gen_cfg(rng):
    def counter():
        down = rng.random() < 0.25
        start = rng.choice([3, 4, 6]) if down else rng.choice([0, 0, 1, 5])
        comp = rng.choice([None, start - 2, start - 3]) if down else rng.choice([None, start + 2, start + 3, start + 4])
        return {"start": start, "complete": comp, "down": down, "interval": rng.choice([1, 1, 2]),
                "roc": rng.random() < 0.5, "doc": rng.random() < 0.5, "start_enabled": rng.random() < 0.75}

    def shot():
        return {"nstates": rng.choice([2, 3, 4]), "loop": rng.random() < 0.4, "start_enabled": rng.random() < 0.7}
    return {
        "bpg": rng.choice([1, 2, 2, 3]), "maxp": rng.choice([1, 2, 3, 4, 4, 4]),
        "pv_int": rng.choice([0, 5, -3]), "pv_str": rng.choice(["", "abc", "xy"]),
        "c1": counter(), "c2": counter(),
        "a1": {"roc": rng.random() < 0.5, "doc": rng.random() < 0.5, "start_enabled": rng.random() < 0.8},
        "sh1": shot(), "sh2": shot(),
        "score": rng.choice([100, 10, -50, 1]), "c1score": rng.choice([10, 0, 7]), "setv": rng.choice([0, 7, 7, -1]),
        "str1": "xy", "str2": rng.choice(["zz", "", "xy", "abc"]), "addpv": rng.choice([1, -5, 3]),
        "f": rng.choice([4, 1, 12, -4]),      # eighths
    }


def gen(rng, tier, i):
    """histories; a rough tracker of the game (players, balls, extra balls) only steers the probabilities"""
    cfg = gen_cfg(rng)
    n = rng.choice([10, 20, 30, 45, 60])
    ops = []
    g = {"in": False}

    def emit(op):
        ops.append(op)
        if op[0] == "start":
            if not g["in"]:
                g.update({"in": True, "balls": [1], "cur": 0, "xb": [0], "ending": False})
            elif not g["ending"] and len(g["balls"]) < cfg["maxp"] and g["balls"][g["cur"]] <= 1:
                g["balls"].append(0)
                g["xb"].append(0)
        elif not g["in"]:
            return
        elif op == ["post", "ev_xb"]:
            g["xb"][g["cur"]] += 1
        elif op[0] in ("drain", "end_game"):
            if op[0] == "end_game":
                g["ending"] = True
            c = g["cur"]
            if g["xb"][c] > 0:
                g["xb"][c] -= 1
            elif g["ending"] or (g["balls"][c] >= cfg["bpg"] and c == len(g["balls"]) - 1):
                g["in"] = False
            else:
                g["cur"] = (c + 1) % len(g["balls"])
                g["balls"][g["cur"]] += 1

    emit(["start"])
    for _ in range(rng.choice([0, 1, 1, 2, 2, 3])):
        emit(["start"])
    while len(ops) < n:
        r = rng.random()
        if not g["in"]:
            emit(["start"] if r < 0.7 else ["post", rng.choice(POSTABLE)])
            if ops[-1] == ["start"] and rng.random() < 0.7:
                for _ in range(rng.choice([1, 1, 2, 3])):
                    emit(["start"])
            continue
        pd = 0.12 + 0.04 * len(g["balls"])
        if r < pd:
            emit(["drain"])
        elif r < pd + 0.05:
            emit(["start"])
        elif r < pd + 0.075:
            emit(["end_game"])
        elif r < pd + 0.115:
            emit(["post", "ev_xb"])
        else:
            e = rng.choice(PROGRESS) if rng.random() < 0.6 else rng.choice(POSTABLE)
            emit(["post", e])
            if rng.random() < 0.25:
                emit(["post", e])
    return {"cfg": cfg, "ops": ops}


# ------------------------------------------------------------------------------------------------
# the MPF configuration of a case
def ach_config(x):
    out = {}
    for n in ("ach1", "ach2"):
        k = x[n]
        d = {"enable_events": "ev_%s_en" % n, "start_events": "ev_%s_start" % n, "complete_events": "ev_%s_done" % n,
             "stop_events": "ev_%s_stop" % n, "disable_events": "ev_%s_dis" % n, "reset_events": "ev_%s_reset" % n,
             "select_events": "ev_%s_sel" % n, "unselect_events": "ev_%s_unsel" % n,
             "restart_on_next_ball_when_started": k["restart_started"],
             "enable_on_next_ball_when_enabled": k["keep_enabled"],
             "restart_after_stop_possible": k["restart_after_stop"]}
        if k["start_enabled"] is not None:
            d["start_enabled"] = k["start_enabled"]
        out[n] = d
    return out


def build_config(c):
    machine = {
        "modes": ["m1"],
        "game": {"balls_per_game": c["bpg"], "max_players": c["maxp"]},
        "player_vars": {"pv_int": {"initial_value": c["pv_int"], "value_type": "int"},
                        "pv_str": {"initial_value": c["pv_str"], "value_type": "str"}},
    }

    def counter(n):
        k = c[n]
        d = {"count_events": "ev_%s" % n, "enable_events": "ev_%s_en" % n, "disable_events": "ev_%s_dis" % n,
             "reset_events": "ev_%s_reset" % n, "restart_events": "ev_%s_restart" % n,
             "starting_count": k["start"], "count_interval": k["interval"],
             "direction": "down" if k["down"] else "up", "persist_state": True,
             "reset_on_complete": k["roc"], "disable_on_complete": k["doc"], "start_enabled": k["start_enabled"]}
        if k["complete"] is not None:
            d["count_complete_value"] = k["complete"]
        return d

    def shot(n):
        k = c[n]
        return {"hit_events": "ev_%s" % n, "enable_events": "ev_%s_en" % n, "disable_events": "ev_%s_dis" % n,
                "reset_events": "ev_%s_reset" % n, "advance_events": ADV_EVENT[n],
                "restart_events": "ev_%s_restart" % n, "profile": "prof_%s" % n, "start_enabled": k["start_enabled"]}

    def profile(n):
        k = c[n]
        return {"states": [{"name": "st%d" % j} for j in range(k["nstates"])], "loop": k["loop"]}
    a = c["a1"]
    m1 = {
        "mode": {"start_events": "ball_starting", "priority": 100},
        "counters": {"c1": counter("c1"), "c2": counter("c2")},
        "accruals": {"a1": {"events": ["ev_a1_0", "ev_a1_1", "ev_a1_2"], "enable_events": "ev_a1_en",
                            "disable_events": "ev_a1_dis", "reset_events": "ev_a1_reset",
                            "restart_events": "ev_a1_restart", "persist_state": True,
                            "reset_on_complete": a["roc"], "disable_on_complete": a["doc"],
                            "start_enabled": a["start_enabled"]}},
        "shot_profiles": {"prof_sh1": profile("sh1"), "prof_sh2": profile("sh2")},
        "shots": {"sh1": shot("sh1"), "sh2": shot("sh2")},
        "variable_player": {
            "ev_score": {"score": c["score"]},
            "ev_c1": {"score": c["c1score"]},
            "ev_sh1": {"score": 5},
            "ev_str1": {"v_str": {"string": c["str1"], "action": "set"}},
            "ev_str2": {"v_str": {"string": c["str2"], "action": "set"}},
            "ev_strpv": {"pv_str": {"string": "abc", "action": "set"}},
            "ev_set": {"v_int": {"int": c["setv"], "action": "set"}},
            "ev_addpv": {"pv_int": c["addpv"]},
            "ev_xb": {"extra_balls": 1},
            "ev_float": {"v_float": {"float": c["f"] / 8.0}},
            "ev_two": {"score": 1, "bonus2": {"int": 2}, "v_int": {"int": 3, "action": "set"}},
            "logicblock_c1_complete": {"bonus": 1000},
            "logicblock_a1_complete": {"bonus": 500, "score": 50},
        },
    }
    if c.get("x"):
        x = c["x"]

        def vp_entry(sets):
            d = {}
            for st in sets:
                key = st["var"] if st["cond"] is None else "%s{n==%d}" % (st["var"], st["cond"])
                kind = {"i": "int", "f": "float", "s": "string"}[st["val"][0]]
                e = {kind: st["val"][1] / 8.0 if kind == "float" else st["val"][1], "action": st["act"]}
                if st["player"] is not None:
                    e["player"] = st["player"]
                d[key] = e
            return d
        m1["achievements"] = ach_config(x["achs"])
        allmodes = {"m1": m1}
        for md in x["modes"]:
            k = md["k"]
            allmodes["m%d" % k] = {"mode": {"start_events": "ev_m%d_start" % k, "stop_events": "ev_m%d_stop" % k,
                                            "priority": X_MODE_PRIORITY[k], "restart_on_next_ball": md["restart"]},
                                   "variable_player": {}}
        for en in x["entries"]:
            mode = "m1" if en["mode"] is None else "m%d" % en["mode"]
            allmodes[mode]["variable_player"][en["ev"]] = vp_entry(en["sets"])
        machine["modes"] = ["m1"] + ["m%d" % md["k"] for md in x["modes"]]
        return machine, allmodes
    if c.get("g"):
        from props import c11_groups as _G
        _G.extend_config(c, machine, m1)
        return machine, {"m1": m1}
    if c.get("ext"):
        x = c["ext"]
        m1["achievements"] = ach_config(x)
        m1["timers"] = {"t1": {"start_value": x["t_start"], "end_value": 100000, "direction": "up", "start_running": True,
                               "tick_interval": "750ms",
                               "control_events": [{"event": "ev_t_add", "action": "add", "value": 10},
                                                  {"event": "ev_t_stop", "action": "stop"},
                                                  {"event": "ev_t_start", "action": "start"}]}}
        # a second game mode that only runs when a player starts it: while it is not running for the next player its
        # devices must not touch anybody's variables (timed pause spanning the ball end, machine-wide control events)
        machine["modes"] = ["m1", "m2"]
        m2 = {
            "mode": {"start_events": "ev_m2_start", "stop_events": "ev_m2_stop", "priority": 200,
                     "restart_on_next_ball": x["m2_restart"]},
            "timers": {"t2": {"start_value": 0, "end_value": 100000, "direction": "up", "start_running": x["t2_running"],
                              "tick_interval": "750ms",
                              "control_events": [{"event": "ev_t2_pause", "action": "pause", "value": x["t2_pause"]},
                                                 {"event": "ev_t2_add", "action": "add", "value": 10},
                                                 {"event": "ev_t2_start", "action": "start"},
                                                 {"event": "ev_t2_stop", "action": "stop"}]}},
            "shot_profiles": {"prof_sh3": {"states": [{"name": "a"}, {"name": "b"}, {"name": "c"}], "loop": True}},
            "shots": {"sh3": {"hit_events": "ev_sh3", "advance_events": "ev_sh3_adv", "profile": "prof_sh3",
                              "persist_enable": False, "enable_events": "ev_sh3_en", "disable_events": "ev_sh3_dis",
                              "start_enabled": True,
                              "control_events": [{"events": "ev_sh3_jump", "state": 2, "force": True},
                                                 {"events": "ev_sh3_jump0", "state": 0, "force": True}]},
                      "sh4": {"hit_events": "ev_sh4", "profile": "prof_sh3", "start_enabled": True,
                              "disable_events": "ev_sh4_dis", "enable_events": "ev_sh4_en",
                              "control_events": [{"events": "ev_sh4_jump", "state": 1, "force": True}]}},
            "accruals": {"a2": {"events": ["ev_a2_0", "ev_a2_1", "ev_a2_2"], "persist_state": True,
                                "reset_on_complete": False, "disable_on_complete": False}},
            "counters": {"c3": {"count_events": "ev_c3", "persist_state": False},
                         "c4": {"count_events": "ev_c4", "persist_state": True,
                                "control_events": [{"event": "ev_c4_add", "action": "add", "value": 5},
                                                   {"event": "ev_c4_sub", "action": "subtract", "value": 2},
                                                   {"event": "ev_c4_jump", "action": "jump", "value": 9}]}},
            "variable_player": {"ev_m2_score": {"score": 3}},
        }
        return machine, {"m1": m1, "m2": m2}
    return machine, {"m1": m1}


ACH_EVENTS = ["ev_%s_%s" % (n, s) for n in ("ach1", "ach2")
              for s in ("en", "start", "done", "stop", "dis", "reset", "sel", "unsel")] + ["ev_t_add", "ev_t_stop", "ev_t_start"]


COUNTER_CONTROL = ("ev_c4_add", "ev_c4_sub", "ev_c4_jump")
M2_EVENTS = ["ev_t2_pause", "ev_t2_add", "ev_t2_start", "ev_t2_stop", "ev_sh3", "ev_sh3", "ev_sh3_adv", "ev_sh3_jump",
             "ev_sh3_jump0", "ev_sh3_en", "ev_sh3_dis", "ev_sh4", "ev_sh4_jump", "ev_sh4_dis", "ev_sh4_en", "ev_a2_0",
             "ev_a2_1", "ev_a2_2", "ev_c3", "ev_c4", "ev_c4", "ev_m2_score", "ev_nothing"]
M2_VARS = ["m2_t2_tick", "shot_sh3", "shot_sh3_enabled", "shot_sh4", "shot_sh4_enabled", "a2_state", "c3_state", "c4_state"]


def gen_ext(rng, tier, i):
    case = gen(rng, tier, i)
    case["cfg"]["ext"] = {
        "m2_restart": rng.random() < 0.3, "t2_running": rng.random() < 0.7, "t2_pause": rng.choice([2, 3, 4]),
        "ach1": {"restart_started": False, "keep_enabled": True, "restart_after_stop": True, "start_enabled": None},
        "ach2": {"restart_started": rng.random() < 0.6, "keep_enabled": rng.random() < 0.5,
                 "restart_after_stop": rng.random() < 0.5, "start_enabled": rng.choice([True, False, None])},
        "t_start": rng.choice([0, 5])}
    ops = []
    m2 = False          # rough tracker: is mode m2 running (it stops at every ball end and with ev_m2_stop)
    for op in case["ops"]:
        if op[0] in ("drain", "end_game") and m2 and rng.random() < 0.5:
            # hand-over scenarios: a timed pause / device progress right before the ball ends, then the next player
            # plays without mode m2 while the pause expires and machine-wide control events arrive
            ops.append(["post", rng.choice(["ev_t2_pause", "ev_t2_pause", "ev_sh3", "ev_a2_0", "ev_c4"])])
            ops.append(op)
            m2 = False
            for _ in range(rng.choice([3, 5, 6])):
                ops.append(["post", rng.choice(["ev_nothing", "ev_sh3_jump", "ev_sh3_adv", "ev_sh3", "ev_a2_1", "ev_a2_2",
                                                "ev_c3", "ev_c4", "ev_sh4_jump", "ev_t2_add", "ev_score", "ev_c1"])])
            continue
        ops.append(op)
        if op[0] in ("drain", "end_game", "start"):
            m2 = False if op[0] != "start" else m2
        if op[0] == "post":
            r = rng.random()
            if r < 0.3:
                ops.append(["post", rng.choice(ACH_EVENTS)])
            elif r < 0.42 and not m2:
                ops.append(["post", "ev_m2_start"])
                m2 = True
            elif r < 0.75 and m2:
                if rng.random() < 0.12:
                    # (marked "ifm2" for historical reasons; delivered whether or not m2 runs)
                    ops.append(["post", rng.choice(COUNTER_CONTROL), "ifm2"])
                else:
                    ops.append(["post", rng.choice(M2_EVENTS)])
            elif r < 0.78 and m2:
                ops.append(["post", "ev_m2_stop"])
                m2 = False
    if rng.random() < 0.08:
        # a counter control event while the counter's mode is not running: must be ignored (crashed the machine
        # before the repair 6a5039f)
        ops.insert(rng.randrange(1, len(ops) + 1), ["post", rng.choice(COUNTER_CONTROL)])
    case["ops"] = ops
    return case


X_NUM_VARS = ["score", "xa", "xb", "xf"]


def gen_x(rng, tier, i):
    """suite 'turns': variable_player entries with 1-4 variables mixing `player:` overrides (the current player, other
    players, 0, a player who does not exist), add/set/add_machine/set_machine, int/float/str values and conditions on
    the event's argument n; three optional game modes (restart_on_next_ball or not) started and stopped at generated
    points; games of 3-5 balls per player so that every player comes back at least twice"""
    cfg = gen_cfg(rng)
    cfg["bpg"] = rng.choice([3, 3, 4, 5])
    cfg["maxp"] = rng.choice([1, 2, 3, 3, 4])
    modes = [{"k": k, "restart": rng.random() < 0.6} for k in X_MODES]

    def setting(var):
        if var in ("mv_a", "mv_f"):
            act = rng.choice(["add_machine", "add_machine", "set_machine"])
        elif var == "mv_s":
            act = "set_machine"
        elif var == "xs":
            act = "set"
        else:
            act = rng.choice(["add", "add", "add", "set"])
        if var in ("xs", "mv_s"):
            val = ["s", rng.choice(["hi", "xy", "", "abc"])]
        elif var in ("xf", "mv_f") or (var == "xa" and rng.random() < 0.2):
            val = ["f", rng.choice([4, 1, 12, -4, 8])]
        else:
            val = ["i", rng.choice([1, 2, 5, 10, 100, -3, 0])]
        r = rng.random()
        player = None if r < 0.45 else rng.choice([0, 1, 1, 2, 2, 3, 4, 5])
        cond = None if rng.random() < 0.7 else rng.choice([1, 2])
        return {"var": var, "act": act, "val": val, "player": player, "cond": cond}

    def entry(ev, mode, nmax):
        n = rng.choice(list(range(1, nmax + 1)))
        pool = X_NUM_VARS + X_NUM_VARS + ["xs", "mv_a", "mv_f", "mv_s"]
        names = []
        while len(names) < n:
            v = rng.choice(pool)
            if v not in names:
                names.append(v)
        sets = [setting(v) for v in names]
        if len(sets) >= 2 and rng.random() < 0.5:
            # the interesting shape: an explicit player first, the current player's variables after it
            pl = [x for x in sets if x["act"] in ("add", "set")]
            if pl:
                first = pl[0]
                sets.remove(first)
                sets.insert(0, first)
                first["player"] = rng.choice([1, 2, 2, 3])
                first["cond"] = None
                for x in sets[1:]:
                    if rng.random() < 0.7:
                        x["player"] = None
        return {"ev": ev, "mode": mode, "sets": sets}
    entries = [entry(ev, None, 4) for ev in X_ENTRY_EVENTS] + [entry("ev_y%d" % k, k, 3) for k in X_MODES]
    achs = {n: {"restart_started": rng.random() < 0.5, "keep_enabled": rng.random() < 0.5,
                "restart_after_stop": rng.random() < 0.5, "start_enabled": rng.choice([True, False, None])}
            for n in ("ach1", "ach2")}
    cfg["x"] = {"modes": modes, "entries": entries, "achs": achs}

    ops = []
    g = {"in": False, "run": set(), "carry": {}}
    restart = {md["k"]: md["restart"] for md in modes}

    def emit(op):
        """appends the operation; a rough tracker of the game (players, balls, extra balls, running optional modes)
        only steers the probabilities"""
        ops.append(op)
        if op[0] == "start":
            if not g["in"]:
                g.update({"in": True, "balls": [1], "cur": 0, "xb": [0], "ending": False, "run": set(), "carry": {}})
            elif not g["ending"] and len(g["balls"]) < cfg["maxp"] and g["balls"][g["cur"]] <= 1:
                g["balls"].append(0)
                g["xb"].append(0)
        elif not g["in"]:
            return
        elif op == ["post", "ev_xb"]:
            g["xb"][g["cur"]] += 1
        elif op[0] == "post" and op[1].startswith("ev_m") and op[1].endswith("_start"):
            g["run"].add(int(op[1][4]))
        elif op[0] == "post" and op[1].startswith("ev_m") and op[1].endswith("_stop"):
            g["run"].discard(int(op[1][4]))
        elif op[0] in ("drain", "end_game"):
            if op[0] == "end_game":
                g["ending"] = True
            c = g["cur"]
            g["carry"][c] = set(k for k in g["run"] if restart[k])
            if g["xb"][c] > 0:
                g["xb"][c] -= 1
            elif g["ending"] or (g["balls"][c] >= cfg["bpg"] and c == len(g["balls"]) - 1):
                g["in"] = False
                g["run"] = set()
                return
            else:
                g["cur"] = (c + 1) % len(g["balls"])
                g["balls"][g["cur"]] += 1
            g["run"] = g["carry"].pop(g["cur"], set())
    limit = rng.choice([30, 50, 70, 90])
    emit(["start"])
    for _ in range(rng.choice([0, 1, 1, 2, 2, 3])):
        emit(["start"])
    games = 1
    while len(ops) < limit:
        if not g["in"]:
            if games >= 2 or rng.random() < 0.4:
                break
            games += 1
            if rng.random() < 0.3:
                emit(["postn", rng.choice(X_ENTRY_EVENTS), 1])       # outside a game: nothing may happen
            emit(["start"])
            for _ in range(rng.choice([0, 1, 2])):
                emit(["start"])
            continue
        if g["run"] and rng.random() < 0.45:
            # a mode that came back with this ball is finished by the player: it must not come back again
            emit(["post", "ev_m%d_stop" % rng.choice(sorted(g["run"]))])
        for _ in range(rng.choice([0, 1, 2, 3, 4, 6])):
            r = rng.random()
            if r < 0.16:
                # achievements: mostly along the life cycle enable -> (select) -> start -> stop / complete
                emit(["post", "ev_%s_%s" % (rng.choice(["ach1", "ach2"]),
                                            rng.choice(["en", "en", "start", "start", "start", "done", "stop", "stop", "dis",
                                                        "reset", "sel", "unsel"]))])
                continue
            r = rng.random()
            if r < 0.38:
                emit(["postn", rng.choice(X_ENTRY_EVENTS), rng.choice([0, 1, 2])])
            elif r < 0.52:
                emit(["post", "ev_m%d_start" % rng.choice(X_MODES)])
            elif r < 0.60:
                k = rng.choice(sorted(g["run"])) if g["run"] and rng.random() < 0.8 else rng.choice(X_MODES)
                emit(["post", "ev_m%d_stop" % k])
            elif r < 0.74:
                k = rng.choice(sorted(g["run"])) if g["run"] and rng.random() < 0.7 else rng.choice(X_MODES)
                emit(["postn", "ev_y%d" % k, rng.choice([0, 1, 2])])
            elif r < 0.90:
                emit(["post", rng.choice(["ev_c1", "ev_score", "ev_sh1", "ev_a1_0", "ev_c2", "ev_str1", "ev_float"])])
            elif r < 0.94:
                emit(["post", "ev_xb"])
            elif r < 0.98:
                emit(["start"])
            else:
                emit(["end_game"])
            if not g["in"]:
                break
        if g["in"]:
            emit(["drain"])
    return {"cfg": cfg, "ops": ops}


def vp_table(c):
    """the same variable_player section as (event, var, is_add, value) for the model"""
    return [
        ("ev_score", "score", True, ["i", c["score"]]),
        ("ev_c1", "score", True, ["i", c["c1score"]]),
        ("ev_sh1", "score", True, ["i", 5]),
        ("ev_str1", "v_str", False, ["s", c["str1"]]),
        ("ev_str2", "v_str", False, ["s", c["str2"]]),
        ("ev_strpv", "pv_str", False, ["s", "abc"]),
        ("ev_set", "v_int", False, ["i", c["setv"]]),
        ("ev_addpv", "pv_int", True, ["i", c["addpv"]]),
        ("ev_xb", "extra_balls", True, ["i", 1]),
        ("ev_float", "v_float", True, ["f", c["f"]]),
        ("ev_two", "score", True, ["i", 1]),
        ("ev_two", "bonus2", True, ["i", 2]),
        ("ev_two", "v_int", False, ["i", 3]),
        ("logicblock_c1_complete", "bonus", True, ["i", 1000]),
        ("logicblock_a1_complete", "bonus", True, ["i", 500]),
        ("logicblock_a1_complete", "score", True, ["i", 50]),
    ]


# ------------------------------------------------------------------------------------------------
# implementation runner
def tagv(v):
    if isinstance(v, bool):
        return ["b", v]
    if isinstance(v, int):
        return ["i", v]
    if isinstance(v, str):
        return ["s", v]
    if isinstance(v, float):
        e = v * 8
        if e == int(e):
            return ["f", int(e)]
        return ["?", repr(v)]
    if type(v).__name__ == "LogicBlockState":
        val = v.value
        if isinstance(val, list) and all(isinstance(x, bool) for x in val):
            lv = ["l", list(val)]
        elif isinstance(val, int) and not isinstance(val, bool):
            lv = ["i", val]
        else:
            lv = ["?", repr(val)]
        return ["lb", bool(v.enabled), bool(v.completed), lv, [type(v.enabled).__name__, type(v.completed).__name__]]
    if isinstance(v, dict):
        try:
            return ["d", json.loads(json.dumps(sorted(v.items())))]
        except (TypeError, ValueError):
            return ["o"]
    if isinstance(v, list):
        return ["o", [str(getattr(x, "name", x)) for x in v]]
    return ["?", repr(v)[:60]]


def run_impl(case):
    import logging
    from rig import FakeGameRig
    from props import c11_groups as _G
    logging.disable(logging.CRITICAL)
    machine_cfg, modes = build_config(case["cfg"])
    for attempt in range(3):
        try:
            r = FakeGameRig(machine_cfg, modes=modes).start()
            break
        except AssertionError as e:
            # MpfTestCase._wait_for_start measures WALL time (20 s): on an overloaded host the boot of the machine
            # can exceed it before any code under test has run; boot again (anything else is a harness error)
            if "Start took more than" not in str(e) or attempt == 2:
                raise
    try:
        m = r.machine
        evs = []

        def rec(var, **kwargs):
            evs.append([var, tagv(kwargs.get("value")), tagv(kwargs.get("prev_value")), tagv(kwargs.get("change")),
                        tagv(kwargs.get("player_num"))])
        registered = set()
        for v in list(VARS) + ["m1_t1_tick", "achievements"] + M2_VARS:
            m.events.add_handler("player_" + v, rec, priority=10 ** 7, var=v)
            registered.add(v)

        # ---- generic cache oracle: instance attributes of every device of a game mode right after the mode's
        # devices were loaded (mode_<name>_starting) against a player who never had this mode loaded in this game:
        # they must equal the attributes at the very first such load on this machine
        cache = {"base": {}, "seen": set(), "game": None, "diff": [], "step": 0}

        def on_mode_starting(mode_name, **kwargs):
            del kwargs
            g_ = m.game
            if not g_ or not g_.player:
                return
            if cache["game"] is not g_:
                cache["game"] = g_
                cache["seen"] = set()
            key = (mode_name, g_.player.index)
            if key in cache["seen"]:
                return
            cache["seen"].add(key)
            snapshot = _G.mode_snapshot(m.modes[mode_name])
            if mode_name not in cache["base"]:
                cache["base"][mode_name] = snapshot
                return
            base = cache["base"][mode_name]
            for dev in sorted(set(base) | set(snapshot)):
                a, b_ = base.get(dev, {}), snapshot.get(dev, {})
                for attr in sorted(set(a) | set(b_)):
                    if a.get(attr, "<unset>") != b_.get(attr, "<unset>"):
                        cache["diff"].append([cache["step"], mode_name, dev, attr, repr(a.get(attr, "<unset>"))[:120],
                                              repr(b_.get(attr, "<unset>"))[:120], g_.player.index + 1])
        for mode_name in modes:
            m.events.add_handler("mode_%s_starting" % mode_name, on_mode_starting, priority=10 ** 7, mode_name=mode_name)

        def _add_ball(**kwargs):
            del kwargs
            m.playfield.balls += 1
            m.playfield.available_balls += 1
        m.playfield.add_ball = _add_ball
        m.ball_controller.num_balls_known = 3

        def dump():
            g = m.game
            players = []
            cur = 0
            if g:
                for p in g.player_list:
                    players.append([[k, tagv(v)] for k, v in p.vars.items()])
                    for k in p.vars:
                        if k not in registered:      # a variable the table does not know: listen from now on
                            m.events.add_handler("player_" + k, rec, priority=10 ** 7, var=k)
                            registered.add(k)
                cur = g.player.index if g.player else 0
            reads = []
            for n in ("c1", "c2"):
                d = m.counters[n]
                reads.append(None if d.value is None else
                             ["lb", bool(d.enabled), bool(d.completed), ["i", d.value], ["bool", "bool"]])
            d = m.accruals["a1"]
            reads.append(None if d.value is None else
                         ["lb", bool(d.enabled), bool(d.completed), ["l", list(d.value)], ["bool", "bool"]])
            for n in shot_names(case["cfg"]):
                d = m.shots[n]
                reads.append(tagv(d.state))
                reads.append(tagv(d.enabled))
            xreads = None
            m2reads = None
            mode2 = False
            if case["cfg"].get("x"):
                xreads = [[m.achievements[n].state, bool(m.achievements[n].selected)] for n in ("ach1", "ach2")]
            if case["cfg"].get("ext"):
                xreads = [[m.achievements[n].state, bool(m.achievements[n].selected)] for n in ("ach1", "ach2")]
                mode2 = bool(m.modes["m2"].active)
                m2reads = {}
                for n in ("c3", "c4"):
                    d = m.counters[n]
                    m2reads[n] = None if d.value is None else ["lb", bool(d.enabled), bool(d.completed), ["i", d.value]]
                d = m.accruals["a2"]
                m2reads["a2"] = None if d.value is None else ["lb", bool(d.enabled), bool(d.completed), ["l", list(d.value)]]
                for n in ("sh3", "sh4"):
                    d = m.shots[n]
                    m2reads[n] = [tagv(d.state), bool(d.enabled), d.state_name]
            d = {"ingame": bool(g), "cur": cur, "players": players, "reads": reads, "xreads": xreads,
                 "mode": bool(m.modes["m1"].active), "mode2": mode2, "m2reads": m2reads}
            if case["cfg"].get("g"):
                d["g"] = _G.dump_g(m)
            if case["cfg"].get("x"):
                want = ["m%d" % k for k in X_MODES]
                d["xrun"] = [int(x.name[1:]) for x in m.mode_controller.active_modes if x.name in want]
                d["mvars"] = [[k, tagv(m.variables.get_machine_var(k))] for k in sorted(MVARS)
                              if m.variables.is_machine_var(k)]
            return d

        steps = []
        err = None
        for op in case["ops"]:
            del evs[:]
            cache["step"] = len(steps)
            try:
                if op[0] == "start":
                    r.hit_and_release_switch("s_start")
                    r.advance(1)
                elif op[0] == "post":
                    # (a third element "ifm2" once asked for delivery only while mode m2 runs: counter control
                    # events without state crashed the machine before the repair 6a5039f; now always delivered)
                    m.events.post(op[1])
                    r.advance(1)
                elif op[0] == "postn":
                    m.events.post(op[1], n=op[2])
                    r.advance(1)
                elif op[0] == "sq":
                    _G.do_sq(r, m, op)
                elif op[0] == "drain":
                    if m.game and m.game.balls_in_play > 0:
                        m.events.post_relay("ball_drain", balls=1)
                        m.playfield.balls = 0
                        m.playfield.available_balls = 0
                        r.advance(1)
                elif op[0] == "end_game":
                    m.events.post("end_game")
                    if m.game:
                        m.playfield.balls = 0
                        m.playfield.available_balls = 0
                    r.advance(1)
            except Exception as e:     # advance_time_and_run re-raises what a handler raised
                err = "%s: %s" % (type(e).__name__, str(e)[:700])
                r._exception = None
                break
            ex = r.exception()
            if ex:
                err = "%s: %s" % (type(ex.get("exception")).__name__, str(ex.get("exception"))[:700]) \
                    if isinstance(ex, dict) else repr(ex)[:200]
                break
            d = dump()
            d["events"] = [list(e) for e in evs]
            steps.append(d)
        return {"steps": steps, "error": err, "cache": cache["diff"]}
    finally:
        try:
            r._exception = None
        except Exception:
            pass
        r.stop()


# ------------------------------------------------------------------------------------------------
# Coq printers
def cval(t):
    k = t[0]
    if k == "i":
        return "(VInt %s)" % zlit(t[1])
    if k == "b":
        return "(VBool %s)" % blit(t[1])
    if k == "s":
        return "(VStr %s)" % ("[" + ";".join(zlit(x) for x in t[1].encode()) + "]")
    if k == "f":
        return "(VF8 %s)" % zlit(t[1])
    if k == "lb":
        lv = t[3]
        if lv[0] == "i":
            v = "(LInt %s)" % zlit(lv[1])
        elif lv[0] == "l":
            v = "(LBools %s)" % coqlist(blit(b) for b in lv[1])
        else:
            raise ValueError(t)
        return "(VLB %s %s %s)" % (blit(t[1]), blit(t[2]), v)
    if k in ("o", "d"):
        return "VObj"
    raise ValueError(t)


def representable(t):
    if t is None:
        return True
    if t[0] == "?":
        return False
    if t[0] == "lb":
        return t[3][0] != "?"
    return True


def vid(name):
    return VARS.get(name, UNKNOWN_VAR)


def ccfg_term(c):
    def counter(n, var):
        k = c[n]
        step = -k["interval"] if k["down"] else k["interval"]
        comp = "None" if k["complete"] is None else "(Some %s)" % zlit(k["complete"])
        return "(mkC %d %d %d %d %d %d %d %s %s %s %s %s %s %s)" % (
            VARS[var], EVENTS["ev_" + n], EVENTS["ev_%s_en" % n], EVENTS["ev_%s_dis" % n], EVENTS["ev_%s_reset" % n],
            EVENTS["ev_%s_restart" % n], EVENTS["logicblock_%s_complete" % n], zlit(k["start"]), comp, zlit(step),
            blit(k["down"]), blit(k["roc"]), blit(k["doc"]), blit(k["start_enabled"]))

    def shot(n):
        return shot_term(c, n)
    a = c["a1"]
    acc = "(mkA %d %s %d %d %d %d %d %s %s %s)" % (
        VARS["a1_state"], coqlist(str(EVENTS["ev_a1_%d" % j]) for j in range(3)), EVENTS["ev_a1_en"],
        EVENTS["ev_a1_dis"], EVENTS["ev_a1_reset"], EVENTS["ev_a1_restart"], EVENTS["logicblock_a1_complete"],
        blit(a["roc"]), blit(a["doc"]), blit(a["start_enabled"]))
    vps = coqlist("(mkVP %d %d %s %s)" % (EVENTS[e], VARS[v], blit(add), cval(val)) for e, v, add, val in vp_table(c))
    pv = coqlist(["(%d, %s)" % (VARS["pv_int"], cval(["i", c["pv_int"]])),
                  "(%d, %s)" % (VARS["pv_str"], cval(["s", c["pv_str"]]))])
    return "(mkCfg %d %d %s %s %s %s %s)" % (
        c["bpg"], c["maxp"], pv, coqlist([counter("c1", "c1_state"), counter("c2", "c2_state")]), coqlist([acc]),
        coqlist([shot(n) for n in shot_names(c)]), vps)


def shot_term(c, n):
    k = c[n]
    return "(mkS %d %d %d %d %d %d %d %d %d %s %s)" % (
        VARS["shot_" + n], VARS["shot_%s_enabled" % n], EVENTS["ev_" + n], EVENTS["ev_%s_en" % n],
        EVENTS["ev_%s_dis" % n], EVENTS["ev_%s_reset" % n], EVENTS[ADV_EVENT[n]], EVENTS["ev_%s_restart" % n],
        k["nstates"], blit(k["loop"]), blit(k["start_enabled"]))


def op_term(op):
    if op[0] == "start":
        return "Start"
    if op[0] == "post":
        return "(Post %d)" % EVENTS[op[1]]
    if op[0] == "drain":
        return "Drain"
    return "EndGame"


def sort_events(evs, players):
    """stable sort by (player index, variable id); the player index is recovered from player_num"""
    def key(e):
        num = e[4][1] if e[4] and e[4][0] == "i" else 0
        return (num - 1, vid(e[0]))
    return sorted(evs, key=key)


def snap_term(st):
    evs = coqlist("(%d, %s, %s, %s, %s)" % (vid(e[0]), cval(e[1]), cval(e[2]), cval(e[3]), cval(e[4]))
                  for e in sort_events(st["events"], st["players"]))
    players = coqlist(coqlist("(%d, %s)" % (vid(k), cval(v)) for k, v in sorted(p, key=lambda kv: vid(kv[0])))
                      for p in st["players"])
    reads = coqlist("None" if x is None else "(Some %s)" % cval(x) for x in st["reads"])
    return "(mkSnap %s %s %d %s %s)" % (evs, blit(st["ingame"]), st["cur"], players, reads)


def coq_case(case, out):
    steps = out["steps"]
    for st in steps:
        for e in st["events"]:
            if not all(representable(x) for x in e[1:]):
                return None
        for p in st["players"]:
            if not all(representable(v) for _, v in p):
                return None
    ops = case["ops"][:len(steps)]
    return "((%s, %s), %s)" % (ccfg_term(case["cfg"]), coqlist(op_term(o) for o in ops),
                               coqlist(snap_term(s) for s in steps))


HDR = "From C11 Require Import Model.\nDefinition run := c11_run.\nDefinition out_eqb := c11_out_eqb.\n"


# ------------------------------------------------------------------------------------------------
# oracle: the property's predicates on the implementation's dumps
def num(t):
    """numeric view (is_float, eighths) or None"""
    if t[0] == "i":
        return (False, 8 * t[1])
    if t[0] == "b":
        return (False, 8 if t[1] else 0)
    if t[0] == "f":
        return (True, t[1])
    return None


def simple(t):
    return t is not None and t[0] in ("i", "b", "s", "f")


def py_eq(a, b):
    na, nb = num(a), num(b)
    if na and nb:
        return na[1] == nb[1]
    if a[0] == "s" and b[0] == "s":
        return a[1] == b[1]
    return False


def expected_change(value, prev):
    nv, npv = num(value), num(prev)
    if nv and npv:
        d = nv[1] - npv[1]
        if nv[0] or npv[0]:
            return ["f", d]
        return ["i", d // 8]
    return ["b", not py_eq(prev, value)]


def truthy(t):
    if t[0] in ("i", "f"):
        return t[1] != 0
    if t[0] == "b":
        return bool(t[1])
    if t[0] == "s":
        return t[1] != ""
    return True


def initial_reads(c):
    out = []
    for n in ("c1", "c2"):
        out.append(["lb", c[n]["start_enabled"], False, ["i", c[n]["start"]], ["bool", "bool"]])
    out.append(["lb", c["a1"]["start_enabled"], False, ["l", [False, False, False]], ["bool", "bool"]])
    for n in shot_names(c):
        out.append(["i", 0])
        out.append(["b", c[n]["start_enabled"]])
    return out


def fresh_store(c, i):
    return {"index": ["i", i], "number": ["i", i + 1], "pv_int": ["i", c["pv_int"]], "pv_str": ["s", c["pv_str"]],
            "score": ["i", 0], "restart_modes_on_next_ball": ["o", []]}


DEVICE_VARS = ("c1_state", "c2_state", "a1_state", "shot_sh1", "shot_sh1_enabled", "shot_sh2", "shot_sh2_enabled",
               "achievements", "m1_t1_tick",      # (mode m2 never runs at the moment a new game is observed)
               "shot_g1", "shot_g1_enabled", "shot_g2", "shot_g2_enabled", "shot_g3", "shot_g3_enabled")


def reads_from_store(store, shots=("sh1", "sh2")):
    """what the devices must read when they are bound to the player owning `store`"""
    d = dict(store)
    out = []
    for n in ("c1_state", "c2_state", "a1_state"):
        v = d.get(n)
        out.append(None if v is None else v[:4] + [["bool", "bool"]])
    for n in shots:
        out.append(d.get("shot_" + n, ["i", 0]))
        out.append(d.get("shot_%s_enabled" % n, ["i", 0]))
    return out


def check_events(prev_players, st, fails, opdesc):
    per = {}
    for e in st["events"]:
        per.setdefault((json.dumps(e[4]), e[0]), []).append(e)
    seen = set()
    for i, p in enumerate(st["players"]):
        before = dict(prev_players[i]) if i < len(prev_players) else None
        after = dict(p)
        names = set(after) | set(before or {})
        for (pn, var) in per:
            if pn == json.dumps(["i", i + 1]):
                names.add(var)
        for var in sorted(names):
            evs = per.get((json.dumps(["i", i + 1]), var), [])
            seen.add((json.dumps(["i", i + 1]), var))
            cur = None if before is None else before.get(var)
            for e in evs:
                _, value, prev, change, _pn = e
                if not simple(value):
                    fails.append({"sig": "event-wrong", "what": "%s: player_%s posted for a non-simple value %r" % (opdesc, var, e)})
                    break
                if cur is None:
                    announce = before is None and prev == value and change == (["b", False] if value[0] == "s" else ["i", 0])
                    newent = prev == ["i", 0] and change == expected_change(value, ["i", 0])
                    if not (announce or newent):
                        fails.append({"sig": "event-wrong", "what": "%s: first player_%s event of player %d is neither an "
                                      "announcement nor a correct new-variable event: %r" % (opdesc, var, i + 1, e)})
                        break
                else:
                    if prev != cur:
                        fails.append({"sig": "event-wrong", "what": "%s: player_%s prev_value %r but the variable held %r"
                                      % (opdesc, var, prev, cur)})
                        break
                    if change != expected_change(value, prev):
                        fails.append({"sig": "event-wrong", "what": "%s: player_%s change %r for %r -> %r"
                                      % (opdesc, var, change, prev, value)})
                        break
                    if not truthy(change):
                        fails.append({"sig": "event-spurious", "what": "%s: player_%s posted for a no-op assignment %r"
                                      % (opdesc, var, e)})
                        break
                cur = value
            else:
                a = after.get(var)
                if cur is None:
                    if simple(a):
                        fails.append({"sig": "event-missing", "what": "%s: player %d got new variable %s=%r without a "
                                      "player_%s event" % (opdesc, i + 1, var, a, var)})
                elif a is None:
                    fails.append({"sig": "event-wrong", "what": "%s: variable %s vanished" % (opdesc, var)})
                elif simple(a) and simple(cur):
                    if not py_eq(cur, a):
                        fails.append({"sig": "event-missing", "what": "%s: player %d variable %s went %r -> %r but the "
                                      "player_%s events end at %r" % (opdesc, i + 1, var, before.get(var) if before else None,
                                                                    a, var, cur)})
                elif simple(a) and not simple(cur):
                    fails.append({"sig": "event-missing", "what": "%s: %s became %r without an event" % (opdesc, var, a)})
    for key in per:
        if key not in seen:
            fails.append({"sig": "event-wrong", "what": "%s: player_%s event with player_num %s: no such player"
                          % (opdesc, key[1], key[0])})


def oracle(case, out, adjust=None):
    """adjust(k, j, store) (suite 'turns'): what the configuration explicitly asks operation k to do to player j who is
    not the current player (variable_player `player: N`); without it nothing may touch such a player"""
    fails = []
    if out.get("error"):
        k = len(out["steps"])
        op = case["ops"][k] if k < len(case["ops"]) else ["?"]
        m2_on = bool(out["steps"][k - 1].get("mode2")) if k else False
        err = out["error"]
        # repaired defect (6a5039f; recorded as fixed, so this sig is reported as a VIOLATION if it comes back):
        # a counter control event while the counter's mode is not running finds no state object
        if op[0] == "post" and op[1] in COUNTER_CONTROL and not m2_on and "Counter.event_" in err and "counter.c4" in err \
                and ("'NoneType'" in err):
            fails.append({"sig": "counter-control-event-without-state",
                          "what": "%s posted while mode m2 is not running: %s" % (op[1], err[:200])})
        else:
            fails.append({"sig": "exception", "what": "op %d %s: the machine raised: %s" % (k, "/".join(str(y) for y in op), err)})
    c = case["cfg"]
    # ---- generic: no Python-side cache / cursor of a mode device survives into a load against a fresh player
    for k, mode_name, dev, attr, was, now, pl in out.get("cache") or []:
        if c.get("g") and _G.rotation_flag_defect(case, out, k, dev, attr, was, now):
            # known finding (known_findings.d/C11.json): exactly the flag rotate_right() leaves set on its early return
            fails.append({"sig": "achievement-group-rotation-flag-stuck",
                          "what": "op %d: AchievementGroup._rotation_in_progress is still True when mode %s is loaded "
                                  "for player %d: an earlier rotate request found nothing to rotate" % (k, mode_name, pl)})
            continue
        fails.append({"sig": "device-cache-survives-turn",
                      "what": "op %d: mode %s was loaded for player %d, who never had it loaded in this game, and %s.%s "
                              "is %s; at the first load on this machine it was %s" % (k, mode_name, pl, dev, attr, now, was)})
    prev = {"ingame": False, "cur": 0, "players": [], "reads": None, "mode": False}
    last_reads = {}         # player index -> device reads when that player's last ball ended
    frozen = {}             # player index -> variables at that player's last turn end (players not at turn)
    for k, st in enumerate(out["steps"]):
        op = case["ops"][k]
        opdesc = "op %d %s" % (k, "/".join(str(y) for y in op))
        pp, ap = prev["players"], st["players"]
        new_game = st["ingame"] and not prev["ingame"]
        if not st["ingame"] or new_game:
            frozen = {}
        if st["ingame"] and prev["ingame"]:
            if len(ap) < len(pp):
                fails.append({"sig": "player-lost", "what": "%s: player list shrank" % opdesc})
            # ---- frame (general form): after EVERY operation every variable of every player who is not the
            # current player equals its value at that player's last turn end (or at creation), whatever wrote it
            for j in range(len(ap)):
                if j == st["cur"]:
                    frozen.pop(j, None)
                    continue
                if j == prev["cur"] or j not in frozen:
                    frozen[j] = ap[j]            # the turn ended in this operation / the player was just added
                    continue
                want_j = frozen[j] if adjust is None else adjust(k, j, frozen[j])
                if ap[j] != want_j:
                    fails.append({"sig": "leak-other-player",
                                  "what": "%s during player %d's turn changed player %d (since that player's turn "
                                          "ended): %r -> %r" %
                                          (opdesc, st["cur"] + 1, j + 1,
                                           [x for x in want_j if x not in ap[j]], [x for x in ap[j] if x not in want_j])})
                frozen[j] = ap[j]
            if op[0] == "start" and not c.get("ext") and prev["cur"] < len(ap) and pp[prev["cur"]] != ap[prev["cur"]]:
                fails.append({"sig": "leak-other-player", "what": "%s (add player) changed the current player's variables"
                              % opdesc})
            if op[0] == "start":
                if st["cur"] != prev["cur"]:
                    fails.append({"sig": "leak-other-player", "what": "%s changed the current player" % opdesc})
                for j in range(len(pp), len(ap)):
                    if dict(ap[j]) != fresh_store(c, j):
                        fails.append({"sig": "new-player-not-initial", "what": "%s: added player %d starts with %r" %
                                      (opdesc, j + 1, ap[j])})
        if not prev["ingame"] and not st["ingame"] and ap:
            fails.append({"sig": "players-outside-game", "what": "%s: players exist without a game" % opdesc})
        # ---- a ball started for st["cur"]? -----------------------------------------------------------------
        ball_started = st["ingame"] and (new_game or (is_drain(op) and prev["ingame"] and prev["mode"]))
        if is_drain(op) and prev["ingame"] and prev["mode"]:
            last_reads[prev["cur"]] = prev["reads"]
        if new_game:
            last_reads = {}
            exp = fresh_store(c, 0)
            got = {k2: v for k2, v in ap[0] if k2 not in DEVICE_VARS} if ap else None
            exp["ball"] = ["i", 1]
            if len(ap) != 1 or got != exp:
                fails.append({"sig": "new-game-not-initial", "what": "%s: new game starts with %r" % (opdesc, ap)})
        if ball_started and ap:
            i = st["cur"]
            want = last_reads.get(i)
            if want is None:
                if st["reads"] != initial_reads(c):
                    fails.append({"sig": "first-ball-not-initial",
                                  "what": "%s: player %d's first ball: devices read %r, configured initial values are %r"
                                          % (opdesc, i + 1, st["reads"], initial_reads(c))})
            elif st["reads"] != want:
                fails.append({"sig": "restore-mismatch",
                              "what": "%s: player %d's ball starts with device state %r but their previous ball ended "
                                      "with %r" % (opdesc, i + 1, st["reads"], want)})
        # ---- the devices read the current player's variables ---------------------------------------------------
        if st["ingame"] and st["mode"] and ap and st["cur"] < len(ap):
            if st["reads"] != reads_from_store(ap[st["cur"]], shot_names(c)):
                fails.append({"sig": "device-bound-to-wrong-player",
                              "what": "%s: devices read %r, current player %d holds %r" %
                                      (opdesc, st["reads"], st["cur"] + 1, reads_from_store(ap[st["cur"]], shot_names(c)))})
        if st["ingame"] and not st["mode"]:
            fails.append({"sig": "mode-not-running", "what": "%s: game running but the game mode is not active" % opdesc})
        # ---- events ------------------------------------------------------------------------------------------
        if op[0] == "sq" and prev["ingame"] and not st["ingame"]:
            pass        # the game ended in this operation: the queued points were added before (checked by oracle_g on
            #             the events' player numbers and by the correspondence); no player list is left to chain against
        else:
            check_events(pp if prev["ingame"] else [], st, fails, opdesc)
        prev = st
    # one failure per sig is enough
    seen, res = set(), []
    for f in fails:
        if f["sig"] not in seen:
            seen.add(f["sig"])
            res.append(f)
    return res


def ach_initial(k):
    if k["start_enabled"] is True:
        return "enabled"
    if k["start_enabled"] is False:
        return "disabled"
    return "disabled"          # enable_events are configured


def ach_restored(k, pair):
    """Achievement._restore_state: what the configuration says a carried-over state becomes at the next ball"""
    state, sel = pair
    if state == "started" and not k["restart_started"]:
        state = "stopped"
    elif state == "enabled" and not k["keep_enabled"]:
        state = "disabled"
    return [state, sel]


def ach_oracle(x, case, out, fails):
    """achievements (state, selected) are per player: the devices read the current player's records, a first ball
    starts from the configured initial state, a later ball from Achievement._restore_state's configured image of the
    records at that player's previous ball end"""
    prev = {"ingame": False, "cur": 0, "players": [], "xreads": None, "mode": False}
    last = {}
    for k, st in enumerate(out["steps"]):
        op = case["ops"][k]
        opdesc = "op %d %s" % (k, "/".join(str(y) for y in op))
        new_game = st["ingame"] and not prev["ingame"]
        handover = op[0] in ("drain", "end_game") and prev["ingame"] and prev["mode"]
        if handover:
            last[prev["cur"]] = prev["xreads"]
        if new_game:
            last = {}
        if st["ingame"] and (new_game or handover) and st["players"]:
            i = st["cur"]
            if i in last:
                want = [ach_restored(x[n], p) for n, p in zip(("ach1", "ach2"), last[i])]
                sig = "achievement-restore-mismatch"
            else:
                want = [[ach_initial(x[n]), False] for n in ("ach1", "ach2")]
                sig = "achievement-first-ball-not-initial"
            if st["xreads"] != want:
                fails.append({"sig": sig, "what": "%s: player %d's ball starts with achievements %r, expected %r" %
                              (opdesc, i + 1, st["xreads"], want)})
        if st["ingame"] and st["mode"] and st["players"] and st["cur"] < len(st["players"]):
            d = dict(st["players"][st["cur"]]).get("achievements")
            held = None if not d or d[0] != "d" else [dict(d[1]).get(n) for n in ("ach1", "ach2")]
            if held != st["xreads"]:
                fails.append({"sig": "achievement-bound-to-wrong-player",
                              "what": "%s: achievements read %r, current player %d holds %r" %
                                      (opdesc, st["xreads"], st["cur"] + 1, held)})
        prev = st


def oracle_ext(case, out):
    """frame / events / logic-block and shot restore as in oracle(); in addition achievements (ach_oracle); the timer
    tick variable is covered by the frame and event-chain checks (it restarts at every ball by design); mode m2"""
    fails = oracle(case, out)
    x = case["cfg"]["ext"]
    ach_oracle(x, case, out, fails)
    prev = {"ingame": False, "cur": 0, "players": [], "xreads": None, "mode": False}
    ended_m2 = {}
    for k, st in enumerate(out["steps"]):
        op = case["ops"][k]
        opdesc = "op %d %s" % (k, "/".join(str(y) for y in op))
        new_game = st["ingame"] and not prev["ingame"]
        handover = op[0] in ("drain", "end_game") and prev["ingame"] and prev["mode"]
        # ---- restart_on_next_ball: m2 runs after a ball start iff it is configured so and ran when this player's
        # previous ball ended
        if handover:
            ended_m2[prev["cur"]] = bool(prev.get("mode2"))
        if new_game:
            ended_m2 = {}
        if st["ingame"] and (new_game or handover) and st["players"]:
            want_m2 = bool(x["m2_restart"] and ended_m2.get(st["cur"], False))
            if bool(st.get("mode2")) != want_m2:
                fails.append({"sig": "restart-modes-mismatch",
                              "what": "%s: player %d's ball starts with mode m2 %s; at that player's previous ball end it "
                                      "was %s, restart_on_next_ball: %r" %
                                      (opdesc, st["cur"] + 1, "running" if st.get("mode2") else "not running",
                                       "running" if ended_m2.get(st["cur"]) else "not running", x["m2_restart"])})
        # ---- mode m2: bound to the current player while it runs, bound to nobody while it does not ---------------
        r2 = st.get("m2reads")
        if r2 is not None:
            if st["ingame"] and st["mode2"] and st["players"] and st["cur"] < len(st["players"]):
                d = dict(st["players"][st["cur"]])
                want = {"c4": (d.get("c4_state") or [None])[:4] if d.get("c4_state") else None,
                        "a2": d.get("a2_state")[:4] if d.get("a2_state") else None,
                        "sh3": d.get("shot_sh3", ["i", 0]), "sh4": d.get("shot_sh4", ["i", 0])}
                got = {"c4": r2["c4"], "a2": r2["a2"], "sh3": r2["sh3"][0], "sh4": r2["sh4"][0]}
                if got != want:
                    fails.append({"sig": "m2-device-bound-to-wrong-player",
                                  "what": "%s: devices of mode m2 read %r, current player %d holds %r" %
                                          (opdesc, got, st["cur"] + 1, want)})
            if not st["mode2"]:
                idle = {"c3": None, "c4": None, "a2": None, "sh3": [["i", 0], False, "None"], "sh4": [["i", 0], False, "None"]}
                if r2 != idle:
                    fails.append({"sig": "m2-device-reads-player-while-mode-off",
                                  "what": "%s: mode m2 is not running but its devices read %r" % (opdesc, r2)})
            if st["mode2"] and not st["ingame"]:
                fails.append({"sig": "game-mode-outside-game", "what": "%s: mode m2 runs without a game" % opdesc})
        prev = st
    seen, res = set(), []
    for f in fails:
        if f["sig"] not in seen:
            seen.add(f["sig"])
            res.append(f)
    return res


# ------------------------------------------------------------------------------------------------
# suite 'turns': printers
X_ACT = {"add": "AAdd", "set": "ASet", "add_machine": "AAddM", "set_machine": "ASetM"}


def zopt(v):
    return "None" if v is None else "(Some %s)" % zlit(v)


def xcfg_term(c):
    x = c["x"]

    def vs(st):
        var = MVARS[st["var"]] if st["var"] in MVARS else VARS[st["var"]]
        return "(mkVS %d %s %s %s %s)" % (var, X_ACT[st["act"]], cval(st["val"]), zopt(st["player"]), zopt(st["cond"]))
    entries = coqlist("(mkVE %d %s %s)" % (EVENTS[en["ev"]], zopt(en["mode"]), coqlist(vs(st) for st in en["sets"]))
                      for en in x["entries"])
    modes = coqlist("(mkM %d %d %d %s)" % (md["k"], EVENTS["ev_m%d_start" % md["k"]], EVENTS["ev_m%d_stop" % md["k"]],
                                           blit(md["restart"])) for md in x["modes"])
    achs = coqlist("(mkH %s %s %s %s %s)" % (
        " ".join(str(EVENTS["ev_%s_%s" % (n, s_)]) for s_ in ("en", "start", "done", "stop", "dis", "reset", "sel", "unsel")),
        blit(x["achs"][n]["restart_started"]), blit(x["achs"][n]["keep_enabled"]), blit(x["achs"][n]["restart_after_stop"]),
        A_STATE[ach_initial(x["achs"][n])]) for n in ("ach1", "ach2"))
    return "(mkX %s %s %s %s)" % (ccfg_term(c), entries, modes, achs)


A_STATE = {"disabled": "ADisabled", "enabled": "AEnabled", "started": "AStarted", "stopped": "AStopped",
           "completed": "ACompleted"}


def arec_term(pair):
    """[state, selected] as read from a device or a player's dict; no record / unbound: None"""
    if pair is None or pair[0] is None:
        return "None"
    return "(Some (%s, %s))" % (A_STATE[pair[0]], blit(bool(pair[1])))


def player_achs(p):
    d = dict(p).get("achievements")
    items = dict(d[1]) if d and d[0] == "d" else {}
    return [items.get(n) for n in ("ach1", "ach2")]


def xop_term(op):
    if op[0] == "start":
        return "XStart"
    if op[0] == "post":
        return "(XPost %d 0)" % EVENTS[op[1]]
    if op[0] == "postn":
        return "(XPost %d %s)" % (EVENTS[op[1]], zlit(op[2]))
    if op[0] == "drain":
        return "XDrain"
    return "XEndGame"


def restart_list(p):
    """ids of the modes in a player's restart_modes_on_next_ball (absent / still the default 0: nothing recorded)"""
    v = dict(p).get("restart_modes_on_next_ball")
    if v is None or v[0] != "o" or len(v) < 2:
        return []
    return [int(n[1:]) if n[:1] == "m" and n[1:].isdigit() else 0 for n in v[1]]


def xsnap_term(st):
    mv = coqlist("(%d, %s)" % (MVARS[k], cval(v)) for k, v in sorted(st["mvars"], key=lambda kv: MVARS[kv[0]]))
    rls = coqlist(coqlist(str(i) for i in restart_list(p)) for p in st["players"])
    # the `achievements` variable (a dict) is compared by content (xs_ach), not as an opaque object in the store
    base = dict(st)
    base["players"] = [[kv for kv in p if kv[0] != "achievements"] for p in st["players"]]
    achs = coqlist(coqlist(arec_term(r) for r in player_achs(p)) for p in st["players"])
    areads = coqlist(arec_term(r) for r in st["xreads"])
    return "(mkXSnap %s %s %s %s %s %s)" % (snap_term(base), coqlist(str(i) for i in st["xrun"]), mv, rls, achs, areads)


def coq_case_x(case, out):
    steps = out["steps"]
    for st in steps:
        for e in st["events"]:
            if not all(representable(x) for x in e[1:]):
                return None
        for p in st["players"]:
            if not all(representable(v) for _, v in p):
                return None
        if not all(representable(v) for _, v in st["mvars"]):
            return None
        for p in st["players"]:
            for r in player_achs(p):
                if r is not None and (not isinstance(r, list) or r[0] not in A_STATE):
                    return None
        if any(r[0] is not None and r[0] not in A_STATE for r in st["xreads"]):
            return None
    ops = case["ops"][:len(steps)]
    return "((%s, %s), %s)" % (xcfg_term(case["cfg"]), coqlist(xop_term(o) for o in ops),
                               coqlist(xsnap_term(s) for s in steps))


HDR_X = "From C11 Require Import Model XModel.\nDefinition run := c11x_run.\nDefinition out_eqb := c11x_out_eqb.\n"


# suite 'turns': oracle
def o_add(a, b):
    na, nb = num(a), num(b)
    if na is None or nb is None:
        return None
    if na[0] or nb[0]:
        return ["f", na[1] + nb[1]]
    return ["i", (na[1] + nb[1]) // 8]


def o_apply(store, sets):
    """the writes a list of variable_player settings asks for, on one list of [name, value] (insertion order)"""
    store = [list(kv) for kv in store]
    for st in sets:
        idx = next((n for n, kv in enumerate(store) if kv[0] == st["var"]), None)
        old = ["i", 0] if idx is None else store[idx][1]
        new = st["val"] if st["act"] in ("set", "set_machine") else o_add(old, st["val"])
        if new is None:
            continue
        if idx is None:
            store.append([st["var"], new])
        else:
            store[idx][1] = new
    return store


def x_effects(case, out):
    """per operation: what its variable_player entry asks for, read off the CONFIGURATION and the state observed
    before the operation: {player index: settings}, [machine settings].  The property: a variable without `player:`
    belongs to the player whose turn it is, one with `player: N` to player N only (`player: 0` is "no player"; for a
    player who does not exist MPF logs a warning and credits the current player — accepted as configured behaviour)"""
    x = case["cfg"]["x"]
    eff = {}
    prev = None
    for k, st in enumerate(out["steps"]):
        op = case["ops"][k]
        if op[0] == "postn" and prev is not None and prev["ingame"] and prev["mode"]:
            for en in x["entries"]:
                if en["ev"] != op[1] or not (en["mode"] is None or en["mode"] in prev["xrun"]):
                    continue
                per, mach = eff.setdefault(k, ({}, []))
                for s_ in en["sets"]:
                    if s_["cond"] is not None and s_["cond"] != op[2]:
                        continue
                    if s_["act"] in ("add", "set"):
                        n = s_["player"]
                        t = n - 1 if n and 1 <= n <= len(prev["players"]) else prev["cur"]
                        per.setdefault(t, []).append(s_)
                    else:
                        mach.append(s_)
        prev = st
    return eff


def oracle_x(case, out):
    x = case["cfg"]["x"]
    eff = x_effects(case, out)

    def adjust(k, j, store):
        return o_apply(store, eff[k][0].get(j, [])) if k in eff else store
    fails = oracle(case, out, adjust)
    ach_oracle(x["achs"], case, out, fails)
    restart = {md["k"]: md["restart"] for md in x["modes"]}
    prev = {"ingame": False, "cur": 0, "players": [], "mode": False, "xrun": [], "mvars": []}
    ended_with = {}        # player index -> optional modes running when that player's last ball ended
    for k, st in enumerate(out["steps"]):
        op = case["ops"][k]
        opdesc = "op %d %s" % (k, "/".join(str(y) for y in op))
        new_game = st["ingame"] and not prev["ingame"]
        handover = op[0] in ("drain", "end_game") and prev["ingame"] and prev["mode"]
        # ---- variable_player: the player whose turn it is gets exactly the variables without `player:` (and those
        # addressed to him), machine variables get exactly the machine actions
        if op[0] == "postn" and prev["ingame"] and st["ingame"] and st["cur"] == prev["cur"] and \
                st["cur"] < len(prev["players"]):
            i = st["cur"]
            want = o_apply(prev["players"][i], eff[k][0].get(i, [])) if k in eff else prev["players"][i]
            if st["players"][i] != want:
                fails.append({"sig": "vp-target-mismatch",
                              "what": "%s in player %d's turn: the entry asks for %r on the current player, whose "
                                      "variables went %r -> %r" %
                                      (opdesc, i + 1, [(s_["var"], s_["act"], s_["val"], s_["player"]) for s_ in
                                                       (eff[k][0].get(i, []) if k in eff else [])],
                                       [y for y in prev["players"][i] if y not in st["players"][i]],
                                       [y for y in st["players"][i] if y not in prev["players"][i]])})
        want_mv = o_apply(prev["mvars"], eff[k][1]) if k in eff else prev["mvars"]
        if sorted(st["mvars"]) != sorted(want_mv):
            fails.append({"sig": "machine-var-mismatch", "what": "%s: machine variables %r, expected %r" %
                          (opdesc, st["mvars"], want_mv)})
        # ---- restart_on_next_ball: the modes running after a ball start are exactly the restart_on_next_ball modes
        # that ran when this player's previous ball ended (none on a first ball)
        if handover:
            ended_with[prev["cur"]] = list(prev["xrun"])
        if new_game:
            ended_with = {}
        if st["ingame"] and (new_game or handover):
            want = [m_ for m_ in X_MODES if restart.get(m_) and m_ in ended_with.get(st["cur"], [])]
            if st["xrun"] != want:
                fails.append({"sig": "restart-modes-mismatch",
                              "what": "%s: player %d's ball starts with the optional modes %r running; when that "
                                      "player's previous ball ended %r ran, restart_on_next_ball: %r" %
                                      (opdesc, st["cur"] + 1, st["xrun"], ended_with.get(st["cur"]), restart)})
        if st["xrun"] and not st["ingame"]:
            fails.append({"sig": "game-mode-outside-game", "what": "%s: modes %r run without a game" % (opdesc, st["xrun"])})
        prev = st
    seen, res = set(), []
    for f in fails:
        if f["sig"] not in seen:
            seen.add(f["sig"])
            res.append(f)
    return res


def nontrivial_x(case, out):
    """a player reached a third ball, a restart_on_next_ball mode was carried over and one was not, and an entry with
    an explicit other player followed by a variable of the current player fired in a multi-player game"""
    third = carried = dropped = mixed = False
    prev = None
    eff = x_effects(case, out)
    restart = {md["k"]: md["restart"] for md in case["cfg"]["x"]["modes"]}
    for k, st in enumerate(out["steps"]):
        if st["ingame"] and st["cur"] < len(st["players"]):
            b = dict(st["players"][st["cur"]]).get("ball")
            if b and b[1] >= 3:
                third = True
        if prev is not None and prev["ingame"] and st["ingame"] and case["ops"][k][0] in ("drain", "end_game"):
            if st["xrun"]:
                carried = True
            if any(not restart.get(m_) for m_ in prev["xrun"]) or (prev["xrun"] and not st["xrun"]):
                dropped = True
        if k in eff and prev is not None:
            per = eff[k][0]
            if prev["cur"] in per and any(t != prev["cur"] for t in per):
                mixed = True
        prev = st
    return third and carried and dropped and mixed


def describe_x(case):
    n = len(case["ops"])
    return "ops=%s maxp=%d bpg=%d" % ("<=30" if n <= 30 else "<=60" if n <= 60 else ">60", case["cfg"]["maxp"],
                                       case["cfg"]["bpg"])


def nontrivial_ext(case, out):
    """several achievement readings, and a hand-over after which the next player plays >= 3 operations without mode m2
    although the previous player had it running when the ball ended"""
    changed = set()
    span = False
    run = 0
    prev = None
    for st in out["steps"]:
        if st["xreads"]:
            changed.add(json.dumps(st["xreads"]))
        if prev is not None and prev["ingame"] and st["ingame"] and prev["cur"] != st["cur"] and prev.get("mode2"):
            run = 1
        elif run and st["ingame"] and not st.get("mode2") and prev is not None and prev["cur"] == st["cur"]:
            run += 1
            if run >= 4:
                span = True
        else:
            run = 0
        prev = st
    return len(changed) >= 3 and span


# ------------------------------------------------------------------------------------------------
def shrink(case):
    """prefixes first (a failure stays when later operations go), then chunks of decreasing size, then single ops"""
    ops = case["ops"]
    n = len(ops)
    for m in (n // 4, n // 2, 3 * n // 4, n - 8, n - 4, n - 2, n - 1):
        if 0 < m < n:
            yield {"cfg": case["cfg"], "ops": ops[:m]}
    for size in (16, 8, 4, 2):
        if n > size + 1:
            for i in range(n - size, 0, -size):
                yield {"cfg": case["cfg"], "ops": ops[:i] + ops[i + size:]}
    for i in range(n - 1, 0, -1):
        yield {"cfg": case["cfg"], "ops": ops[:i] + ops[i + 1:]}


def nontrivial(case, out):
    turns = {}
    came_back = False
    diverged = False
    prev = None
    for st in out["steps"]:
        if st["ingame"]:
            if prev is not None and prev["ingame"] and prev["cur"] != st["cur"]:
                turns[st["cur"]] = turns.get(st["cur"], 0) + 1
                if turns[st["cur"]] >= 1 and any(k == "ball" and v[1] >= 2 for k, v in st["players"][st["cur"]]):
                    came_back = True
                if len(st["players"]) >= 2:
                    rs = [reads_from_store(p) for p in st["players"] if any(k == "c1_state" for k, _ in p)]
                    if len(rs) >= 2 and any(x != rs[0] for x in rs[1:]):
                        diverged = True
        prev = st
    return came_back and diverged


def describe(case):
    n = len(case["ops"])
    return "ops=%s maxp=%d bpg=%d" % ("<=20" if n <= 20 else "<=45" if n <= 45 else ">45", case["cfg"]["maxp"], case["cfg"]["bpg"])


def widened_search(seed):
    """oracle-only search with a different seed and longer histories (used when a proof or the tie breaks)"""
    import random
    rng = random.Random(seed * 7919 + 11)
    for i in range(400):
        case = gen(rng, "thorough", i)
        out = run_impl(case)
        fails = oracle(case, out)
        if fails:
            return {"sig": fails[0]["sig"], "what": fails[0]["what"], "case": case, "suite": "game"}
    return None


SUITES = [
    Suite("game", gen, run_impl, HDR, coq_case, oracle, shrink, nontrivial,
          {"quick": 140, "thorough": 6000}, describe=describe, shard=30, case_timeout=120),
    # validation only (no model): the same game with two achievements and a running timer added to the mode
    Suite("ext", gen_ext, run_impl, None, None, oracle_ext, shrink, nontrivial_ext,
          {"quick": 90, "thorough": 3000}, describe=describe, case_timeout=120),
    # variable_player entries with several variables and `player:` overrides, machine scope, optional game modes
    # with restart_on_next_ball over >= 3 balls per player; fed to the model (coq/C11/XModel.v)
    Suite("turns", gen_x, run_impl, HDR_X, coq_case_x, oracle_x, shrink, nontrivial_x,
          {"quick": 80, "thorough": 3000}, describe=describe_x, shard=30, case_timeout=120),
]

from props import c11_groups as _G      # noqa: E402  (helper module: needs the definitions above)

SUITES.append(
    # shot group rotation, score queue (both fed to the model coq/C11/GModel.v), achievement group (oracle only)
    Suite("groups", _G.gen_g, run_impl, _G.HDR_G, _G.coq_case_g, _G.oracle_g, shrink, _G.nontrivial_g,
          {"quick": 36, "thorough": 1500}, describe=_G.describe_g, shard=30, case_timeout=120))
