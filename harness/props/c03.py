"""C03 — Switch state mirrors the hardware; handlers fire once per real change."""
from vlib import Suite, zlit, zlist, coqlist, blit

ID = "C03"
READY = True
RULE = ("five streams; timeline/boundary/dispatch/generic over six switches (NO, NC, NO with timed activation/deactivation events, NC starting active, NO with "
        "ignore_window_ms=250, NC with ignore_window_ms=375) of one real machine on the virtual clock, each case "
        "projected on every switch.  timeline: 1/8 s grid; raw/logical reports by name or by number (about half "
        "duplicates), registrations/removals from a small pool of (callback,state,ms) triples through all public "
        "entry points, is_active/is_inactive/is_state(ms), wait_for_switch futures (state 0/1/2, only_on_change, ms), "
        "mute/unmute in 40% of the cases, re-entrant callbacks in 40%, gaps of 0..9 grid steps (hold times 125..1000 "
        "ms: before, exactly at and after deadlines) plus gaps of minutes.  boundary: the same on the grid with the "
        "scheduler's choice at coincidences varied: operations delivered from inside the loop by a call_at queued "
        "ahead of the timers (exactly at a deadline / window end the operation then runs BEFORE the due wake-up / "
        "window timer; external delivery gives the other order) and by a late loop (clock jumps to the operation, "
        "everything that became due meanwhile, on any switch, runs after it); 60% start with a change at/after the "
        "end of an open ignore window, 28% with an operation at/after a pending hold deadline.  generic: integer "
        "microseconds, arbitrary sub-millisecond instants, 60% of the operations within +-0.06..0.6 ms of a pending "
        "deadline / window end (never closer than 50 us; cases where an operation lands within 20 us of a timer are "
        "dropped and counted), hold times 1..1000 ms, late loop in a quarter of them.  The order and the times in "
        "which operations and timers actually ran, and which due timers an operation overtook, are observed and given "
        "to the model.  dispatch: grid, structured re-entrancy: 2-5 handlers (timed/untimed, new state/other state, "
        "duplicates) registered in a known order, scripts of 1-3 of them remove another entry of the same dispatch "
        "(earlier or later, timed or untimed, same or other state, or themselves), 45% re-register it, then the "
        "switch changes into the state and stays before/at/after the hold times (timed callbacks run their scripts "
        "inside the wake-up loop), leaves and returns.  config: a machine config per group of 4 cases (mpf: "
        "auto_create_switch_events on/off, switch_event_active/inactive and switch_tag_event patterns, 5-9 switches "
        "with 0-3 shared tags, events_when_activated/deactivated with and without '|time', NC and "
        "ignore_window_ms 0/250/375 in all combinations), reports only, several switches changing at one instant; "
        "event handlers for every name any variant of the settings would produce; the model builds the registries "
        "and event lists from the config and runs the joint multi-switch model.  non-trivial = at least one real "
        "change and one handler/event invocation; distinct by hash")
TRUSTED_BASE = [
    "Coq 8.16.1 kernel (coqc), vm_compute for evaluating the model in the correspondence run; no native_compute",
    "axioms: none (every Print Assumptions is 'Closed under the global context')",
    "hand-written model coq/C03/Model.v (one switch: NC inversion, registries with entry identity, deadline table, "
    "wake-up handles, catch-up, removal, scripted re-entrant callbacks, mute, ignore window, the loop with hold-back "
    "thresholds for overtaken timers; integer microseconds) tied to the working tree by correspondence: "
    "harness/props/c03.py drives SwitchController.process_switch/process_switch_by_num/add_switch_handler*/"
    "remove_switch_handler*/is_active/is_state/wait_for_switch of a real machine (harness/rig.py) and the model on the "
    "same timelines and compares callbacks with virtual timestamps, posted events, query answers, resolution times "
    "of wait_for_switch futures, final state/hw_state/last_change, the pending wake-up and window-end handles found "
    "in the loop's timer heap/ready queue and the recorded wake-up",
    "mpf/tests/loop.py TimeTravelLoop + asyncio (timer order; a late loop is produced by set_time + dropping the "
    "passed entries of TimeTravelLoop's jump list so that its clock stays monotonic), functools.partial identity, "
    "Python float arithmetic (exact on the 1/8 s grid; errors < 1e-9 s elsewhere, operands of every comparison "
    ">= 50 us apart)",
    "wait_for_switch is given to the model as its definition: query (only_on_change=False) + registration of a "
    "handler whose script removes it; the handler's invocation is observed through the future",
    "hand-written coq/C03/Config.v (Switch._initialize/_create_activation_event at string level: '%' replacement, "
    "split at '|', time strings '<digits>[ms|s]') and coq/C03/Multi.v (a machine = list of switches sharing the loop; "
    "proved equal to the product of the one-switch models), tied by the config suite: machines generated from random "
    "configs, the sorted (time, event name) posts of the whole machine and every switch's final state compared",
    "the direct oracles in harness/props/c03.py: the trace acceptor written from the property text (four suites) and, "
    "for the config suite, the expected posts computed outright from the config and the reports",
]
ASSUMPTIONS = [
    "callbacks and event handlers do not report switch changes synchronously (process_switch from inside a switch "
    "callback is outside the model), no timestamps passed by the platform; a timed handler registered while the "
    "switch is muted is entered by the catch-up rule like on an unmuted switch (what the code does; the oracle "
    "accepts exactly that)",
    "when an operation is delivered while timers are already due (same instant, or a late loop) the loop's order "
    "of processing is taken as the order of events: a change/removal processed first cancels a hold whose deadline "
    "has just passed, and a timer callback's time is the time the loop ran it (oracle and model agree on this "
    "reading; with a punctual loop a hold fires exactly at change + ms)",
    "hold times are whole milliseconds >= 0; is_state/is_active(ms) has millisecond resolution (rounded elapsed "
    "time): the oracle accepts either answer within 0.51 ms of the threshold, queries (and wait_for_switch with "
    "only_on_change=False, which starts with such a query) at x.5 ms +-10 us elapsed are not issued: the float "
    "rounding there depends on the absolute clock value",
    "the loop runs a due wake-up before any external operation with a later timestamp unless the case says the loop "
    "is late",
    "config suite: event/time strings of the forms generated (one '|' at most, '<digits>', '<digits>ms', '<digits>s'), "
    "distinct tags per switch, debug off (events are posted only when a handler exists: handlers are registered for "
    "every candidate name)",
]

GRID = 125000          # us per grid step (1/8 s)
NSW = 6
SWITCHES = {
    "s0": {"number": "0"},
    "s1": {"number": "1", "type": "NC"},
    "s2": {"number": "2", "events_when_activated": "c03_x2|250ms", "events_when_deactivated": "c03_y2|125ms"},
    "s3": {"number": "3", "type": "NC"},
    "s4": {"number": "4", "ignore_window_ms": 250},
    "s5": {"number": "5", "type": "NC", "ignore_window_ms": 375},
}
CONFIG = {"switches": SWITCHES, "virtual_platform_start_active_switches": "s3"}
EVIDS = {"c03_x2": 1002, "c03_y2": 1003}
MS = [0, 0, 125, 250, 375, 500, 1000]
FUEL = 400


# ------------------------------------------------------------------------------------------------
def gen(rng, tier, i):
    nsw = rng.choice([1, 1, 2, 2, 3, 4])
    muting = rng.random() < 0.4
    sws = rng.sample(range(NSW), nsw)
    pool = []
    for _ in range(rng.randint(2, 6)):
        pool.append([rng.randrange(4), rng.randrange(2), rng.choice(MS)])
    if rng.random() < 0.5:      # same callback, same state, different ms / same ms, other state
        c, st, ms = rng.choice(pool)
        pool.append([c, st, rng.choice(MS)])
        pool.append([c, 1 - st, ms])
    acts = {}
    if rng.random() < 0.4:
        for cb in rng.sample(range(4), rng.randint(1, 3)):
            acts[str(cb)] = [[rng.choice("aar")] + rng.choice(pool) for _ in range(rng.randint(1, 2))]
    ops = []
    t = rng.choice([0, 0, 1, 3])
    if muting and rng.random() < 0.5:
        # a hold is pending, the switch is muted and leaves the state before/at/after the deadline
        sw = rng.choice(sws)
        cb, st_, ms = rng.randrange(4), rng.randrange(2), rng.choice([250, 375, 500, 1000])
        pool.append([cb, st_, ms])
        ops.append([t, sw, "add", cb, st_, ms, rng.randrange(3)])
        ops.append([t, sw, "rep", 1, 1 - st_, 0])
        t += rng.choice([0, 1])
        ops.append([t, sw, "rep", 1, st_, rng.randrange(2)])
        t += rng.choice([0, 1, 2])
        ops.append([t, sw, "mute", rng.randrange(2)])
        t += rng.choice([0, 1, 2, 3, 4])
        ops.append([t, sw, "rep", rng.randrange(2), rng.randrange(2), rng.randrange(2)])
        t += rng.choice([0, 1, 2])
    for _ in range(rng.choice([3, 6, 10, 16, 25] if tier == "quick" else [6, 16, 25, 40])):
        sw = rng.choice(sws)
        r = rng.random()
        if muting and rng.random() < 0.15:
            ops.append([t, sw, rng.choice(["mute", "mute", "unmute"]), rng.randrange(2)])
        elif r < 0.40 or (sw >= 4 and r < 0.6):
            ops.append([t, sw, "rep", rng.randrange(2), rng.randrange(2), rng.randrange(2)])
        elif r < 0.70:
            ops.append([t, sw, "add"] + rng.choice(pool) + [rng.randrange(3)])
        elif r < 0.86:
            ops.append([t, sw, "rem"] + rng.choice(pool) + [rng.randrange(4)])
        elif r < 0.89:
            ops.append([t, sw, "wait", rng.randrange(3), rng.randrange(2), rng.choice(MS)])
        else:
            ops.append([t, sw, "q", rng.randrange(2), rng.choice(MS + [2000]), rng.randrange(2)])
        t += rng.choice([0, 0, 1, 1, 1, 2, 2, 3, 4, 4, 5, 8, 9]) if rng.random() < 0.96 else rng.choice([80, 2400, 8000])
    return {"init": [rng.randrange(2) for _ in range(NSW)], "acts": acts, "ops": ops,
            "end": t + rng.choice([0, 1, 3, 8, 12])}


WIN_STEPS = {4: 2, 5: 3}       # ignore windows of s4/s5 in grid steps


def gen_boundary(rng, tier, i):
    """grid stream, scheduler choices at coincidences: operations delivered from inside the loop at exactly a
    deadline / window end (queued ahead of the timers: "@s"), or by a loop that is late ("@l": the clock jumps to
    the instant of the operation and everything that became due meanwhile runs after it)"""
    case = gen(rng, tier, i)
    ops = case["ops"]
    pre = []
    t = 0
    if rng.random() < 0.6:
        # a change opens the ignore window; the switch changes back exactly at / just after the window end
        sw = rng.choice([4, 5])
        w = WIN_STEPS[sw]
        v = 1 - case["init"][sw]
        t = rng.choice([0, 1])
        pre.append([t, sw, "rep", 1, v, rng.randrange(2)])
        if rng.random() < 0.3:
            pre.append([t + rng.randrange(1, w + 1), sw, "rep" + rng.choice(["", "@s"]), 1, 1 - v, 0])
            if rng.random() < 0.5:
                pre.append([t + w, sw, "rep" + rng.choice(["@s", "@l", ""]), 1, v, 0])
        else:
            d = rng.choice([0, 0, 0, 1, 2])
            pre.append([t + w + d, sw, "rep" + (rng.choice(["@s", "@l", ""]) if d == 0 else "@l"), 1, 1 - v, 0])
        t = pre[-1][0] + rng.choice([0, 1, 2, 3])
    elif rng.random() < 0.7:
        # a hold is pending; something happens exactly at / just after its deadline, ahead of the wake-up
        sw = rng.randrange(NSW)
        cb, st_, msg = rng.randrange(4), rng.randrange(2), rng.choice([1, 2, 3, 4])
        pre.append([0, sw, "add", cb, st_, msg * 125, rng.randrange(3)])
        if rng.random() < 0.5:
            pre.append([0, sw, "add", rng.randrange(4), st_, rng.choice([1, 2, 3, 4, 8]) * 125, 0])
        pre.append([0, sw, "rep", 1, 1 - st_, 0])
        pre.append([1, sw, "rep", 1, st_, 0])
        d = rng.choice([0, 0, 0, 1, 2, 5])
        md = rng.choice(["@s", "@l"]) if d == 0 else "@l"
        k = rng.random()
        if k < 0.35:
            pre.append([1 + msg + d, sw, "rep" + md, 1, 1 - st_, 0])
        elif k < 0.6:
            pre.append([1 + msg + d, sw, "rem" + md, cb, st_, msg * 125, rng.randrange(4)])
        elif k < 0.85:
            pre.append([1 + msg + d, sw, "add" + md, rng.randrange(4), st_, rng.choice([1, 2, 3, 4, 8]) * 125, 0])
        else:
            pre.append([1 + msg + d, sw, "q" + md, st_, msg * 125, rng.randrange(2)])
        t = pre[-1][0] + rng.choice([0, 1, 2])
    # the random tail: every operation gets a delivery mode
    last_s = -1
    tail = []
    for o in ops:
        o = list(o)
        o[0] += t
        m = rng.random()
        if m < 0.25 and o[0] != last_s:
            o[2] += "@s"
            last_s = o[0]
        elif m < 0.45:
            o[2] += "@l"
        tail.append(o)
    # two scheduled operations at one instant have no promised order among themselves: keep one
    seen = set(o[0] for o in pre if o[2].endswith("@s"))
    for o in tail:
        if o[2].endswith("@s"):
            if o[0] in seen:
                o[2] = o[2][:-2]
            seen.add(o[0])
    case["ops"] = pre + tail
    case["end"] += t
    return case


def gen_dispatch(rng, tier, i):
    """grid stream, structured re-entrancy: several handlers (timed / untimed, for the new state and for the other
    one, sometimes the same triple twice) are registered on one switch in a known order; the scripts of some of
    them REMOVE another entry (an earlier or a later one of the same dispatch, timed or untimed, same or other
    state, or themselves), in 45% followed by registering it again, sometimes registering a new one; the switch
    then changes into the state and stays there for less than / exactly / longer than the hold times (the timed
    callbacks run their scripts at the wake-up), leaves and comes back.  The removal therefore happens while the
    dispatch loop / the wake-up loop is iterating over its snapshot of the entries."""
    init = [rng.randrange(2) for _ in range(NSW)]
    sw = rng.randrange(NSW)
    st = 1 - init[sw]
    n = rng.randint(2, 5)
    cbs = rng.sample(range(6), n)
    ents = []
    for cb in cbs:
        ents.append([cb, st if rng.random() < 0.8 else 1 - st, rng.choice([0, 0, 0, 125, 250, 375, 500])])
    if rng.random() < 0.15:
        ents.insert(rng.randrange(len(ents) + 1), list(rng.choice(ents)))
    acts = {}
    for a in rng.sample(range(len(ents)), rng.randint(1, min(3, len(ents)))):
        l = []
        for _ in range(rng.choice([1, 1, 2])):
            tgt = ents[a] if rng.random() < 0.12 else rng.choice([e for j, e in enumerate(ents) if j != a])
            l.append(["r"] + tgt)
            if rng.random() < 0.45:
                l.append(["a"] + tgt)
        if rng.random() < 0.2:
            l.insert(rng.randrange(len(l) + 1), ["a", rng.randrange(6), rng.randrange(2), rng.choice([0, 125, 250])])
        acts[str(ents[a][0])] = l
    ops = []
    t = rng.choice([0, 1])
    for e in ents:
        ops.append([t, sw, "add"] + e + [rng.randrange(3)])
    other = None
    if rng.random() < 0.3:          # a bystander switch with the same callbacks (fns are per switch)
        other = rng.choice([x for x in range(NSW) if x != sw])
        for e in rng.sample(ents, rng.randint(1, len(ents))):
            ops.append([t, other, "add"] + e + [0])
    t += rng.choice([0, 1, 2])
    v = st
    for k in range(rng.choice([1, 2, 2, 3, 4])):
        ops.append([t, sw, "rep", 1, v, rng.randrange(2)])
        if other is not None and rng.random() < 0.5:
            ops.append([t, other, "rep", 1, rng.randrange(2), 0])
        if rng.random() < 0.15:
            ops.append([t, sw, "rep", 1, v, 0])          # duplicate
        t += rng.choice([0, 1, 2, 3, 4, 5, 9]) if k else rng.choice([1, 2, 3, 4, 5, 5, 9])
        if rng.random() < 0.2:
            ops.append([t, sw, rng.choice(["add", "rem"])] + rng.choice(ents) + [0])
            t += rng.choice([0, 1, 3])
        v = 1 - v
    return {"init": init, "acts": acts, "ops": ops, "end": t + rng.choice([1, 5, 9])}


NC = {1, 3, 5}
MSG = [0, 0, 1, 2, 7, 30, 125, 250, 299, 300, 333, 500, 1000]
DELTAS = [-600, -450, -400, -300, -200, -100, -60, 60, 100, 200, 300, 400, 450, 600]


def gen_generic(rng, tier, i):
    """generic stream (DESIGN.md 2.4): integer microseconds, arbitrary sub-millisecond instants; operations are
    deliberately placed within +-0.6 ms of pending deadlines / window ends (never closer than 50 us, so no
    comparison in the implementation has equal operands) and in between at arbitrary instants; some are
    delivered by a late loop ("@l")"""
    nsw = rng.choice([1, 1, 2, 2, 3])
    sws = rng.sample(range(NSW), nsw)
    muting = rng.random() < 0.25
    pool = [[rng.randrange(4), rng.randrange(2), rng.choice(MSG)] for _ in range(rng.randint(2, 6))]
    if rng.random() < 0.5:
        c, st_, ms = rng.choice(pool)
        pool.append([c, st_, rng.choice(MSG)])
        pool.append([c, 1 - st_, ms])
    acts = {}
    if rng.random() < 0.35:
        for cb in rng.sample(range(4), rng.randint(1, 3)):
            acts[str(cb)] = [[rng.choice("aar")] + rng.choice(pool) for _ in range(rng.randint(1, 2))]
    init = [rng.randrange(2) for _ in range(NSW)]
    state = list(init)
    lc = [None] * NSW
    wend = [None] * NSW
    muted = [set() for _ in range(NSW)]
    mss = sorted(set(p[2] for p in pool if p[2]) | {125, 250})
    win = {4: 250000, 5: 375000}

    def deadlines():
        ds = []
        for sw in sws:
            if lc[sw] is not None:
                ds += [lc[sw] + m * 1000 for m in mss]
            if wend[sw] is not None:
                ds.append(wend[sw])
        return ds

    ops = []
    t = rng.randrange(0, 3000)
    n = rng.choice([4, 8, 12, 20] if tier == "quick" else [8, 16, 25, 40])
    for _ in range(n):
        sw = rng.choice(sws)
        ahead = [d for d in deadlines() if d + 600 > t]
        mode = ""
        if ahead and rng.random() < 0.6:
            d = rng.choice(ahead) if rng.random() < 0.5 else min(ahead)
            cand = d + rng.choice(DELTAS)
            if cand >= t:
                t = cand
                if cand > d and rng.random() < 0.4:
                    mode = "@l"
        else:
            t += rng.choice([0, rng.randrange(1, 2000), rng.randrange(1, 400000), rng.randrange(1, 1200000)])
            if rng.random() < 0.15:
                mode = "@l"
        for _k in range(20):        # never within 50 us of a timer
            if all(abs(t - d) >= 50 for d in deadlines()):
                break
            t += 70
        r = rng.random()
        if muting and rng.random() < 0.12:
            src = rng.randrange(2)
            k = rng.choice(["mute", "mute", "unmute"])
            ops.append([t, sw, k + mode, src])
            (muted[sw].add if k == "mute" else muted[sw].discard)(src)
        elif r < 0.40 or (sw >= 4 and r < 0.55):
            logical, val = rng.randrange(2), rng.randrange(2)
            ops.append([t, sw, "rep" + mode, logical, val, rng.randrange(2)])
            v = val if logical or sw not in NC else 1 - val
            if v != state[sw]:
                state[sw] = v
                lc[sw] = t
                if sw in win and not muted[sw] and (wend[sw] is None or wend[sw] <= t):
                    wend[sw] = t + win[sw]
        elif r < 0.72:
            ops.append([t, sw, "add" + mode] + rng.choice(pool) + [rng.randrange(3)])
        elif r < 0.86:
            ops.append([t, sw, "rem" + mode] + rng.choice(pool) + [rng.randrange(4)])
        elif r < 0.90:
            ops.append([t, sw, "wait" + mode, rng.randrange(3), rng.randrange(2), rng.choice(MSG)])
        else:
            ops.append([t, sw, "q" + mode, rng.randrange(2), rng.choice(MSG + [2000]), rng.randrange(2)])
    end = t + rng.choice([137, 1500, 40123, 400000, 1500000])
    for _k in range(20):
        if all(abs(end - d) >= 50 for d in deadlines()):
            break
        end += 70
    return {"unit": 1, "init": init, "acts": acts, "ops": ops, "end": end}


# ------------------------------------------------------------------------------------------------
# implementation side
_R = {}


def _boot():
    from rig import Rig
    r = Rig(CONFIG).start()
    m = r.machine
    sc = m.switch_controller
    st = {"rig": r, "sc": sc, "sw": [m.switches["s%d" % i] for i in range(NSW)], "trace": None, "t0": 0.0,
          "pristine": [], "initreg": [], "win": []}

    def mk_ev(swi, evid):
        def handler(**kwargs):
            if st["trace"] is not None:
                st["trace"].append(["e", _rel(st), swi, evid])
        return handler
    for i in range(NSW):
        m.events.add_handler("s%d_inactive" % i, mk_ev(i, 1000))
        m.events.add_handler("s%d_active" % i, mk_ev(i, 1001))
    m.events.add_handler("c03_x2", mk_ev(2, 1002))
    m.events.add_handler("c03_y2", mk_ev(2, 1003))
    # the handlers the Switch devices registered for themselves: keep the objects, name them for the model
    for i, sw in enumerate(st["sw"]):
        lists = sc.registered_switches[sw]
        st["pristine"].append([list(lists[0]), list(lists[1])])
        named = []
        for s_ in (0, 1):
            row = []
            for e in lists[s_]:
                kw = getattr(e.callback, "keywords", None) or {}
                fn = getattr(e.callback, "func", None)
                if "event" in kw and kw["event"] in EVIDS:
                    row.append([EVIDS[kw["event"]], int(e.ms)])
                elif fn is not None and getattr(fn, "__name__", "") == "_post_events" and kw.get("state") == s_:
                    row.append([1000 + s_, int(e.ms)])
                elif fn is not None and getattr(fn, "__name__", "") == "_post_events_with_recycle" \
                        and kw.get("state") == s_:
                    row.append([1010 + s_, int(e.ms)])
                else:
                    raise RuntimeError("unexpected pre-registered switch handler %r" % (e.callback,))
            named.append(row)
        st["initreg"].append(named)
        st["win"].append(int(round(sw.recycle_secs * 1e6)))
    st["invert"] = [int(sw.invert) for sw in st["sw"]]
    st["waitid"] = None
    st["futs"] = []
    names = dict((sw.name, i) for i, sw in enumerate(st["sw"]))

    def monitor(change):
        if st["trace"] is not None and change.name in names:
            st["trace"].append(["m", _rel(st), names[change.name], int(change.state)])
    sc.add_monitor(monitor)
    return st


def _rel(st):
    return int(round((st["rig"].machine.clock.get_time() - st["t0"]) * 1e6))


def _timer_handles(st):
    """not-cancelled TimerHandles: in the heap, and those of the running iteration already moved to the ready queue"""
    loop = st["rig"].loop
    return [h for h in list(loop._scheduled) + list(loop._ready) if not h._cancelled and hasattr(h, "when")]


def _wake_handles(st, sw):
    out = []
    for h in _timer_handles(st):
        cb = h._callback
        if getattr(getattr(cb, "func", None), "__name__", "") == "_process_active_timed_switches" and cb.args \
                and cb.args[0] is sw:
            out.append(h)
    return out


def _recycle_handles(st, sw):
    out = []
    for h in _timer_handles(st):
        f = getattr(h._callback, "func", None)
        if getattr(f, "__name__", "") == "_recycle_passed" and getattr(f, "__self__", None) is sw:
            out.append(h)
    return out


def _us(st, t):
    return int(round((t - st["t0"]) * 1e6))


def _held(st, sw):
    """deadlines (us) of the wake-up / window-end timer of sw that are due but have not run yet (None: none)"""
    now = st["rig"].now()
    w = [h.when() for h in _wake_handles(st, sw) if h.when() <= now]
    r = [h.when() for h in _recycle_handles(st, sw) if h.when() <= now]
    return (_us(st, min(w)) if w else None), (_us(st, min(r)) if r else None)


def _jump(st, target):
    """the loop was busy: the clock is at `target` and nothing that became due meanwhile has run yet"""
    loop = st["rig"].loop
    loop.set_time(target)
    tm = loop._timers
    while tm._timers_heap and tm._timers_heap[0] <= target:     # keep TimeTravelLoop's clock monotonic
        tm.pop_closest()


def _near(st):
    """generic stream only: a timer of a test switch within 20 us of the clock (float order would decide)"""
    now = st["rig"].now()
    return any(abs(h.when() - now) < 2e-5 for sw in st["sw"] for h in _wake_handles(st, sw) + _recycle_handles(st, sw))


def _reset(st, case):
    sc = st["sc"]
    for sw in st["sw"]:
        for h in _wake_handles(st, sw) + _recycle_handles(st, sw):
            h.cancel()
        sw._mutes.clear()
        sw.recycle_clear_time = None
    sc._active_timed_switches.clear()
    sc._timed_switch_handler_delay.clear()
    for i, sw in enumerate(st["sw"]):
        for l in st["pristine"][i]:
            for e in l:
                e.cancelled = False
        sc.registered_switches[sw] = [list(st["pristine"][i][0]), list(st["pristine"][i][1])]
        sw.state = case["init"][i]
        sw.hw_state = case["init"][i] ^ st["invert"][i]
        sw.last_change = -100000
    rig = st["rig"]
    t0 = float(int(rig.now()) + 2)
    rig.advance(t0 - rig.now())
    if rig.now() != t0:
        rig.loop.set_time(t0)
    st["t0"] = t0


def _settle(st):
    rig = st["rig"]
    ev = rig.machine.events
    for _ in range(60):
        rig.advance(0)
        now = rig.now()
        due = any(h.when() <= now for sw in st["sw"] for h in _wake_handles(st, sw) + _recycle_handles(st, sw))
        if not due and not ev.event_queue and not rig.loop._ready:
            break


def run_impl(case):
    if _R.get("st") is None:
        _R["st"] = _boot()
    st = _R["st"]
    try:
        return _run(st, case)
    except BaseException:
        _R["st"] = None
        raise


def _mode(o):
    return o[2].partition("@")


def _tsec(st, case, t):
    u = case.get("unit", GRID)
    return st["t0"] + (t / 8.0 if u == GRID else t * u / 1e6)


def _run(st, case):
    rig, sc = st["rig"], st["sc"]
    _reset(st, case)
    trace = []
    st["trace"] = trace
    fns = {}
    generic = case.get("unit", GRID) != GRID
    flags = {"near": False}
    ran = set()
    ev = rig.machine.events

    def do_add(swi, cb, s_, ms, via):
        sw = st["sw"][swi]
        f = fn(swi, cb)
        if via == 0:
            sc.add_switch_handler("s%d" % swi, f, state=s_, ms=ms)
        elif via == 1:
            sw.add_handler(f, state=s_, ms=ms)
        else:
            sc.add_switch_handler_obj(sw, f, s_, ms)

    def do_rem(swi, cb, s_, ms, via):
        from mpf.core.switch_controller import SwitchHandler
        sw = st["sw"][swi]
        f = fn(swi, cb)
        if via == 0:
            sc.remove_switch_handler("s%d" % swi, f, state=s_, ms=ms)
        elif via == 1:
            sw.remove_handler(f, state=s_, ms=ms)
        elif via == 2:
            sc.remove_switch_handler_obj(sw, f, s_, ms)
        else:
            sc.remove_switch_handler_by_key(SwitchHandler(sw, f, s_, ms))

    def fn(swi, cb):
        if (swi, cb) not in fns:
            def f(**kwargs):
                if len(trace) > 3000:
                    raise RuntimeError("runaway: more than 3000 trace entries")
                trace.append(["f", _rel(st), swi, cb])
                for a in case["acts"].get(str(cb), []):
                    if a[0] == "a":
                        do_add(swi, a[1], a[2], a[3], 0)
                    else:
                        do_rem(swi, a[1], a[2], a[3], 0)
            fns[(swi, cb)] = f
        return fns[(swi, cb)]

    def do_op(idx, o):
        swi, kind = o[1], _mode(o)[0]
        sw = st["sw"][swi]
        holds = [_held(st, x) for x in st["sw"]]     # the loop is shared: what this operation overtook, per switch
        if generic and _near(st):
            flags["near"] = True
        trace.append(["op", idx, _rel(st), [h[0] for h in holds], [h[1] for h in holds]])
        ran.add(idx)
        if kind == "rep":
            logical, val, bynum = o[3], o[4], o[5]
            if bynum:
                sc.process_switch_by_num(sw.hw_switch.number, val, sw.platform, logical=bool(logical))
            else:
                sc.process_switch("s%d" % swi, val, logical=bool(logical))
        elif kind == "add":
            do_add(swi, o[3], o[4], o[5], o[6])
        elif kind == "rem":
            do_rem(swi, o[3], o[4], o[5], o[6])
        elif kind == "q":
            s_, ms, how = o[3], o[4], o[5]
            el = _us(st, rig.now()) - _us(st, sw.last_change)
            if ms and generic and 490 <= el % 1000 <= 510:
                trace.append(["q", _rel(st), swi, -1])      # x.5 ms elapsed: the float decides the rounding; not asked
            else:
                if how == 0:
                    b = sc.is_active(sw, ms) if s_ else sc.is_inactive(sw, ms)
                else:
                    b = sc.is_state(sw, s_, ms)
                trace.append(["q", _rel(st), swi, int(bool(b))])
        elif kind == "mute":
            sw.mute(["c03_src", "ball_search"][o[3]])
        elif kind == "unmute":
            sw.unmute(["c03_src", "ball_search"][o[3]])
        elif kind == "wait":
            # wait_for_switch(state 0/1/2, only_on_change, ms): a future; its handler is callback number 100+idx
            wid = 100 + idx
            el = _us(st, rig.now()) - _us(st, sw.last_change)
            if o[5] and generic and not o[4] and o[3] != 2 and 490 <= el % 1000 <= 510:
                # only_on_change=False asks is_state(ms) first: at x.5 ms elapsed the float decides the rounding
                # (it depends on the absolute clock value); like a query at such an instant the wait is not issued
                trace.append(["wskip", _rel(st), swi, wid])
                return
            fut = sc.wait_for_switch(sw, state=o[3], only_on_change=bool(o[4]), ms=o[5])
            trace.append(["wq", _rel(st), swi, wid, int(fut.done())])

            def done(f, swi=swi, wid=wid, ms=o[5]):
                if flags.get("closed") or f.cancelled():
                    return
                res = f.result()
                trace.append(["w", _rel(st), swi, wid,
                              int(res.get("switch_name") == "s%d" % swi and res.get("ms") == ms)])
            fut.add_done_callback(done)
            st["futs"].append(fut)

    def advance_to(target):
        if target > rig.now():
            rig.advance(target - rig.now())
            if generic and rig.now() != target and abs(rig.now() - target) < 1e-7:
                rig.loop.set_time(target)
        _settle(st)

    crashed = None
    st["futs"] = []
    sched = []
    try:
        # operations delivered from inside the loop (a platform callback due at that instant): queued before
        # everything the case itself schedules, so at a coincidence they usually run ahead of the timers
        for idx, o in enumerate(case["ops"]):
            if _mode(o)[2] == "s":
                def wrapper(idx=idx, o=o):
                    ev.process_event_queue()        # what earlier callbacks of this iteration posted
                    do_op(idx, o)
                    ev.process_event_queue()
                sched.append(rig.loop.call_at(_tsec(st, case, o[0]), wrapper))
        for idx, o in enumerate(case["ops"]):
            mode = _mode(o)[2]
            target = _tsec(st, case, o[0])
            if mode == "s":
                if idx not in ran:
                    advance_to(target)
                if idx not in ran:
                    raise RuntimeError("scheduled operation %d did not run" % idx)
                _settle(st)
                continue
            if mode == "l":
                if target > rig.now():
                    _jump(st, target)
            else:
                advance_to(target)
            do_op(idx, o)
            _settle(st)
        advance_to(_tsec(st, case, case["end"]))
        trace.append(["end", _rel(st)])
    except Exception as e:      # an exception in a loop callback stops the test loop: the machine is dead
        crashed = "%s: %s" % (type(e).__name__, e)
        exc = rig.exception()
        if exc and "exception" in exc:
            crashed = "%s: %s" % (type(exc["exception"]).__name__, exc["exception"])
        trace.append(["crash", _rel(st), crashed[:200]])
    st["trace"] = None
    flags["closed"] = True
    for h in sched:
        h.cancel()
    out = {"trace": trace, "final": [], "wakes": [], "cur": [], "rc": [], "muted": [], "win": st["win"],
           "initreg": st["initreg"], "invert": st["invert"], "near": flags["near"], "waitreg": [],
           "lc0": int(round((-100000 - st["t0"]) * 1e6))}
    for sw in st["sw"]:
        out["final"].append([int(sw.state), int(sw.hw_state), int(round((sw.last_change - st["t0"]) * 1e6))])
        out["wakes"].append(sorted(int(round((h.when() - st["t0"]) * 1e6)) for h in _wake_handles(st, sw)))
        rec = sc._timed_switch_handler_delay.get(sw)
        out["cur"].append([] if rec is None else [int(round((rec[1] - st["t0"]) * 1e6))])
        out["rc"].append(sorted(int(round((h.when() - st["t0"]) * 1e6)) for h in _recycle_handles(st, sw)))
        out["muted"].append(int(sw.is_muted))
        # wait handlers still registered at the end (a resolved future must have removed its handler)
        left = 0
        for l in sc.registered_switches[sw]:
            for e in l:
                if getattr(getattr(e.callback, "func", None), "__name__", "") == "_wait_handler":
                    left += 1
        out["waitreg"].append(left)
    if not crashed:
        for f in st["futs"]:
            if not f.done():
                f.cancel()
        st["trace"] = []
        try:
            _settle(st)         # the done callbacks remove the handlers
        finally:
            st["trace"] = None
    if crashed:
        try:
            rig.stop()
        except BaseException:
            pass
        _R["st"] = None
    return out


# ------------------------------------------------------------------------------------------------
# the configuration dimension: machines generated per group of cases (mpf: auto_create_switch_events on/off, custom
# switch_event_active/inactive and switch_tag_event patterns, 5..9 switches with 0..3 tags, events_when_activated /
# _deactivated with and without "|time", NC and ignore_window_ms combined); the timeline is reports only
CFG_GROUP = 4           # cases per generated machine config (one boot, ~0.1 s, per group and worker)
_CFG = {}
ACT_PATS = ["%_active", "%_active", "c03on_%", "%_c03hit_%", "c03h_%|250ms"]
INACT_PATS = ["%_inactive", "%_inactive", "c03off_%", "c03r_%|125"]
TAG_PATS = ["sw_%", "sw_%", "c03t_%", "%_c03tag"]
TAGS = ["c03ta", "c03tb", "c03tc", "c03td"]
EWA = ["c03_ea", "c03_eb", "c03_ec|250ms", "c03_ed|1s", "c03_ee|125", "c03_ef"]
EWD = ["c03_da", "c03_db|125ms", "c03_ea", "c03_dc", "c03_dd|375MS"]


def _gen_machine(rng):
    mpf = {"auto": int(rng.random() < 0.5), "act": rng.choice(ACT_PATS), "inact": rng.choice(INACT_PATS),
           "tag": rng.choice(TAG_PATS)}
    sws = []
    for k in range(rng.randint(5, 9)):
        sws.append({"name": "c03s%d" % k, "nc": int(rng.random() < 0.35), "win": rng.choice([0, 0, 0, 250, 375]),
                    "tags": rng.sample(TAGS, rng.choice([0, 1, 1, 2, 3])),
                    "ewa": rng.sample(EWA, rng.choice([0, 0, 1, 2])),
                    "ewd": rng.sample(EWD, rng.choice([0, 0, 1, 2]))})
    return {"mpf": mpf, "sws": sws}


def gen_config(rng, tier, i):
    if i % CFG_GROUP == 0 or "m" not in _CFG:
        _CFG["m"] = _gen_machine(rng)
    m = _CFG["m"]
    n = len(m["sws"])
    act = rng.sample(range(n), rng.randint(1, n))
    ops = []
    t = rng.choice([0, 1, 2])
    for _ in range(rng.choice([4, 8, 16, 30] if tier == "quick" else [8, 16, 30, 60])):
        ops.append([t, rng.choice(act), rng.randrange(2), rng.randrange(2), rng.randrange(2)])
        t += rng.choice([0, 0, 1, 1, 2, 3, 4, 5, 9])
    return {"mpf": m["mpf"], "sws": m["sws"], "init": [rng.randrange(2) for _ in range(n)], "ops": ops,
            "end": t + rng.choice([1, 4, 9])}


def _split_ev(e):
    """'event|time' -> (event, ms); written from the documentation of the config format, not from the code"""
    if "|" not in e:
        return e, None
    n, tm = e.split("|")
    tm = tm.lower()
    if tm.endswith("ms"):
        return n, int(tm[:-2])
    if tm.endswith("s"):
        return n, int(tm[:-1]) * 1000
    return n, int(tm)


def _configured(mpf, c, v):
    """the events the configuration asks switch c to post when it changes to state v"""
    l = []
    if mpf["auto"]:
        l.append((mpf["act"] if v else mpf["inact"]).replace("%", c["name"]))
    for tag in c["tags"]:
        b = mpf["tag"].replace("%", tag)
        l += [b, b + "_active"] if v else [b + "_inactive"]
    return l + (c["ewa"] if v else c["ewd"])


def _all_names(case):
    """every event name any variant of the machine-wide settings could make these switches post"""
    names = set()
    for c in case["sws"]:
        for auto in (0, 1):
            for a in ACT_PATS:
                for b in INACT_PATS:
                    for tg in TAG_PATS:
                        for v in (0, 1):
                            for e in _configured({"auto": auto, "act": a, "inact": b, "tag": tg}, c, v):
                                names.add(_split_ev(e)[0])
    return sorted(names)


def _cboot(case):
    from rig import Rig
    mpf = case["mpf"]
    sw = {}
    for i, c in enumerate(case["sws"]):
        d = {"number": str(i)}
        if c["nc"]:
            d["type"] = "NC"
        if c["win"]:
            d["ignore_window_ms"] = c["win"]
        if c["tags"]:
            d["tags"] = ", ".join(c["tags"])
        if c["ewa"]:
            d["events_when_activated"] = ", ".join(c["ewa"])
        if c["ewd"]:
            d["events_when_deactivated"] = ", ".join(c["ewd"])
        sw[c["name"]] = d
    cfg = {"mpf": {"auto_create_switch_events": bool(mpf["auto"]), "switch_event_active": mpf["act"],
                   "switch_event_inactive": mpf["inact"], "switch_tag_event": mpf["tag"]}, "switches": sw}
    r = Rig(cfg).start()
    m = r.machine
    if bool(m.config["mpf"]["auto_create_switch_events"]) != bool(mpf["auto"]) or \
            m.config["mpf"]["switch_tag_event"] != mpf["tag"]:
        raise RuntimeError("machine did not take the mpf: section of the generated config")
    st = {"rig": r, "sc": m.switch_controller, "sw": [m.switches[c["name"]] for c in case["sws"]], "trace": None,
          "t0": 0.0}

    def mk(name):
        def handler(**kwargs):
            if st["trace"] is not None:
                st["trace"].append([_rel(st), name])
        return handler
    for name in _all_names(case):
        m.events.add_handler(name, mk(name))
    st["pristine"] = [[list(m.switch_controller.registered_switches[s_][0]),
                       list(m.switch_controller.registered_switches[s_][1])] for s_ in st["sw"]]
    return st


def run_config(case):
    import json
    key = json.dumps([case["mpf"], case["sws"]], sort_keys=True)
    if _R.get("ckey") != key or _R.get("cst") is None:
        old = _R.get("cst")
        _R["cst"] = None
        if old is not None:
            try:
                old["rig"].stop()
            except BaseException:
                pass
        _R["cst"] = _cboot(case)
        _R["ckey"] = key
    st = _R["cst"]
    try:
        return _crun(st, case)
    except BaseException:
        _R["cst"] = None
        raise


def _crun(st, case):
    rig, sc = st["rig"], st["sc"]
    for i, sw in enumerate(st["sw"]):
        for h in _wake_handles(st, sw) + _recycle_handles(st, sw):
            h.cancel()
        sw._mutes.clear()
        sw.recycle_clear_time = None
    sc._active_timed_switches.clear()
    sc._timed_switch_handler_delay.clear()
    for i, sw in enumerate(st["sw"]):
        sc.registered_switches[sw] = [list(st["pristine"][i][0]), list(st["pristine"][i][1])]
        sw.state = case["init"][i]
        sw.hw_state = case["init"][i] ^ int(sw.invert)
        sw.last_change = -100000
    t0 = float(int(rig.now()) + 2)
    rig.advance(t0 - rig.now())
    if rig.now() != t0:
        rig.loop.set_time(t0)
    st["t0"] = t0
    trace = []
    st["trace"] = trace
    crashed = None
    try:
        for o in case["ops"]:
            target = t0 + o[0] / 8.0
            if target > rig.now():
                rig.advance(target - rig.now())
            _settle(st)
            sw = st["sw"][o[1]]
            if o[4]:
                sc.process_switch_by_num(sw.hw_switch.number, o[3], sw.platform, logical=bool(o[2]))
            else:
                sc.process_switch(sw.name, o[3], logical=bool(o[2]))
            _settle(st)
        target = t0 + case["end"] / 8.0
        if target > rig.now():
            rig.advance(target - rig.now())
        _settle(st)
    except Exception as e:
        crashed = "%s: %s" % (type(e).__name__, e)
    st["trace"] = None
    out = {"posts": trace, "final": [], "crash": crashed, "lc0": int(round((-100000 - t0) * 1e6)),
           "invert": [int(sw.invert) for sw in st["sw"]], "win": [int(round(sw.recycle_secs * 1000)) for sw in st["sw"]]}
    for sw in st["sw"]:
        rc = sorted(_us(st, h.when()) for h in _recycle_handles(st, sw))
        out["final"].append([int(sw.state), int(sw.hw_state), _us(st, sw.last_change), len(_wake_handles(st, sw)),
                             rc[0] if rc else -1])
    if crashed:
        try:
            rig.stop()
        except BaseException:
            pass
        _R["cst"] = None
    return out


def _cstr(s):
    return zlist(list(s.encode()))


def coq_config(case, out):
    if out["crash"]:
        return None
    mpf = case["mpf"]
    M = "(mkM %s %s %s %s)" % (blit(mpf["auto"]), _cstr(mpf["act"]), _cstr(mpf["inact"]), _cstr(mpf["tag"]))
    sws = []
    for i, c in enumerate(case["sws"]):
        C = "(mkC %s %s %s %s %s %s)" % (_cstr(c["name"]), blit(c["nc"]), zlit(c["win"]),
                                         coqlist(_cstr(x) for x in c["tags"]), coqlist(_cstr(x) for x in c["ewa"]),
                                         coqlist(_cstr(x) for x in c["ewd"]))
        sws.append("(%s, %s)" % (C, blit(case["init"][i])))
    ops = coqlist("(%s, %d%%nat, (@nil (Z * Z)), (OReport %s %s))" % (zlit(o[0] * GRID), o[1], blit(o[2]), blit(o[3]))
                  for o in case["ops"])
    rows = sorted([t] + list(n.encode()) for t, n in out["posts"])
    rows += [[9] + f for f in out["final"]]
    return "((%s, %s, %s, (%s, %s, %s)), %s)" % (M, coqlist(sws), ops, zlit(out["lc0"]), zlit(case["end"] * GRID),
                                                 zlit(FUEL), coqlist(zlist(r) for r in rows))


HDR_CFG = "From C03 Require Import Model Multi Config.\nDefinition run := crun.\nDefinition out_eqb := cout_eqb.\n"


def oracle_config(case, out):
    """every configured event (name events iff auto_create_switch_events, tag events and events_when_* always) is
    posted exactly once per real change (untimed: at the change, or per ignore window; 'event|time': time later iff
    the switch stayed), and nothing else is posted: the expected posts are computed outright from the config and
    the reports (external delivery: the loop has run every timer due at or before a report before the report)"""
    fails = []
    if out["crash"]:
        return [{"sig": "crash", "what": "the machine raised: %s" % out["crash"][:200]}]
    mpf = case["mpf"]
    want = []
    for i, c in enumerate(case["sws"]):
        inv, win = c["nc"], c["win"] * 1000
        state = case["init"][i]
        raw = state ^ inv
        lc = None
        unt = {}
        tim = {}
        for v in (0, 1):
            es = [_split_ev(e) for e in _configured(mpf, c, v)]
            unt[v] = [n for n, ms in es if ms is None]
            tim[v] = [(n, ms) for n, ms in es if ms is not None]
        holds = []          # [due, name]
        wopen = None        # [end, posted state]

        def close(t):
            nonlocal wopen
            if wopen is not None and wopen[0] <= t:
                if state != wopen[1]:
                    want.extend([wopen[0], n] for n in unt[state])
                wopen = None
        for o in [o for o in case["ops"] if o[1] == i] + [None]:
            t = (case["end"] if o is None else o[0]) * GRID
            want.extend(h for h in holds if h[0] <= t)
            holds = [h for h in holds if h[0] > t]
            close(t)
            if o is None:
                break
            v = o[3] if o[2] else o[3] ^ inv
            raw = o[3] ^ inv if o[2] else o[3]
            if v == state:
                continue
            state, lc = v, t
            holds = [[t + ms * 1000, n] for n, ms in tim[v] if ms > 0]
            want.extend([t, n] for n, ms in tim[v] if ms == 0)
            if win:
                if wopen is None:
                    wopen = [t + win, v]
                    want.extend([t, n] for n in unt[v])
            else:
                want.extend([t, n] for n in unt[v])
        st_, hw_, lc_ = out["final"][i][:3]
        if st_ != state or hw_ != raw:
            fails.append({"sig": "state-mismatch", "what": "switch %s: state/hw_state %d/%d, last report says %d/%d"
                          % (c["name"], st_, hw_, state, raw)})
        if lc is not None and lc_ != lc:
            fails.append({"sig": "last-change-wrong", "what": "switch %s: last_change %d, real change at %d"
                          % (c["name"], lc_, lc)})
    got = sorted([t, n] for t, n in out["posts"])
    want.sort()
    if got != want:
        from collections import Counter
        cg, cw = Counter(map(tuple, got)), Counter(map(tuple, want))
        miss = sorted((cw - cg).elements())
        extra = sorted((cg - cw).elements())
        if miss:
            fails.append({"sig": "configured-event-missed",
                          "what": "configured events not posted (time us, event): %r" % (miss[:4],)})
        if extra:
            fails.append({"sig": "configured-event-unexpected",
                          "what": "events posted that no change/config asks for (time us, event): %r" % (extra[:4],)})
    return fails


def shrink_config(case):
    ops = case["ops"]
    for i in range(len(ops)):
        yield dict(case, ops=ops[:i] + ops[i + 1:])
    n = len(case["sws"])
    used = set(o[1] for o in ops)
    for k in range(n - 1, -1, -1):
        if k not in used and n > 1:
            m = lambda j: j if j < k else j - 1
            yield dict(case, sws=case["sws"][:k] + case["sws"][k + 1:], init=case["init"][:k] + case["init"][k + 1:],
                       ops=[[o[0], m(o[1])] + o[2:] for o in ops])
    for k, c in enumerate(case["sws"]):
        for f in ("tags", "ewa", "ewd"):
            for j in range(len(c[f])):
                c2 = dict(c, **{f: c[f][:j] + c[f][j + 1:]})
                yield dict(case, sws=case["sws"][:k] + [c2] + case["sws"][k + 1:])
        if c["win"]:
            yield dict(case, sws=case["sws"][:k] + [dict(c, win=0)] + case["sws"][k + 1:])
    if ops and case["end"] > ops[-1][0] + 9:
        yield dict(case, end=ops[-1][0] + 9)


def nontrivial_config(case, out):
    return bool(out["posts"])


def describe_config(case):
    return "auto=%d tags=%d win=%d timed=%d" % (
        case["mpf"]["auto"], int(any(c["tags"] for c in case["sws"])), int(any(c["win"] for c in case["sws"])),
        int(any("|" in e for c in case["sws"] for e in c["ewa"] + c["ewd"])))


# ------------------------------------------------------------------------------------------------
# Coq printers
def _act(a):
    return "(%s %s %s %s)" % ("AAdd" if a[0] == "a" else "ARem", zlit(a[1]), blit(a[2]), zlit(a[3]))


def _op(o):
    k = _mode(o)[0]
    if k == "rep":
        return "(OReport %s %s)" % (blit(o[3]), blit(o[4]))
    if k == "add":
        return "(OAdd %s %s %s)" % (zlit(o[3]), blit(o[4]), zlit(o[5]))
    if k == "rem":
        return "(ORem %s %s %s)" % (zlit(o[3]), blit(o[4]), zlit(o[5]))
    if k == "mute":
        return "(OMute %s)" % zlit(o[3])
    if k == "unmute":
        return "(OUnmute %s)" % zlit(o[3])
    return "(OQuery %s %s)" % (blit(o[3]), zlit(o[4]))


def _oplist(case, out):
    """operations in the order and at the times the implementation ran them: [idx, t_us, hold_w, hold_r]"""
    return [e[1:] for e in out["trace"] if e[0] == "op"]


def coq_case(case, out):
    if out.get("near"):
        return None         # generic stream: an operation landed within 20 us of a timer (counted, see RULE)
    if any(e[0] == "crash" and "runaway: more than 3000" in e[2] for e in out["trace"]):
        return None         # registrations doubling at every change: cut off by the harness after 3000 trace entries
    ins, exps = [], []
    tr = out["trace"]
    acts = dict(case["acts"])
    ran = _oplist(case, out)
    wq = dict((e[3], e[4]) for e in tr if e[0] == "wq")
    wskip = set(e[3] for e in tr if e[0] == "wskip")
    qans, cur_idx = {}, None
    for e in tr:
        if e[0] == "op":
            cur_idx = e[1]
        elif e[0] == "q":
            qans[cur_idx] = e[3]
    # wait_for_switch = query (only_on_change=False) + registration of a handler that removes itself when invoked
    logical = list(case["init"])
    mops = [[] for _ in range(NSW)]
    for idx, t, hws, hrs in ran:
        o = case["ops"][idx]
        i, kind = o[1], _mode(o)[0]
        hw_, hr_ = hws[i], hrs[i]
        hold = "(%s, %s)" % (zlit(t + 1 if hw_ is None else hw_), zlit(t + 1 if hr_ is None else hr_))
        for j in range(NSW):        # the other switches see the same late loop
            if j != i and (hws[j] is not None or hrs[j] is not None):
                mops[j].append("(%s, (%s, %s), ONop)" % (zlit(t), zlit(t + 1 if hws[j] is None else hws[j]),
                                                         zlit(t + 1 if hrs[j] is None else hrs[j])))
        if kind == "rep":
            logical[i] = o[4] if o[3] else o[4] ^ out["invert"][i]
        if kind == "wait":
            wid = 100 + idx
            if wid in wskip:
                mops[i].append("(%s, %s, ONop)" % (zlit(t), hold))
                continue
            st2, ooc, ms = o[3], o[4], o[5]
            hs = (1 - logical[i]) if st2 == 2 else st2
            if not ooc and st2 != 2:
                mops[i].append("(%s, %s, (OQuery %s %s))" % (zlit(t), hold, blit(hs), zlit(ms)))
                hold = "(%s, %s)" % (zlit(t + 1), zlit(t + 1))
            if not wq.get(wid):
                mops[i].append("(%s, %s, (OAdd %s %s %s))" % (zlit(t), hold, zlit(wid), blit(hs), zlit(ms)))
                acts[str(wid)] = [["r", wid, hs, ms]]
            continue
        if kind == "q" and qans.get(idx) == -1:
            mops[i].append("(%s, %s, ONop)" % (zlit(t), hold))
            continue
        mops[i].append("(%s, %s, %s)" % (zlit(t), hold, _op(o)))
    tab = coqlist("(%s, %s)" % (zlit(int(cb)), coqlist(_act(a) for a in l)) for cb, l in sorted(acts.items()))
    u = case.get("unit", GRID)
    for i in range(NSW):
        reg = out["initreg"][i]
        ins.append("((%s, %s, %s, %s, %s), (%s, %s), %s, %s, (%s, %s))" % (
            blit(out["invert"][i]), blit(case["init"][i]), blit(case["init"][i] ^ out["invert"][i]), zlit(out["lc0"]),
            zlit(out["win"][i]),
            coqlist("(%s,%s)" % (zlit(c), zlit(m)) for c, m in reg[0]),
            coqlist("(%s,%s)" % (zlit(c), zlit(m)) for c, m in reg[1]),
            tab, coqlist(mops[i]), zlit(case["end"] * u), zlit(FUEL)))
        rows = []
        rows += [[0, e[1], e[3]] for e in tr if e[0] == "f" and e[2] == i]
        rows.append([4] + sorted(e[1] * 1000 + e[3] for e in tr if e[0] == "w" and e[2] == i and not wq.get(e[3])))
        rows += [[1, e[1], e[3]] for e in tr if e[0] == "e" and e[2] == i]
        for e in tr:
            if e[0] == "q" and e[2] == i and e[3] >= 0:
                rows.append([2, e[1], e[3]])
            elif e[0] == "wq" and e[2] == i:        # wait_for_switch(only_on_change=False) = query + registration
                o = case["ops"][e[3] - 100]
                if not o[4] and o[3] != 2:
                    rows.append([2, e[1], e[4]])
        rows += [[3, e[1]] for e in tr if e[0] == "crash"]
        rows.append([9] + out["final"][i])
        rows.append([8] + out["wakes"][i])
        rows.append([7] + out["cur"][i])
        rows.append([6] + out["rc"][i])
        rows.append([5, out["muted"][i]])
        exps.append(coqlist(zlist(r) for r in rows))
    return "(%s, %s)" % (coqlist(ins), coqlist(exps))


HDR = "From C03 Require Import Model.\n"


# ------------------------------------------------------------------------------------------------
# oracle: trace acceptor written from the property text (independent of the Coq model)
class Spec:
    def __init__(self, inv, state, initreg, win=0):
        self.inv = inv
        self.win = win              # ignore window (us); 0 = none
        self.open = None            # [end_us, state the window was opened for]
        self.resume = None          # the loop was late: the window-end timer cannot run before this instant
        self.heldr = None           # the window-end timer is due but was observed not to have run yet
        self.has_rem = False        # some callback script removes handlers
        self.amb = False            # see overdue()
        self.muted = set()
        self.state = state
        self.raw = state ^ inv
        self.lc = None              # time (us) of the last real change; None = long ago
        self.nid = 0
        self.regs = []              # live registrations: [id, cb, st, ms]
        self.now_due = []           # untimed obligations of the change being dispatched: [id, cb]
        self.pend = []              # timed obligations: [id, cb, due_us]
        self.removed = set()        # callbacks of registrations removed and not re-added since
        self.changes = []           # [t, state] of every real change (what a monitor must have seen)
        self.waits = {}             # wait id -> time its future must resolve (None: not yet known)
        for s_ in (0, 1):
            for cb, ms in initreg[s_]:
                if cb not in (1010, 1011):      # the window logic below stands for _post_events_with_recycle
                    self.add(None, cb, s_, ms)

    def tick(self, t, hr=None):
        """the ignore window ends at or before t: one catch-up post iff the state differs from the posted one.
        hr: the window-end timer is due but the loop has not run it yet (the operation at t overtook it)"""
        if self.open is not None and self.open[0] <= t:
            if hr is not None and self.open[0] >= hr:
                self.resume = t
                return
            if self.state != self.open[1]:
                due = self.open[0] if self.resume is None else max(self.open[0], self.resume)
                self.pend.append([-1, 1000 + self.state, due])
            self.open = None
            self.resume = None

    def add(self, t, cb, s_, ms):
        rid = self.nid
        self.nid += 1
        self.regs.append([rid, cb, s_, ms])
        self.removed.discard(cb)
        if ms > 0 and s_ == self.state and self.lc is not None and self.lc + ms * 1000 > t:
            self.pend.append([rid, cb, self.lc + ms * 1000])

    def rem(self, cb, s_, ms):
        gone = set(r[0] for r in self.regs if r[1] == cb and r[2] == s_ and r[3] == ms)
        if gone:
            self.regs = [r for r in self.regs if r[0] not in gone]
            self.now_due = [x for x in self.now_due if x[0] not in gone]
            self.pend = [x for x in self.pend if x[0] not in gone]
            if not any(r[1] == cb for r in self.regs):
                self.removed.add(cb)

    def report(self, t, logical, val):
        v = val if logical else val ^ self.inv
        self.raw = val ^ self.inv if logical else val
        if v == self.state:
            return
        self.state = v
        self.lc = t
        self.changes.append([t, v])
        # every real change ends the holds of the previous state, muted or not (the catch-up post of a window
        # that is already over stays owed, and so does a wait_for_switch future whose handler was due before
        # this change and whose resolution is only observed an iteration later)
        self.pend = [x for x in self.pend if x[0] == -1 or len(x) > 3]
        self.now_due = []
        if self.muted:              # a muted switch updates its state but triggers nothing
            return
        self.pend += [[r[0], r[1], t + r[3] * 1000] for r in self.regs if r[2] == v and r[3] > 0]
        self.now_due = [[r[0], r[1]] for r in self.regs if r[2] == v and r[3] == 0]
        if self.win and self.open is None:
            self.open = [t + self.win, v]
            self.now_due.append([-1, 1000 + v])

    def _match(self, t, cb):
        if self.lc == t:
            for x in self.now_due:
                if x[1] == cb:
                    self.now_due.remove(x)
                    return True
        for x in self.pend:
            if x[1] == cb and x[2] == t:
                self.pend.remove(x)
                return True
        return False

    def fired(self, t, cb):
        """an invocation of callback cb observed at time t: must discharge an obligation"""
        # a window that ends exactly now: whether its timer has run already is only known at the next operation
        # (observed) or when a post needs it
        hold = self.heldr
        if hold is None and self.open is not None and self.open[0] == t:
            hold = t
        self.tick(t, hold)
        if self._match(t, cb):
            return None
        if self.open is not None and self.open[0] <= t and cb in (1000, 1001):
            # the window-end timer has run now: the window is over
            self.heldr = None
            self.tick(t)
            if self._match(t, cb):
                return None
        if cb in self.removed:
            return "fired-after-removal"
        if any(x[1] == cb for x in self.pend):
            return "timed-wrong-time"
        return "unexpected-invocation"

    def overdue(self, t, hw=None, hr=None, final=False):
        """obligations that should have been discharged before an operation at time t.  hw/hr: deadline of the
        wake-up / window-end timer that is due but which the loop has not run yet (it runs right after the
        operation, at t): what hangs on them is owed at t instead.  The handler of a wait_for_switch future
        (callbacks 100..999) is observed through the future's done callback, which asyncio runs one iteration
        later: at the same instant it may still be on its way"""
        res = []
        self.heldr = hr
        self.tick(t, hr)
        on_way = [x for x in self.now_due if 100 <= x[1] < 1000 and self.lc == t and not final]
        due = [x for x in self.now_due if x not in on_way]
        if due:
            res.append("ignore-window-post-missed" if all(x[0] == -1 for x in due) else "untimed-missed")
        self.now_due = []
        self.pend += [[x[0], x[1], t, True] for x in on_way]       # invoked; the future resolves an iteration later
        late = []
        moved = {}
        for x in self.pend:
            if x[2] <= t:
                if x[0] >= 0 and hw is not None and x[2] >= hw and len(x) == 3:
                    # a late wake-up serves several deadlines at one instant: when two of them belong to the same
                    # callback and scripts remove handlers, the trace no longer tells which registration an
                    # invocation belongs to; such a case gets no verdict from the oracle (the model still decides)
                    if x[2] != t and self.has_rem and moved.setdefault(x[1], x[2]) != x[2]:
                        self.amb = True
                    x[2] = t
                elif 100 <= x[1] < 1000 and x[2] == t and not final:
                    if len(x) == 3:
                        x.append(True)
                elif x[0] == -1 and hr is not None and x[2] >= hr:
                    x[2] = t
                else:
                    late.append(x)
        if late:
            res.append("ignore-window-post-missed" if all(x[0] == -1 for x in late) else "timed-missed")
            self.pend = [x for x in self.pend if x not in late]
        return res


def oracle(case, out):
    fails = []
    if out.get("near"):
        return fails

    def fail(sig, what):
        if not any(f["sig"] == sig for f in fails):
            fails.append({"sig": sig, "what": what})
    specs = [Spec(out["invert"][i], case["init"][i], out["initreg"][i], out["win"][i]) for i in range(NSW)]
    acts = dict(case["acts"])
    for sp in specs:
        sp.has_rem = any(a[0] == "r" for l in acts.values() for a in l)
    ops = case["ops"]
    pending_q = None
    mons = [[] for _ in range(NSW)]
    wres = {}
    tol_q = case.get("unit", GRID) != GRID
    for e in out["trace"]:
        k = e[0]
        if k == "op":
            o = ops[e[1]]
            t = e[2]
            kind = _mode(o)[0]
            for i, sp in enumerate(specs):
                for sig in sp.overdue(t, e[3][i], e[4][i]):
                    fail(sig, "switch s%d: a handler/event that had to be invoked before t=%d us was not" % (i, t))
            sp = specs[o[1]]
            if pending_q is not None:
                fail("query-missing", "no answer recorded for a query")
            if kind == "rep":
                sp.report(t, o[3], o[4])
            elif kind == "add":
                sp.add(t, o[3], o[4], o[5])
            elif kind == "rem":
                sp.rem(o[3], o[4], o[5])
            elif kind == "mute":
                sp.muted.add(o[3])
            elif kind == "unmute":
                sp.muted.discard(o[3])
            elif kind == "wait":
                # the future resolves at once (only_on_change=False and already held), or exactly once when the
                # switch has been in the state for ms, and its handler is gone afterwards
                wid = 100 + e[1]
                st2, ooc, ms = o[3], o[4], o[5]
                hs = (1 - sp.state) if st2 == 2 else st2
                held = (t - sp.lc) if sp.lc is not None else 10 ** 15
                imm = (not ooc) and st2 != 2 and sp.state == hs and (ms == 0 or held >= ms * 1000)
                amb = tol_q and ms and abs(held - ms * 1000) <= 510
                wres[wid] = {"imm": imm, "amb": amb, "hs": hs, "ms": ms, "sw": o[1], "t": t}
            else:
                held = (t - sp.lc) if sp.lc is not None else 10 ** 15
                amb = tol_q and o[4] and abs(held - o[4] * 1000) <= 510       # API resolution: whole milliseconds
                pending_q = [o[1], int(sp.state == o[3] and (o[4] == 0 or held >= o[4] * 1000)), amb]
        elif k == "wskip":
            wres.pop(e[3], None)        # not issued (x.5 ms elapsed, see run_impl)
        elif k == "wq":
            w = wres.get(e[3])
            if w is not None:
                if bool(e[4]) != w["imm"] and not w["amb"]:
                    fail("wait-immediate-wrong", "switch s%d: wait_for_switch(only_on_change=False) %s at t=%d us"
                         % (e[2], "resolved at once" if e[4] else "did not resolve at once", e[1]))
                w["imm"] = bool(e[4])
                if not e[4]:
                    specs[w["sw"]].add(w["t"], e[3], w["hs"], w["ms"])
        elif k in ("f", "e"):
            t, i, cb = e[1], e[2], e[3]
            sp = specs[i]
            sig = sp.fired(t, cb)
            if sig:
                fail(sig, "switch s%d: callback/event %d invoked at t=%d us without a matching obligation "
                          "(state=%d, last change=%s)" % (i, cb, t, sp.state, sp.lc))
            if k == "f":
                for a in acts.get(str(cb), []):
                    if a[0] == "a":
                        sp.add(t, a[1], a[2], a[3])
                    else:
                        sp.rem(a[1], a[2], a[3])
        elif k == "w":
            w = wres.get(e[3])
            if w is None or w.get("done") or not e[4]:
                fail("wait-future", "switch s%d: wait_for_switch future %d resolved at t=%d us: twice or with the "
                                    "wrong result" % (e[2], e[3], e[1]))
            if w is not None:
                w["done"] = True
                if not w["imm"]:
                    # the future is resolved by its handler: the same obligations as for any handler, and the
                    # handler is removed by the future's done callback
                    sp = specs[e[2]]
                    sig = sp.fired(e[1], e[3])
                    if sig:
                        fail(sig, "switch s%d: wait_for_switch future %d resolved at t=%d us without a matching "
                                  "obligation (state=%d, last change=%s)" % (e[2], e[3], e[1], sp.state, sp.lc))
                    sp.rem(e[3], w["hs"], w["ms"])
        elif k == "m":
            mons[e[2]].append([e[1], e[3]])
        elif k == "q":
            if pending_q is None or pending_q[0] != e[2]:
                fail("query-missing", "unexpected query record")
            elif e[3] >= 0 and pending_q[1] != e[3] and not pending_q[2]:
                fail("query-wrong", "switch s%d: is_active/is_inactive/is_state answered %d, expected %d at t=%d us"
                     % (e[2], e[3], pending_q[1], e[1]))
            pending_q = None
        elif k == "crash":
            if any(sp.amb for sp in specs):
                return []
            if "runaway: more than 3000" in e[2] and not fails:
                return fails        # scripts that double their registrations at every change: cut off, nothing wrong so far
            fail("crash", "the switch controller raised: %s" % e[2])
            return fails
        elif k == "end":
            t = e[1]
            for i, sp in enumerate(specs):
                for sig in sp.overdue(t, final=True):
                    fail(sig, "switch s%d: a handler/event due by the end (t=%d us) was not invoked" % (i, t))
    if any(sp.amb for sp in specs):
        return []
    for wid, w in wres.items():
        if w["imm"] and not w.get("done"):
            fail("wait-future", "wait_for_switch future %d: condition met but the future is not resolved" % wid)
    for i, sp in enumerate(specs):
        st_, hw_, lc_ = out["final"][i]
        if st_ != sp.state or hw_ != sp.raw:
            fail("state-mismatch", "switch s%d: state/hw_state %d/%d, last report says %d/%d" % (i, st_, hw_, sp.state, sp.raw))
        if sp.lc is not None and lc_ != sp.lc:
            fail("last-change-wrong", "switch s%d: last_change %d us, last real change at %d us" % (i, lc_, sp.lc))
        if mons[i] != sp.changes:
            fail("monitor-mismatch", "switch s%d: monitors saw %r, real changes were %r" % (i, mons[i][:6], sp.changes[:6]))
        w = out["wakes"][i]
        if len(w) > 1 or w != out["cur"][i]:
            fail("orphan-wakeup", "switch s%d: wake-ups in the loop %r, recorded %r" % (i, w, out["cur"][i]))
        if out["muted"][i] != int(bool(sp.muted)):
            fail("mute-state", "switch s%d: is_muted %d" % (i, out["muted"][i]))
        want_rc = [sp.open[0]] if sp.open is not None else []
        if out["rc"][i] != want_rc:
            fail("ignore-window", "switch s%d: pending window-end timers %r, expected %r" % (i, out["rc"][i], want_rc))
        hp = [x for x in sp.pend if x[0] >= 0]
        if hp and (not w or w[0] > min(x[2] for x in hp)):
            fail("wakeup-missing", "switch s%d: handlers pending for %r but wake-ups %r" % (i, sorted(x[2] for x in hp), w))
        nwait = sum(1 for r in sp.regs if 100 <= r[1] < 1000)
        if out.get("waitreg") and out["waitreg"][i] != nwait:
            fail("wait-handler-left", "switch s%d: %d wait_for_switch handlers registered at the end, %d futures open"
                 % (i, out["waitreg"][i], nwait))
    return fails


def shrink(case):
    ops = case["ops"]
    for i in range(len(ops)):
        yield dict(case, ops=ops[:i] + ops[i + 1:])
    for cb in list(case["acts"]):
        a = dict(case["acts"])
        del a[cb]
        yield dict(case, acts=a)
        if len(case["acts"][cb]) > 1:
            for j in range(len(case["acts"][cb])):
                yield dict(case, acts=dict(case["acts"], **{cb: case["acts"][cb][:j] + case["acts"][cb][j + 1:]}))
    if ops and case["end"] > ops[-1][0]:
        yield dict(case, end=ops[-1][0])
    # pull the timeline together
    for i in range(1, len(ops)):
        d = ops[i][0] - ops[i - 1][0]
        if d > 1:
            for cut in (d - 1, d // 2):
                if cut > 0:
                    yield dict(case, ops=ops[:i] + [[o[0] - cut] + o[1:] for o in ops[i:]], end=case["end"] - cut)
    if any(case["init"]):
        yield dict(case, init=[0] * NSW)
    for i in range(len(ops)):
        if "@" in ops[i][2]:
            yield dict(case, ops=ops[:i] + [ops[i][:2] + [ops[i][2].partition("@")[0]] + ops[i][3:]] + ops[i + 1:])


def nontrivial(case, out):
    tr = out["trace"]
    changed = any(f[2] >= 0 for f in out["final"])
    return changed and any(e[0] in ("f", "e") for e in tr)


def describe(case):
    n = len(case["ops"])
    return "ops=%s reentrant=%d late=%d inloop=%d" % (
        "<=6" if n <= 6 else "<=16" if n <= 16 else ">16", 1 if case["acts"] else 0,
        int(any(o[2].endswith("@l") for o in case["ops"])), int(any(o[2].endswith("@s") for o in case["ops"])))


SUITES = [
    Suite("timeline", gen, run_impl, HDR, coq_case, oracle, shrink, nontrivial,
          {"quick": 850, "thorough": 30000}, shard=250, describe=describe, case_timeout=20),
    Suite("boundary", gen_boundary, run_impl, HDR, coq_case, oracle, shrink, nontrivial,
          {"quick": 550, "thorough": 15000}, shard=250, describe=describe, case_timeout=20),
    Suite("dispatch", gen_dispatch, run_impl, HDR, coq_case, oracle, shrink, nontrivial,
          {"quick": 240, "thorough": 10000}, shard=150, describe=describe, case_timeout=20),
    Suite("config", gen_config, run_config, HDR_CFG, coq_config, oracle_config, shrink_config, nontrivial_config,
          {"quick": 120, "thorough": 4000}, shard=24, describe=describe_config, case_timeout=60),
    Suite("generic", gen_generic, run_impl, HDR, coq_case, oracle, shrink, nontrivial,
          {"quick": 640, "thorough": 15000}, shard=250, describe=describe, case_timeout=20),
]

LEVEL_TEXT = ("Machine-checked proof (Coq, 36 theorems) over an executable model of SwitchController + Switch device, for all "
              "event sequences: logical state = last report; duplicates are no-ops; untimed handlers once per change "
              "(also when callbacks remove other handlers: keeps_untimed); a muted change invokes nothing but drops "
              "the pending holds; HISTORY LEVEL: in every reachable state every pending timed entry sits under "
              "last_change + ms for the current state, exactly one wake-up handle exists iff something is pending and "
              "it is at the minimum deadline, a punctual wake-up invokes only entries whose deadline is that instant, "
              "the wake-up lemma, and timed_iff_held: for every history and every handler with a hold time the "
              "invocation times equal those of the hold automaton (once per registration at change + ms iff held and "
              "still registered; catch-up at the original deadline iff ahead; never after removal); a removed handler "
              "never fires, including removal from inside a callback while the dispatch loop / the wake-up loop is "
              "iterating over a stale snapshot that still contains it (removed_during_dispatch/wakeup_never_fires); "
              "ignore window per step (recycle_semantics_*) and at history level (window_last_post_is_state: the last "
              "post equals the state whenever no window is open); the events a switch posts as a function of its "
              "configuration (initialize_closed_form: name events iff auto_create_switch_events, tag events always, "
              "events_when_* always; change_posts_configured_events_once_partial); several switches in one model "
              "instance = product of the one-switch models (machine_is_product_of_switches); no crash in "
              "_process_active_timed_switches.  The model is tied to the working tree by running both on the same "
              "generated timelines on every run (grid, boundary/late-loop, structured re-entrancy, sub-millisecond "
              "and generated-machine-config streams), and two direct oracles written from the property text check "
              "every implementation trace (including wait_for_switch futures, monitors and configured events).")
LEVEL_NOTE = ("Trusted: Coq kernel + vm_compute; no axioms. Hand-written model validated differentially against the real "
              "machine on the virtual clock; asyncio/TimeTravelLoop timer semantics modelled as 'earliest pending timer "
              "first, before any operation at the same or a later instant, except the timers an operation was observed "
              "to overtake'.  Partial theorems: untimed/timed per-change statements carry guards on what callbacks "
              "remove (the removed handlers are covered by the removal theorems); the configured-events theorem is per "
              "change for switches without ignore window (with a window: the window theorems); Config.v covers the "
              "time-string forms '<digits>[ms|s]' only.")
TECHNIQUE = "Coq proof over hand-written executable model + differential correspondence (vm_compute) + trace-acceptor oracle"
DESIGN_REF = "DESIGN.md section 3, C03"
