"""C03 — Switch state mirrors the hardware; handlers fire once per real change."""
from vlib import Suite, zlit, zlist, coqlist, blit

ID = "C03"
READY = True
RULE = ("timelines on a 1/8 s grid for six switches (NO, NC, NO with timed activation/deactivation events, NC starting "
        "active, NO with ignore_window_ms=250, NC with ignore_window_ms=375) of one real machine on the virtual clock; "
        "changes land inside, exactly at and after the window end; in 40% of the cases mute/unmute (two sources) are "
        "interleaved, half of those start with a pending hold on a switch that is then muted and released; raw/logical reports by name or by number (about half of them "
        "duplicates), registrations/removals of handlers drawn from a small pool of (callback,state,ms) triples (so exact "
        "duplicates, shared callbacks and re-registrations are frequent) through all public entry points, is_active/"
        "is_inactive(ms) queries, gaps of 0..8 grid steps (hold times 125..1000 ms, so changes, registrations and "
        "removals land before, exactly at and after deadlines) plus occasional gaps of minutes; in 40% of the cases "
        "callbacks themselves register/remove handlers.  non-trivial = at least one real change and at least one "
        "handler/event invocation; distinct by case hash")
TRUSTED_BASE = [
    "Coq 8.16.1 kernel (coqc), vm_compute for evaluating the model in the correspondence run; no native_compute",
    "axioms: none (every Print Assumptions is 'Closed under the global context')",
    "hand-written model coq/C03/Model.v (one switch: NC inversion, registries with entry identity, deadline table, "
    "wake-up handles, catch-up, removal, scripted re-entrant callbacks) tied to the working tree by correspondence: "
    "harness/props/c03.py drives SwitchController.process_switch/process_switch_by_num/add_switch_handler*/"
    "remove_switch_handler*/is_active of a real machine (harness/rig.py) and the model on the same timelines and "
    "compares callbacks with virtual timestamps, posted events, query answers, final state/hw_state/last_change and "
    "the pending wake-up handles found in the loop's timer heap",
    "mpf/tests/loop.py TimeTravelLoop + asyncio (timer order), functools.partial identity, Python float arithmetic on "
    "the 1/8 s grid (exact)",
    "the direct oracle (trace acceptor written from the property text) in harness/props/c03.py",
]
ASSUMPTIONS = [
    "callbacks and event handlers do not report switch changes synchronously (process_switch from inside a switch "
    "callback is outside the model), no timestamps passed by the platform; a timed handler registered while the "
    "switch is muted is entered by the catch-up rule like on an unmuted switch (what the code does; the oracle "
    "accepts exactly that)",
    "all instants and hold times are multiples of 125 ms (float arithmetic exact); hold times >= 0",
    "the loop runs a wake-up no later than any external operation with the same or a later timestamp",
]

GRID = 125000          # us per grid step (1/8 s)
NSW = 6
SWITCHES = {
    "s0": {"number": "0"},
    "s1": {"number": "1", "type": "NC"},
    "s2": {"number": "2", "events_when_activated": "c03_x2|250ms", "events_when_deactivated": "c03_y2|125ms"},
    "s3": {"number": "3", "type": "NC"},
    "s4": {"number": "4", "ignore_window_ms": 250},
    "s5": {"number": "5", "type": "NC", "ignore_window_ms": 375},
}
CONFIG = {"switches": SWITCHES, "virtual_platform_start_active_switches": "s3"}
EVIDS = {"c03_x2": 1002, "c03_y2": 1003}
MS = [0, 0, 125, 250, 375, 500, 1000]
FUEL = 400


# ------------------------------------------------------------------------------------------------
def gen(rng, tier, i):
    nsw = rng.choice([1, 1, 2, 2, 3, 4])
    muting = rng.random() < 0.4
    sws = rng.sample(range(NSW), nsw)
    pool = []
    for _ in range(rng.randint(2, 6)):
        pool.append([rng.randrange(4), rng.randrange(2), rng.choice(MS)])
    if rng.random() < 0.5:      # same callback, same state, different ms / same ms, other state
        c, st, ms = rng.choice(pool)
        pool.append([c, st, rng.choice(MS)])
        pool.append([c, 1 - st, ms])
    acts = {}
    if rng.random() < 0.4:
        for cb in rng.sample(range(4), rng.randint(1, 3)):
            acts[str(cb)] = [[rng.choice("aar")] + rng.choice(pool) for _ in range(rng.randint(1, 2))]
    ops = []
    t = rng.choice([0, 0, 1, 3])
    if muting and rng.random() < 0.5:
        # a hold is pending, the switch is muted and leaves the state before/at/after the deadline
        sw = rng.choice(sws)
        cb, st_, ms = rng.randrange(4), rng.randrange(2), rng.choice([250, 375, 500, 1000])
        pool.append([cb, st_, ms])
        ops.append([t, sw, "add", cb, st_, ms, rng.randrange(3)])
        ops.append([t, sw, "rep", 1, 1 - st_, 0])
        t += rng.choice([0, 1])
        ops.append([t, sw, "rep", 1, st_, rng.randrange(2)])
        t += rng.choice([0, 1, 2])
        ops.append([t, sw, "mute", rng.randrange(2)])
        t += rng.choice([0, 1, 2, 3, 4])
        ops.append([t, sw, "rep", rng.randrange(2), rng.randrange(2), rng.randrange(2)])
        t += rng.choice([0, 1, 2])
    for _ in range(rng.choice([3, 6, 10, 16, 25] if tier == "quick" else [6, 16, 25, 40])):
        sw = rng.choice(sws)
        r = rng.random()
        if muting and rng.random() < 0.15:
            ops.append([t, sw, rng.choice(["mute", "mute", "unmute"]), rng.randrange(2)])
        elif r < 0.40 or (sw >= 4 and r < 0.6):
            ops.append([t, sw, "rep", rng.randrange(2), rng.randrange(2), rng.randrange(2)])
        elif r < 0.70:
            ops.append([t, sw, "add"] + rng.choice(pool) + [rng.randrange(3)])
        elif r < 0.88:
            ops.append([t, sw, "rem"] + rng.choice(pool) + [rng.randrange(4)])
        else:
            ops.append([t, sw, "q", rng.randrange(2), rng.choice(MS + [2000]), rng.randrange(2)])
        t += rng.choice([0, 0, 1, 1, 1, 2, 2, 3, 4, 4, 5, 8, 9]) if rng.random() < 0.96 else rng.choice([80, 2400, 8000])
    return {"init": [rng.randrange(2) for _ in range(NSW)], "acts": acts, "ops": ops,
            "end": t + rng.choice([0, 1, 3, 8, 12])}


# ------------------------------------------------------------------------------------------------
# implementation side
_R = {}


def _boot():
    from rig import Rig
    r = Rig(CONFIG).start()
    m = r.machine
    sc = m.switch_controller
    st = {"rig": r, "sc": sc, "sw": [m.switches["s%d" % i] for i in range(NSW)], "trace": None, "t0": 0.0,
          "pristine": [], "initreg": [], "win": []}

    def mk_ev(swi, evid):
        def handler(**kwargs):
            if st["trace"] is not None:
                st["trace"].append(["e", _rel(st), swi, evid])
        return handler
    for i in range(NSW):
        m.events.add_handler("s%d_inactive" % i, mk_ev(i, 1000))
        m.events.add_handler("s%d_active" % i, mk_ev(i, 1001))
    m.events.add_handler("c03_x2", mk_ev(2, 1002))
    m.events.add_handler("c03_y2", mk_ev(2, 1003))
    # the handlers the Switch devices registered for themselves: keep the objects, name them for the model
    for i, sw in enumerate(st["sw"]):
        lists = sc.registered_switches[sw]
        st["pristine"].append([list(lists[0]), list(lists[1])])
        named = []
        for s_ in (0, 1):
            row = []
            for e in lists[s_]:
                kw = getattr(e.callback, "keywords", None) or {}
                fn = getattr(e.callback, "func", None)
                if "event" in kw and kw["event"] in EVIDS:
                    row.append([EVIDS[kw["event"]], int(e.ms)])
                elif fn is not None and getattr(fn, "__name__", "") == "_post_events" and kw.get("state") == s_:
                    row.append([1000 + s_, int(e.ms)])
                elif fn is not None and getattr(fn, "__name__", "") == "_post_events_with_recycle" \
                        and kw.get("state") == s_:
                    row.append([1010 + s_, int(e.ms)])
                else:
                    raise RuntimeError("unexpected pre-registered switch handler %r" % (e.callback,))
            named.append(row)
        st["initreg"].append(named)
        st["win"].append(int(round(sw.recycle_secs * 1e6)))
    st["invert"] = [int(sw.invert) for sw in st["sw"]]
    return st


def _rel(st):
    return int(round((st["rig"].machine.clock.get_time() - st["t0"]) * 1e6))


def _wake_handles(st, sw):
    loop = st["rig"].loop
    out = []
    for h in list(loop._scheduled):
        if h._cancelled:
            continue
        cb = h._callback
        if getattr(getattr(cb, "func", None), "__name__", "") == "_process_active_timed_switches" and cb.args \
                and cb.args[0] is sw:
            out.append(h)
    return out


def _recycle_handles(st, sw):
    out = []
    for h in list(st["rig"].loop._scheduled):
        if h._cancelled:
            continue
        f = getattr(h._callback, "func", None)
        if getattr(f, "__name__", "") == "_recycle_passed" and getattr(f, "__self__", None) is sw:
            out.append(h)
    return out


def _reset(st, case):
    sc = st["sc"]
    for sw in st["sw"]:
        for h in _wake_handles(st, sw) + _recycle_handles(st, sw):
            h.cancel()
        sw._mutes.clear()
        sw.recycle_clear_time = None
    sc._active_timed_switches.clear()
    sc._timed_switch_handler_delay.clear()
    for i, sw in enumerate(st["sw"]):
        for l in st["pristine"][i]:
            for e in l:
                e.cancelled = False
        sc.registered_switches[sw] = [list(st["pristine"][i][0]), list(st["pristine"][i][1])]
        sw.state = case["init"][i]
        sw.hw_state = case["init"][i] ^ st["invert"][i]
        sw.last_change = -100000
    rig = st["rig"]
    t0 = float(int(rig.now()) + 2)
    rig.advance(t0 - rig.now())
    if rig.now() != t0:
        rig.loop.set_time(t0)
    st["t0"] = t0


def _settle(st):
    rig = st["rig"]
    ev = rig.machine.events
    for _ in range(60):
        rig.advance(0)
        now = rig.now()
        due = any(h.when() <= now for sw in st["sw"] for h in _wake_handles(st, sw) + _recycle_handles(st, sw))
        if not due and not ev.event_queue and not rig.loop._ready:
            break


def run_impl(case):
    if _R.get("st") is None:
        _R["st"] = _boot()
    st = _R["st"]
    try:
        return _run(st, case)
    except BaseException:
        _R["st"] = None
        raise


def _run(st, case):
    rig, sc = st["rig"], st["sc"]
    _reset(st, case)
    trace = []
    st["trace"] = trace
    fns = {}

    def do_add(swi, cb, s_, ms, via):
        sw = st["sw"][swi]
        f = fn(swi, cb)
        if via == 0:
            sc.add_switch_handler("s%d" % swi, f, state=s_, ms=ms)
        elif via == 1:
            sw.add_handler(f, state=s_, ms=ms)
        else:
            sc.add_switch_handler_obj(sw, f, s_, ms)

    def do_rem(swi, cb, s_, ms, via):
        from mpf.core.switch_controller import SwitchHandler
        sw = st["sw"][swi]
        f = fn(swi, cb)
        if via == 0:
            sc.remove_switch_handler("s%d" % swi, f, state=s_, ms=ms)
        elif via == 1:
            sw.remove_handler(f, state=s_, ms=ms)
        elif via == 2:
            sc.remove_switch_handler_obj(sw, f, s_, ms)
        else:
            sc.remove_switch_handler_by_key(SwitchHandler(sw, f, s_, ms))

    def fn(swi, cb):
        if (swi, cb) not in fns:
            def f(**kwargs):
                if len(trace) > 3000:
                    raise RuntimeError("runaway: more than 3000 trace entries")
                trace.append(["f", _rel(st), swi, cb])
                for a in case["acts"].get(str(cb), []):
                    if a[0] == "a":
                        do_add(swi, a[1], a[2], a[3], 0)
                    else:
                        do_rem(swi, a[1], a[2], a[3], 0)
            fns[(swi, cb)] = f
        return fns[(swi, cb)]

    crashed = None
    try:
        for idx, o in enumerate(case["ops"]):
            t, swi, kind = o[0], o[1], o[2]
            target = st["t0"] + t / 8.0
            if target > rig.now():
                rig.advance(target - rig.now())
            _settle(st)
            trace.append(["op", idx])
            sw = st["sw"][swi]
            if kind == "rep":
                logical, val, bynum = o[3], o[4], o[5]
                if bynum:
                    sc.process_switch_by_num(sw.hw_switch.number, val, sw.platform, logical=bool(logical))
                else:
                    sc.process_switch("s%d" % swi, val, logical=bool(logical))
            elif kind == "add":
                do_add(swi, o[3], o[4], o[5], o[6])
            elif kind == "rem":
                do_rem(swi, o[3], o[4], o[5], o[6])
            elif kind == "q":
                s_, ms, how = o[3], o[4], o[5]
                if how == 0:
                    b = sc.is_active(sw, ms) if s_ else sc.is_inactive(sw, ms)
                else:
                    b = sc.is_state(sw, s_, ms)
                trace.append(["q", _rel(st), swi, int(bool(b))])
            elif kind == "mute":
                sw.mute(["c03_src", "ball_search"][o[3]])
            elif kind == "unmute":
                sw.unmute(["c03_src", "ball_search"][o[3]])
            _settle(st)
        target = st["t0"] + case["end"] / 8.0
        if target > rig.now():
            rig.advance(target - rig.now())
        _settle(st)
        trace.append(["end"])
    except Exception as e:      # an exception in a loop callback stops the test loop: the machine is dead
        crashed = "%s: %s" % (type(e).__name__, e)
        exc = rig.exception()
        if exc and "exception" in exc:
            crashed = "%s: %s" % (type(exc["exception"]).__name__, exc["exception"])
        trace.append(["crash", _rel(st), crashed[:200]])
    st["trace"] = None
    out = {"trace": trace, "final": [], "wakes": [], "cur": [], "rc": [], "muted": [], "win": st["win"],
           "initreg": st["initreg"], "invert": st["invert"],
           "lc0": int(round((-100000 - st["t0"]) * 1e6))}
    for sw in st["sw"]:
        out["final"].append([int(sw.state), int(sw.hw_state), int(round((sw.last_change - st["t0"]) * 1e6))])
        out["wakes"].append(sorted(int(round((h.when() - st["t0"]) * 1e6)) for h in _wake_handles(st, sw)))
        rec = sc._timed_switch_handler_delay.get(sw)
        out["cur"].append([] if rec is None else [int(round((rec[1] - st["t0"]) * 1e6))])
        out["rc"].append(sorted(int(round((h.when() - st["t0"]) * 1e6)) for h in _recycle_handles(st, sw)))
        out["muted"].append(int(sw.is_muted))
    if crashed:
        try:
            rig.stop()
        except BaseException:
            pass
        _R["st"] = None
    return out


# ------------------------------------------------------------------------------------------------
# Coq printers
def _act(a):
    return "(%s %s %s %s)" % ("AAdd" if a[0] == "a" else "ARem", zlit(a[1]), blit(a[2]), zlit(a[3]))


def _op(o):
    k = o[2]
    if k == "rep":
        return "(OReport %s %s)" % (blit(o[3]), blit(o[4]))
    if k == "add":
        return "(OAdd %s %s %s)" % (zlit(o[3]), blit(o[4]), zlit(o[5]))
    if k == "rem":
        return "(ORem %s %s %s)" % (zlit(o[3]), blit(o[4]), zlit(o[5]))
    if k == "mute":
        return "(OMute %s)" % zlit(o[3])
    if k == "unmute":
        return "(OUnmute %s)" % zlit(o[3])
    return "(OQuery %s %s)" % (blit(o[3]), zlit(o[4]))


def coq_case(case, out):
    ins, exps = [], []
    tab = coqlist("(%s, %s)" % (zlit(int(cb)), coqlist(_act(a) for a in l)) for cb, l in sorted(case["acts"].items()))
    for i in range(NSW):
        ops = coqlist("(%s, %s)" % (zlit(o[0] * GRID), _op(o)) for o in case["ops"] if o[1] == i)
        reg = out["initreg"][i]
        ins.append("((%s, %s, %s, %s, %s), (%s, %s), %s, %s, (%s, %s))" % (
            blit(out["invert"][i]), blit(case["init"][i]), blit(case["init"][i] ^ out["invert"][i]), zlit(out["lc0"]),
            zlit(out["win"][i]),
            coqlist("(%s,%s)" % (zlit(c), zlit(m)) for c, m in reg[0]),
            coqlist("(%s,%s)" % (zlit(c), zlit(m)) for c, m in reg[1]),
            tab, ops, zlit(case["end"] * GRID), zlit(FUEL)))
        rows = []
        tr = out["trace"]
        rows += [[0, e[1], e[3]] for e in tr if e[0] == "f" and e[2] == i]
        rows += [[1, e[1], e[3]] for e in tr if e[0] == "e" and e[2] == i]
        rows += [[2, e[1], e[3]] for e in tr if e[0] == "q" and e[2] == i]
        rows += [[3, e[1]] for e in tr if e[0] == "crash"]
        rows.append([9] + out["final"][i])
        rows.append([8] + out["wakes"][i])
        rows.append([7] + out["cur"][i])
        rows.append([6] + out["rc"][i])
        rows.append([5, out["muted"][i]])
        exps.append(coqlist(zlist(r) for r in rows))
    return "(%s, %s)" % (coqlist(ins), coqlist(exps))


HDR = "From C03 Require Import Model.\n"


# ------------------------------------------------------------------------------------------------
# oracle: trace acceptor written from the property text (independent of the Coq model)
class Spec:
    def __init__(self, inv, state, initreg, win=0):
        self.inv = inv
        self.win = win              # ignore window (us); 0 = none
        self.open = None            # [end_us, state the window was opened for]
        self.muted = set()
        self.state = state
        self.raw = state ^ inv
        self.lc = None              # grid time (us) of the last real change; None = long ago
        self.nid = 0
        self.regs = []              # live registrations: [id, cb, st, ms]
        self.now_due = []           # untimed obligations of the change being dispatched: [id, cb]
        self.pend = []              # timed obligations: [id, cb, due_us]
        self.removed = set()        # callbacks of registrations removed and not re-added since
        for s_ in (0, 1):
            for cb, ms in initreg[s_]:
                if cb not in (1010, 1011):      # the window logic below stands for _post_events_with_recycle
                    self.add(None, cb, s_, ms)

    def tick(self, t):
        """the ignore window ends at or before t: one catch-up post iff the state differs from the posted one"""
        if self.open is not None and self.open[0] <= t:
            if self.state != self.open[1]:
                self.pend.append([-1, 1000 + self.state, self.open[0]])
            self.open = None

    def add(self, t, cb, s_, ms):
        rid = self.nid
        self.nid += 1
        self.regs.append([rid, cb, s_, ms])
        self.removed.discard(cb)
        if ms > 0 and s_ == self.state and self.lc is not None and self.lc + ms * 1000 > t:
            self.pend.append([rid, cb, self.lc + ms * 1000])

    def rem(self, cb, s_, ms):
        gone = set(r[0] for r in self.regs if r[1] == cb and r[2] == s_ and r[3] == ms)
        if gone:
            self.regs = [r for r in self.regs if r[0] not in gone]
            self.now_due = [x for x in self.now_due if x[0] not in gone]
            self.pend = [x for x in self.pend if x[0] not in gone]
            if not any(r[1] == cb for r in self.regs):
                self.removed.add(cb)

    def report(self, t, logical, val):
        v = val if logical else val ^ self.inv
        self.raw = val ^ self.inv if logical else val
        if v == self.state:
            return
        self.state = v
        self.lc = t
        self.pend = []              # every real change ends the holds of the previous state, muted or not
        self.now_due = []
        if self.muted:              # a muted switch updates its state but triggers nothing
            return
        self.pend = [[r[0], r[1], t + r[3] * 1000] for r in self.regs if r[2] == v and r[3] > 0]
        self.now_due = [[r[0], r[1]] for r in self.regs if r[2] == v and r[3] == 0]
        if self.win and self.open is None:
            self.open = [t + self.win, v]
            self.now_due.append([-1, 1000 + v])

    def fired(self, t, cb):
        """an invocation of callback cb observed at time t: must discharge an obligation"""
        self.tick(t)
        if self.lc == t:
            for x in self.now_due:
                if x[1] == cb:
                    self.now_due.remove(x)
                    return None
        for x in self.pend:
            if x[1] == cb and x[2] == t:
                self.pend.remove(x)
                return None
        if cb in self.removed:
            return "fired-after-removal"
        if any(x[1] == cb for x in self.pend):
            return "timed-wrong-time"
        return "unexpected-invocation"

    def overdue(self, t, strict):
        """obligations that should have been discharged before an operation at time t"""
        res = []
        self.tick(t)
        if self.now_due:
            res.append("ignore-window-post-missed" if all(x[0] == -1 for x in self.now_due) else "untimed-missed")
            self.now_due = []
        late = [x for x in self.pend if (x[2] < t if strict else x[2] <= t)]
        if late:
            res.append("ignore-window-post-missed" if all(x[0] == -1 for x in late) else "timed-missed")
            self.pend = [x for x in self.pend if x not in late]
        return res


def oracle(case, out):
    fails = []

    def fail(sig, what):
        if not any(f["sig"] == sig for f in fails):
            fails.append({"sig": sig, "what": what})
    specs = [Spec(out["invert"][i], case["init"][i], out["initreg"][i], out["win"][i]) for i in range(NSW)]
    acts = case["acts"]
    ops = case["ops"]
    pending_q = None
    for e in out["trace"]:
        k = e[0]
        if k == "op":
            o = ops[e[1]]
            t = o[0] * GRID
            for i, sp in enumerate(specs):
                for sig in sp.overdue(t, False):
                    fail(sig, "switch s%d: a handler/event that had to be invoked before t=%d us was not" % (i, t))
            sp = specs[o[1]]
            if pending_q is not None:
                fail("query-missing", "no answer recorded for a query")
            if o[2] == "rep":
                sp.report(t, o[3], o[4])
            elif o[2] == "add":
                sp.add(t, o[3], o[4], o[5])
            elif o[2] == "rem":
                sp.rem(o[3], o[4], o[5])
            elif o[2] == "mute":
                sp.muted.add(o[3])
            elif o[2] == "unmute":
                sp.muted.discard(o[3])
            else:
                held = (t - sp.lc) if sp.lc is not None else 10 ** 15
                pending_q = [o[1], int(sp.state == o[3] and (o[4] == 0 or held >= o[4] * 1000))]
        elif k in ("f", "e"):
            t, i, cb = e[1], e[2], e[3]
            sp = specs[i]
            sig = sp.fired(t, cb)
            if sig:
                fail(sig, "switch s%d: callback/event %d invoked at t=%d us without a matching obligation "
                          "(state=%d, last change=%s)" % (i, cb, t, sp.state, sp.lc))
            if k == "f":
                for a in acts.get(str(cb), []):
                    if a[0] == "a":
                        sp.add(t, a[1], a[2], a[3])
                    else:
                        sp.rem(a[1], a[2], a[3])
        elif k == "q":
            if pending_q is None or pending_q[0] != e[2]:
                fail("query-missing", "unexpected query record")
            elif pending_q[1] != e[3]:
                fail("query-wrong", "switch s%d: is_active/is_inactive/is_state answered %d, expected %d at t=%d us"
                     % (e[2], e[3], pending_q[1], e[1]))
            pending_q = None
        elif k == "crash":
            fail("crash", "the switch controller raised: %s" % e[2])
            return fails
        elif k == "end":
            t = case["end"] * GRID
            for i, sp in enumerate(specs):
                for sig in sp.overdue(t, False):
                    fail(sig, "switch s%d: a handler/event due by the end (t=%d us) was not invoked" % (i, t))
    for i, sp in enumerate(specs):
        st_, hw_, lc_ = out["final"][i]
        if st_ != sp.state or hw_ != sp.raw:
            fail("state-mismatch", "switch s%d: state/hw_state %d/%d, last report says %d/%d" % (i, st_, hw_, sp.state, sp.raw))
        if sp.lc is not None and lc_ != sp.lc:
            fail("last-change-wrong", "switch s%d: last_change %d us, last real change at %d us" % (i, lc_, sp.lc))
        w = out["wakes"][i]
        if len(w) > 1 or w != out["cur"][i]:
            fail("orphan-wakeup", "switch s%d: wake-ups in the loop %r, recorded %r" % (i, w, out["cur"][i]))
        if out["muted"][i] != int(bool(sp.muted)):
            fail("mute-state", "switch s%d: is_muted %d" % (i, out["muted"][i]))
        want_rc = [sp.open[0]] if sp.open is not None else []
        if out["rc"][i] != want_rc:
            fail("ignore-window", "switch s%d: pending window-end timers %r, expected %r" % (i, out["rc"][i], want_rc))
        hp = [x for x in sp.pend if x[0] >= 0]
        if hp and (not w or w[0] > min(x[2] for x in hp)):
            fail("wakeup-missing", "switch s%d: handlers pending for %r but wake-ups %r" % (i, sorted(x[2] for x in hp), w))
    return fails


def shrink(case):
    ops = case["ops"]
    for i in range(len(ops)):
        yield dict(case, ops=ops[:i] + ops[i + 1:])
    for cb in list(case["acts"]):
        a = dict(case["acts"])
        del a[cb]
        yield dict(case, acts=a)
        if len(case["acts"][cb]) > 1:
            for j in range(len(case["acts"][cb])):
                yield dict(case, acts=dict(case["acts"], **{cb: case["acts"][cb][:j] + case["acts"][cb][j + 1:]}))
    if ops and case["end"] > ops[-1][0]:
        yield dict(case, end=ops[-1][0])
    # pull the timeline together
    for i in range(1, len(ops)):
        d = ops[i][0] - ops[i - 1][0]
        if d > 1:
            for cut in (d - 1, d // 2):
                if cut > 0:
                    yield dict(case, ops=ops[:i] + [[o[0] - cut] + o[1:] for o in ops[i:]], end=case["end"] - cut)
    if any(case["init"]):
        yield dict(case, init=[0] * NSW)


def nontrivial(case, out):
    tr = out["trace"]
    changed = any(f[2] >= 0 for f in out["final"])
    return changed and any(e[0] in ("f", "e") for e in tr)


def describe(case):
    n = len(case["ops"])
    return "ops=%s reentrant=%d" % ("<=6" if n <= 6 else "<=16" if n <= 16 else ">16", 1 if case["acts"] else 0)


SUITES = [
    Suite("timeline", gen, run_impl, HDR, coq_case, oracle, shrink, nontrivial,
          {"quick": 2400, "thorough": 60000}, shard=250, describe=describe, case_timeout=20),
]

LEVEL_TEXT = ("Machine-checked proof (Coq) over an executable model of one switch of SwitchController (with the three "
              "fixes/C03-*.patch applied), for all event sequences: logical state = last report; duplicates are no-ops; "
              "untimed handlers once per change; a muted change invokes nothing but drops the pending holds; every pending "
              "entry and every invocation is for the state the switch is in; ignore-window semantics "
              "(recycle_semantics_*); exactly one wake-up handle per switch and no crash in "
              "_process_active_timed_switches; a removed handler never fires; timed handlers fire exactly at "
              "change+ms iff held (see Props.v for the exact statements and guards).  The model is tied to the working "
              "tree by running both on the same generated timelines on every run, and a trace acceptor written from the "
              "property text checks every implementation trace directly.")
LEVEL_NOTE = ("Trusted: Coq kernel + vm_compute; no axioms. Hand-written model validated differentially against the real "
              "machine on the virtual clock (grid times only); asyncio/TimeTravelLoop timer semantics modelled as "
              "'earliest pending wake-up first, before any operation at the same or a later instant'.")
TECHNIQUE = "Coq proof over hand-written executable model + differential correspondence (vm_compute) + trace-acceptor oracle"
DESIGN_REF = "DESIGN.md section 3, C03"
