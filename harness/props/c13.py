"""C13 — Delays and periodic timers fire exactly when promised, or never.

Suites
  delay    : DelayManager on a booted machine (virtual clock).  A case is a table of callback scripts plus a list
             of external steps (time, ops).  Callbacks are harness closures that record (time, id, kwargs) and then
             run their script re-entrantly on the same manager.  The loop's order of firing is observed and handed
             to the model as `Fire u` steps (the model accepts a Fire only if it is a legal choice).
  periodic : the real PeriodicTask class on a minimal scheduler that wakes up late (time() > deadline inside _run),
             cancel at/around deadlines.
  timer    : real timer devices of a real mode (6 configurations), driven by control events on the 125 ms grid;
             model coq/C13/Timer.v; expiries of the system timer / pause delay observed and validated.
  modestop : Mode.delay through a real mode's stop (delays added before stop, in mode_<m>_stopping/_stopped handlers,
             during a held stopping queue); oracle only.
"""
import functools
import math

from vlib import Suite, zlit, zlist, coqlist, blit

ID = "C13"
READY = True
RULE = ("delay: 1-6 external steps of 1-4 DelayManager ops (add/add_if_doesnt_exist/reset/remove/clear/run_now/check) on "
        "names {a,b,c,None}, durations on the 125 ms grid (incl. 0) or arbitrary ms, callbacks with kwargs that run scripts "
        "of further ops re-entrantly (re-add own name, remove/run_now others, self-rescheduling chains); external steps "
        "are placed on deadlines half of the time; non-trivial = at least one callback ran and at least one handle was "
        "cancelled or one op executed inside a callback.  periodic: interval/t0/cancel time incl. cancel exactly on a "
        "deadline (both orders) and a scheduler that wakes up late; non-trivial = at least 2 ticks.  timer: one of 6 timer "
        "configurations (up/down, end/no end, max, restart_on_complete), 2-10 control events (start/stop/pause with and "
        "without duration/add/subtract/jump/reset/restart/interval changes) 0-1500 ms apart on the 125 ms grid, so that "
        "commands land on tick instants and pause expiries; non-trivial = at least one tick and 3 commands.  modestop: "
        "0-3 delays before stop, 0-2 in each of the stopping/stopped handlers, optional held stopping queue with delays "
        "added in the window, optional restart of the mode; non-trivial = at least one delay")
TRUSTED_BASE = [
    "Coq 8.16.1 kernel (coqc), vm_compute for evaluating the model in the correspondence run and for the refutation witness; no native_compute",
    "axioms: none (every Print Assumptions is 'Closed under the global context')",
    "hand-written model coq/C13/Model.v tied to the working tree by correspondence: harness/props/c13.py runs the real "
    "DelayManager on mpf's TimeTravelLoop (PeriodicTask on a minimal late-waking scheduler) and the model on the same "
    "histories; the loop's choice among due handles is observed and validated by the model, not predicted",
    "CPython asyncio (BaseEventLoop._run_once, TimerHandle.cancel) and mpf/tests/loop.py TimeTravelLoop as the scheduler "
    "the handles run on; observation of handle state through TimerHandle.cancelled() and loop._scheduled/_ready",
    "the Python oracle in harness/props/c13.py (spec pass over the implementation's own event log)",
]
ASSUMPTIONS = [
    "durations are non-negative integers of milliseconds; instants are exact (1/8 s grid) or compared after rounding to microseconds",
    "the harness callbacks do not raise; nesting depth of run_now inside callbacks is cut at 6 (harness and model alike)",
    "timer device: no player variables / placeholders in values, tick intervals are multiples of 1/32 s, restart_on_complete "
    "only with a start value that is not final (cfg_ok; otherwise the code recurses forever); ticks_remaining is not compared",
    "timer suite: which of the two pause() variants the tree contains is decided by a behavioural probe at worker start "
    "(c_legacy in Timer.v); timer_quiet_after_pause_or_stop holds for the patched variant only",
    "Mode.stop -> delay.clear() is exercised on a real mode and checked by oracle; it is not part of the Coq model",
]

NAMES = ["a", "b", "c"]
MAXD = 6
MAXLOG = 1500     # callbacks stop running their scripts once the (model-visible) log is longer than this
MAXEV = 3000      # runaway guard: a case whose visible log grows beyond this is cut (and reported by the oracle)
VISIBLE = ("add", "kill", "call", "check", "dict", "oof")
_RIG = {}


def _init_rig():
    import logging
    logging.disable(logging.CRITICAL)
    from rig import Rig
    if "rig" not in _RIG:
        _RIG["rig"] = Rig({}).start()


# ------------------------------------------------------------------------------------------------
# generation
def _kw(rng):
    n = rng.choice([0, 1, 1, 2])
    keys = sorted(rng.sample(range(4), n))
    out = []
    for k in keys:
        out += [k, rng.choice([0, 1, 7, -3, 42])]
    return out


def _ms(rng, grid, allow_zero=True):
    if grid:
        c = [125, 250, 250, 375, 500, 500, 1000, 1500]
        if allow_zero:
            c += [0, 0]
        return rng.choice(c)
    c = [rng.randint(100, 1500), rng.randint(100, 600), 333, 1001]
    if allow_zero:
        c += [0, 1, rng.randint(1, 99)]
    return rng.choice(c)


def _op(rng, grid, nscripts, inside=None):
    """inside = index of the script the op is part of (None: external)."""
    r = rng.random()
    name = rng.choice([0, 0, 1, 1, 2])
    if r < 0.45:
        kind = rng.choice(["add", "add", "add", "addif", "reset"])
        anon = rng.random() < 0.12
        # termination: a script may reference itself or an earlier script only through a named delay of >= 100 ms
        if inside is None:
            cb = rng.choice([-1] + list(range(nscripts)) * 2) if nscripts else -1
            ms = _ms(rng, grid)
        else:
            later = [j for j in range(inside + 1, nscripts)]
            if anon or rng.random() < 0.5:
                cb = rng.choice([-1] + later * 2)
                ms = _ms(rng, grid)
            else:
                cb = rng.choice(list(range(nscripts)))
                ms = _ms(rng, grid, allow_zero=False)
        return [kind, ms, -1 if anon else name, cb, _kw(rng)]
    if r < 0.60:
        return ["remove", name]
    if r < 0.66:
        return ["clear"]
    if r < 0.82:
        return ["run_now", name]
    return ["check", name]


def gen_delay(rng, tier, i):
    grid = rng.random() < 0.7
    ns = rng.choice([0, 1, 2, 3, 4])
    scripts = [[_op(rng, grid, ns, inside=j) for _ in range(rng.choice([0, 1, 1, 2, 3]))] for j in range(ns)]
    steps = []
    t = 0
    for _ in range(rng.choice([1, 2, 3, 4, 5, 6])):
        ops = [_op(rng, grid, ns) for _ in range(rng.choice([1, 1, 2, 3, 4]))]
        steps.append([t, ops])
        if grid:
            t += rng.choice([0, 125, 125, 250, 250, 375, 500, 500, 1000, 2000]) * 1000
        else:
            t += rng.choice([0, rng.randint(1, 2000) * 1000, rng.randint(1, 2000000), 333000, 1001000])
    end = t + (rng.choice([0, 125, 500, 1000, 3000]) * 1000 if grid else rng.randint(0, 3000000))
    return {"grid": grid, "scripts": scripts, "steps": steps, "end": end}


# ------------------------------------------------------------------------------------------------
# implementation side
class _Run:
    pass


def _pairs(kw):
    return [(kw[i], kw[i + 1]) for i in range(0, len(kw), 2)]


def _align(rig, loop):
    """move the virtual clock to an integer second (exact float arithmetic on the 1/8 s grid)"""
    t0 = float(math.floor(loop.time()) + 2)
    rig.advance(t0 - loop.time())
    if loop.time() != t0:
        assert abs(loop.time() - t0) < 1e-6
        loop.set_time(t0)
    return t0


def run_delay(case):
    from mpf.core.delays import DelayManager
    rig = _RIG["rig"]
    loop = rig.machine.clock.loop
    dm = DelayManager(rig.machine)
    S = _Run()
    S.next, S.depth, S.handles, S.live, S.codes, S.log, S.steps = 0, 0, {}, set(), {}, [], []
    S.dead = False    # set at the end of the case / on runaway: closures of this case become no-ops
    t0 = _align(rig, loop)

    def now():
        return int(round((loop.time() - t0) * 1e6))

    def vis():
        return sum(1 for e in S.log if e[0] in VISIBLE) if len(S.log) > MAXLOG else 0

    def scan_kills():
        for u in sorted(S.live):
            if S.handles[u].cancelled():
                S.live.discard(u)
                S.log.append(["kill", u])

    def truth(name):
        for h in list(loop._scheduled) + list(loop._ready):
            cb = getattr(h, "_callback", None)
            if h._cancelled or not isinstance(cb, functools.partial):
                continue
            f = cb.func
            if getattr(f, "__self__", None) is dm and getattr(f, "__name__", "") == "_process_delay_callback" \
                    and cb.args and cb.args[0] == name:
                return True
        return False

    def make_cb(u, cbid):
        def cb(**kwargs):
            if S.dead:
                return
            if len(S.log) > MAXEV and vis() > MAXEV:
                S.dead = True
                S.log.append(["runaway"])
                return
            scan_kills()
            h = S.handles[u]
            rn = bool(h.cancelled())
            if not rn:
                S.live.discard(u)
                if S.depth == 0:
                    S.steps.append(["fire", u])
            kw = []
            for k, v in sorted((int(k[1:]), v) for k, v in kwargs.items()):
                kw += [k, v]
            S.log.append(["call", now(), u, cbid, kw, rn])
            if S.depth >= MAXD or vis() > MAXLOG:
                S.log.append(["oof"])
                return
            S.depth += 1
            try:
                for o in (case["scripts"][cbid] if cbid >= 0 else []):
                    do(o)
            finally:
                S.depth -= 1
        return cb

    def do(o):
        k = o[0]
        if S.dead:
            return
        if k in ("add", "addif", "reset"):
            _, ms, n, cbid, kw = o
            S.log.append(["op", k, n])
            u = S.next
            S.next += 1
            name = NAMES[n] if n >= 0 else None
            kwargs = {"k%d" % a: b for a, b in _pairs(kw)}
            before = dict(dm.delays)
            meth = {"add": dm.add, "addif": dm.add_if_doesnt_exist, "reset": dm.reset}[k]
            ret = meth(ms, make_cb(u, cbid), name, **kwargs)
            ent = dm.delays.get(ret)
            scan_kills()
            if ent is not None and ent is not before.get(ret):
                S.handles[u] = ent[0]
                S.live.add(u)
                code = n if n >= 0 else -1 - u
                S.codes[ret] = code
                S.log.append(["add", now(), u, code, ms, cbid, kw])
        elif k == "remove":
            S.log.append(["op", k, o[1]])
            dm.remove(NAMES[o[1]])
            scan_kills()
        elif k == "clear":
            S.log.append(["op", k, -1])
            dm.clear()
            scan_kills()
        elif k == "run_now":
            S.log.append(["op", k, o[1]])
            dm.run_now(NAMES[o[1]])
            scan_kills()
        elif k == "check":
            S.log.append(["op", k, o[1]])
            S.log.append(["check", o[1], bool(dm.check(NAMES[o[1]])), truth(NAMES[o[1]])])
        S.log.append(["opend"])

    try:
        for t, ops in case["steps"] + [[case["end"], []]]:
            d = t0 + t / 1e6 - loop.time()
            rig.advance(d if d > 0 else 0)
            S.log.append(["ext", t, now()])
            S.steps.append(["ext", t, ops])
            for o in ops:
                do(o)
            S.log.append(["dict", [S.codes.get(k, 999) for k in dm.delays.keys()]])
    finally:
        S.dead = True
        dm.clear()
    if rig.exception():
        return {"log": S.log, "steps": S.steps, "exc": repr(rig.exception())[:300]}
    return {"log": S.log, "steps": S.steps}


# ------------------------------------------------------------------------------------------------
# Coq printers
def _cop(o):
    k = o[0]
    if k in ("add", "addif", "reset"):
        c = {"add": "Add", "addif": "AddIfNot", "reset": "Reset"}[k]
        return "(%s %s %s %s %s)" % (c, zlit(o[1]), zlit(o[2]), zlit(o[3]), zlist(o[4]))
    if k == "remove":
        return "(Remove %s)" % zlit(o[1])
    if k == "clear":
        return "Clear"
    if k == "run_now":
        return "(RunNow %s)" % zlit(o[1])
    return "(Check %s)" % zlit(o[1])


def _cev(e):
    k = e[0]
    if k == "add":
        return "(EAdd %s %s %s %s %s %s)" % (zlit(e[1]), zlit(e[2]), zlit(e[3]), zlit(e[4]), zlit(e[5]), zlist(e[6]))
    if k == "kill":
        return "(EKill %s)" % zlit(e[1])
    if k == "call":
        return "(ECall %s %s %s %s %s)" % (zlit(e[1]), zlit(e[2]), zlit(e[3]), zlist(e[4]), blit(e[5]))
    if k == "check":
        return "(ECheck %s %s %s)" % (zlit(e[1]), blit(e[2]), blit(e[3]))
    if k == "dict":
        return "(EDict %s)" % zlist(e[1])
    if k == "oof":
        return "EOof"
    raise ValueError(k)


def coq_delay(case, out):
    if "exc" in out or ["runaway"] in out["log"][-3:] or any(e[0] == "runaway" for e in out["log"]):
        return None
    scripts = coqlist(coqlist(_cop(o) for o in s) for s in case["scripts"])
    steps = coqlist(("(Ext %s %s)" % (zlit(s[1]), coqlist(_cop(o) for o in s[2]))) if s[0] == "ext"
                    else "(Fire %s)" % zlit(s[1]) for s in out["steps"])
    evs = coqlist(_cev(e) for e in out["log"] if e[0] not in ("op", "opend", "ext"))
    return "((%s, %s), %s)" % (scripts, steps, evs)


# ------------------------------------------------------------------------------------------------
# oracle: the property's own predicate, evaluated on the implementation's event log
def oracle_delay(case, out):
    fails = []

    def fail(sig, what):
        if not any(f["sig"] == sig for f in fails):
            fails.append({"sig": sig, "what": what})

    if "exc" in out:
        fail("exception", "the machine recorded an exception: " + out["exc"])
    live = {}            # name code -> [u, when, cb, kw]
    expect_rn = None     # a run_now on a pending delay must be followed by exactly this call
    cur_op = None
    no_add = False
    tnow = 0
    for e in out["log"]:
        k = e[0]
        if k == "runaway":
            fail("runaway", "more than %d events in one case: callbacks keep firing" % MAXEV)
            return fails
        if k == "ext":
            if e[1] != e[2]:
                fail("clock", "virtual clock at %d, wanted %d" % (e[2], e[1]))
            tnow = e[1]
            for n, x in live.items():
                if x[1] < tnow:
                    fail("missed-deadline", "delay %r (id %d) due at %d had not fired by %d" % (n, x[0], x[1], tnow))
        elif k == "op":
            if expect_rn is not None:
                fail("run-now-no-call", "run_now did not call the pending callback")
                expect_rn = None
            cur_op, n = e[1], e[2]
            no_add = False
            if cur_op in ("add", "reset", "addif") and n < 0:
                pass                                  # name=None: a fresh uuid name, touches nothing
            elif cur_op in ("add", "reset"):
                live.pop(n, None)
            elif cur_op == "addif":
                no_add = n in live
            elif cur_op == "remove":
                live.pop(n, None)
            elif cur_op == "clear":
                live.clear()
            elif cur_op == "run_now":
                if n in live:
                    expect_rn = live.pop(n)
        elif k == "add":
            if no_add:
                fail("addif-replaced", "add_if_doesnt_exist scheduled although the name was pending")
            live[e[3]] = [e[2], e[1] + 1000 * e[4], e[5], e[6]]
        elif k == "call":
            _, t, u, cb, kw, rn = e
            if expect_rn is not None:
                x, expect_rn = expect_rn, None
                if u != x[0] or not rn:
                    fail("run-now-wrong-call", "run_now ran id %d (cancelled=%s), pending was id %d" % (u, rn, x[0]))
                elif kw != x[3]:
                    if kw == [] and x[3] != []:
                        fail("run-now-kwargs-dropped", "run_now called the callback without the stored kwargs %r" % (x[3],))
                    else:
                        fail("run-now-kwargs", "run_now passed %r, stored %r" % (kw, x[3]))
            else:
                hit = [n for n, x in live.items() if x[0] == u]
                if not hit:
                    fail("fired-not-pending", "callback id %d ran at %d although it was removed/replaced/cleared/"
                                              "already run" % (u, t))
                else:
                    x = live.pop(hit[0])
                    if t != x[1]:
                        fail("wrong-time", "id %d ran at %d, promised %d" % (u, t, x[1]))
                    if kw != x[3]:
                        fail("wrong-kwargs", "id %d ran with %r, stored %r" % (u, kw, x[3]))
                    if rn:
                        fail("fired-cancelled", "id %d ran from a cancelled handle" % u)
        elif k == "check":
            want = e[1] in live
            if e[2] != want:
                fail("check-untruthful", "check(%r) = %s, a pending delay %s" % (e[1], e[2], "exists" if want else "does not exist"))
            if e[3] != want:
                fail("handle-mismatch", "loop has %s live handle for %r, spec says %s" % ("a" if e[3] else "no", e[1], want))
        elif k == "dict":
            names = sorted(e[1])
            if names != sorted(live.keys()):
                fail("dict-mismatch", "DelayManager.delays has %r, pending per spec %r" % (names, sorted(live.keys())))
    if expect_rn is not None:
        fail("run-now-no-call", "run_now did not call the pending callback")
    return fails


def _shrink_ops(ops):
    for i in range(len(ops)):
        yield ops[:i] + ops[i + 1:]
    for i, o in enumerate(ops):
        if o[0] in ("add", "addif", "reset"):
            if o[3] != -1:
                yield ops[:i] + [[o[0], o[1], o[2], -1, o[4]]] + ops[i + 1:]
            if len(o[4]) > 2:
                yield ops[:i] + [[o[0], o[1], o[2], o[3], o[4][:2]]] + ops[i + 1:]


def shrink_delay(case):
    st = case["steps"]
    for i in range(len(st)):
        if len(st) > 1:
            yield dict(case, steps=st[:i] + st[i + 1:])
    for i in range(len(st)):
        for ops in _shrink_ops(st[i][1]):
            yield dict(case, steps=st[:i] + [[st[i][0], ops]] + st[i + 1:])
    sc = case["scripts"]
    for j in range(len(sc)):
        for ops in _shrink_ops(sc[j]):
            yield dict(case, scripts=sc[:j] + [ops] + sc[j + 1:])


def nontrivial_delay(case, out):
    log = out.get("log", [])
    calls = sum(1 for e in log if e[0] == "call")
    kills = sum(1 for e in log if e[0] == "kill")
    nested = any(e[0] == "call" and e[5] for e in log)
    return calls >= 1 and (kills >= 1 or nested)


def describe_delay(case):
    out = []
    for _, ops in case["steps"]:
        for o in ops:
            out.append(o[0])
    for s in case["scripts"]:
        for o in s:
            out.append("cb:" + o[0])
    kinds = sorted(set(out))
    return ("grid " if case["grid"] else "ms ") + ("reentrant" if any(k.startswith("cb:") for k in kinds) else "flat")


# ------------------------------------------------------------------------------------------------
# PeriodicTask
def gen_periodic(rng, tier, i):
    grid = rng.random() < 0.6
    if grid:
        ival = rng.choice([125, 250, 500, 1000]) * 1000
    else:
        ival = rng.choice([rng.randint(20, 900) * 1000, 100000, 333000, 16667])
    n = rng.choice([0, 1, 2, 3, 5, 8, 13, 40])
    # cancel exactly on a deadline, or somewhere in the second half of an interval (late wake-ups stay below ival/3)
    r = rng.random()
    if r < 0.4:
        cancel = n * ival
    elif r < 0.8:
        cancel = n * ival + rng.choice([ival // 2, ival - 1, ival // 2 + 1])
    else:
        cancel = None
    horizon = (cancel if cancel is not None else n * ival) + rng.choice([0, ival, 2 * ival + ival // 2, 5 * ival])
    lates = rng.choice([[0], [0], [ival // 4], [0, ival // 3, 1, ival // 8], [ival // 8, 0, 0]])
    if cancel is not None and cancel % ival == 0 and not rng.random() < 0.5:
        tick_first = False
    else:
        tick_first = True
    return {"ival": ival, "cancel": cancel, "horizon": horizon, "lates": lates, "grid": grid, "tick_first": tick_first}


class _LateLoop:
    """The two methods PeriodicTask needs from a loop, on a scheduler that may wake up late: a handle with deadline
    `when` runs at `when + late` (late >= 0 taken from the case), so that _run sees time() > deadline."""

    def __init__(self, t0):
        self.t = t0
        self.h = []

    def time(self):
        return self.t

    def call_at(self, when, cb, *args):
        self.h.append((when, cb))


def run_periodic(case):
    from mpf.core.clock import PeriodicTask
    t0 = 1000.0
    loop = _LateLoop(t0)
    ival = case["ival"]
    lates = case["lates"]
    calls, order, cur = [], [], [None]

    def us(x):
        return int(round((x - t0) * 1e6))

    def cb():
        calls.append(us(cur[0]))

    pt = PeriodicTask(ival / 1e6, loop, cb)

    def run_until(t_us, inclusive):
        n = 0
        while loop.h and n < 10000:
            when, f = min(loop.h, key=lambda x: x[0])
            w = us(when)
            if w > t_us or (w == t_us and not inclusive):
                break
            loop.h.remove((when, f))
            loop.t = max(loop.t, when + lates[len(order) % len(lates)] / 1e6)
            cur[0] = when
            order.append("run")
            n += 1
            f()

    if case["cancel"] is not None:
        run_until(case["cancel"], case["tick_first"])
        loop.t = max(loop.t, t0 + case["cancel"] / 1e6)
        order.append("cancel")
        pt.cancel()
    run_until(case["horizon"], True)
    loop.t = max(loop.t, t0 + case["horizon"] / 1e6)
    order.append("at")
    nxt = us(pt.get_next_call_time())
    pt.cancel()
    return {"calls": calls, "order": order, "next": nxt, "pending": sorted(us(w) for w, _ in loop.h)}


def coq_periodic(case, out):
    steps = []
    for o in out["order"]:
        if o == "run":
            steps.append("PRun")
        elif o == "cancel":
            steps.append("(PCancel %s)" % zlit(case["cancel"]))
        else:
            steps.append("(PAt %s)" % zlit(case["horizon"]))
    exp = "(%s, %s)" % (coqlist("(PCalled %s)" % zlit(t) for t in out["calls"]), zlit(out["next"]))
    return "((0, %s, %s), %s)" % (zlit(case["ival"]), coqlist(steps), exp)


def oracle_periodic(case, out):
    fails = []
    ival = case["ival"]
    calls = out["calls"]
    for k, t in enumerate(calls):
        if t != (k + 1) * ival:
            fails.append({"sig": "periodic-drift", "what": "tick %d at %d us, expected %d" % (k + 1, t, (k + 1) * ival)})
            break
    cancelled = case["cancel"] is not None
    stop = case["cancel"] if cancelled else case["horizon"]
    lo = (stop - 1) // ival if stop > 0 else 0      # ticks strictly before `stop` must have happened
    hi = stop // ival                               # ticks after `stop` must not (a tick exactly at `stop` may go either way)
    if len(calls) < lo:
        fails.append({"sig": "periodic-missed", "what": "%d ticks by %d, interval %d" % (len(calls), stop, ival)})
    if len(calls) > hi:
        fails.append({"sig": "periodic-after-cancel" if cancelled else "periodic-extra",
                      "what": "%d ticks, %s at %d, interval %d" % (len(calls), "cancelled" if cancelled else "looked", stop, ival)})
    return fails


def shrink_periodic(case):
    if case["lates"] != [0]:
        yield dict(case, lates=[0])
    if case["cancel"] is not None and case["cancel"] >= case["ival"]:
        yield dict(case, cancel=case["cancel"] - case["ival"], horizon=case["horizon"] - case["ival"])
    if case["horizon"] - case["ival"] >= (case["cancel"] or 0):
        yield dict(case, horizon=case["horizon"] - case["ival"])


HDR_DELAY = "From C13 Require Import Model.\nDefinition run := delay_run.\nDefinition out_eqb := delay_out_eqb.\n"
HDR_PERIODIC = "From C13 Require Import Model.\nDefinition run := periodic_run.\nDefinition out_eqb := periodic_out_eqb.\n"

SUITES = [
    Suite("delay", gen_delay, run_delay, HDR_DELAY, coq_delay, oracle_delay, shrink_delay, nontrivial_delay,
          {"quick": 4000, "thorough": 120000}, worker_init=_init_rig, shard=250, describe=describe_delay),
    Suite("periodic", gen_periodic, run_periodic, HDR_PERIODIC, coq_periodic, oracle_periodic, shrink_periodic,
          lambda c, o: len(o.get("calls", [])) >= 2, {"quick": 1000, "thorough": 30000},
          shard=500, describe=lambda c: ("grid" if c["grid"] else "ms") + (" late" if c["lates"] != [0] else "") +
          (" nocancel" if c["cancel"] is None else " cancel@deadline" if c["cancel"] % c["ival"] == 0 else " cancel")),
]

LEVEL_TEXT = ("Machine-checked proof (Coq) over an executable model of DelayManager on a model of the loop's timer handles: "
              "for every history of add/add_if_doesnt_exist/reset/remove/clear/run_now/check calls, including calls made "
              "from inside delay callbacks, and every legal firing order, each callback run is justified by exactly one "
              "add (same callback, same kwargs, at exactly add time + ms unless run by run_now), runs at most once, never "
              "after its handle was cancelled; every added delay whose deadline has passed was run or cancelled; check() "
              "equals the existence of a live handle; PeriodicTask ticks at t0+k*interval exactly and never after cancel; "
              "timer device: tick events only from a running timer, nothing happens by itself after stop / pause without "
              "duration, complete exactly at the end value, tick instants exact. "
              "The model is tied to the working tree by running both on the same generated histories on every run.")
LEVEL_NOTE = ("Trusted: Coq kernel + vm_compute; no axioms. Model hand-written; correspondence validates it against the "
              "working tree (real DelayManager/PeriodicTask on mpf's TimeTravelLoop); asyncio's handle semantics "
              "(a cancelled handle never runs, due handles run no earlier than their deadline) are modelled as the "
              "acceptance conditions of Fire/Ext steps and validated on every run. Timer device: model Timer.v tied the same "
              "way to real timers of a real mode; mode-owned delays: oracle on a real mode's stop.")
TECHNIQUE = "Coq proof over hand-written executable model + differential correspondence (vm_compute) + direct spec oracle"
DESIGN_REF = "DESIGN.md section 3, C13"


# ================================================================================================
# timer device (mpf/devices/timer.py) — real timers of a real mode, driven by control events on the 125 ms grid
TIMERS = [   # name, start, end, max, direction, tick interval ms, restart_on_complete
    ("t0", 0, 5, None, "up", 500, False),
    ("t1", 5, None, None, "down", 250, False),
    ("t2", 0, 3, None, "up", 500, True),
    ("t3", 3, 1, None, "down", 250, True),
    ("t4", 0, None, 4, "up", 250, False),
    ("t5", 2, 6, 8, "up", 125, False),
]
# control events; the value-less actions come first (Timer._setup_control_events leaks the previous entry's kwargs
# into start/stop/reset/restart handlers: reset after a value action raises TypeError — recorded in NOTES.md)
T_ACTIONS = [("start", "start", None), ("stop", "stop", None), ("reset", "reset", None), ("restart", "restart", None),
             ("pause", "pause", None), ("pause500", "pause", 0.5), ("pause1000", "pause", 1), ("pause250", "pause", 0.25),
             ("add1", "add", 1), ("add2", "add", 2), ("sub1", "subtract", 1), ("sub2", "subtract", 2),
             ("jump0", "jump", 0), ("jump3", "jump", 3), ("jump5", "jump", 5), ("jump20", "jump", 20), ("jumpm1", "jump", -1),
             ("half", "change_tick_interval", 0.5), ("double", "change_tick_interval", 2),
             ("set250", "set_tick_interval", 0.25), ("set500", "set_tick_interval", 0.5), ("set1000", "set_tick_interval", 1),
             ("resetival", "reset_tick_interval", None)]
T_KINDS = ["started", "stopped", "paused", "complete", "tick", "time_added", "time_subtracted"]
_TRIG = {}


def _timer_config():
    timers = {}
    for name, start, end, mx, direction, ival, roc in TIMERS:
        ce = []
        for ev, action, value in T_ACTIONS:
            e = {"event": "%s_%s" % (name, ev), "action": action}
            if value is not None:
                e["value"] = value
            ce.append(e)
        t = {"start_value": start, "direction": direction, "tick_interval": "%dms" % ival, "control_events": ce,
             "restart_on_complete": roc}
        if end is not None:
            t["end_value"] = end
        if mx is not None:
            t["max_value"] = mx
        timers[name] = t
    return timers


def _init_timer_rig():
    import logging
    logging.disable(logging.CRITICAL)
    from rig import Rig
    if "rig" not in _TRIG:
        mode = {"mode": {"start_events": "start_m1", "stop_events": "stop_m1", "game_mode": False},
                "timers": _timer_config()}
        mode2 = {"mode": {"start_events": "start_m2", "stop_events": "stop_m2", "game_mode": False}}
        rig = Rig({"modes": ["m1", "m2"]}, modes={"m1": mode, "m2": mode2}).start()
        _TRIG["rig"] = rig
        # which code is this?  behavioural probe of the recorded defect `timer-pause-not-superseded`
        # (fixes/C13-timer-pause-supersedes.patch): does pause() leave a pending timed pause in place?
        rig.post("start_m1")
        rig.advance(0.125)
        t = rig.machine.timers["t0"]
        rig.post("t0_pause1000")
        rig.post("t0_pause")
        _TRIG["legacy"] = "pause" in t.delay.delays
        # the mode stays active for the life of the worker (restarting it per case makes Timer.event_keys grow:
        # device_removed_from_mode never empties it); every case first brings its timer back to the initial state
        rig.post("t0_stop")
        rig.advance(2)


def gen_timer(rng, tier, i):
    ti = rng.randrange(len(TIMERS))
    n = rng.choice([2, 3, 4, 5, 6, 8, 10])
    t = 0
    ops = []
    halves = 0
    names = [a[0] for a in T_ACTIONS]
    weights = {"start": 6, "stop": 2, "pause": 4, "pause500": 4, "pause1000": 3, "pause250": 2, "restart": 2, "reset": 2}
    pool = []
    for a in names:
        pool += [a] * weights.get(a, 1)
    if rng.random() < 0.8:
        ops.append([0, "start"])
    for _ in range(n):
        t += rng.choice([0, 125, 125, 250, 250, 375, 500, 500, 625, 1000, 1500]) * 1000
        a = rng.choice(pool)
        if a == "half":
            if halves >= 2:
                a = "double"
            else:
                halves += 1
        ops.append([t, a])
    end = t + rng.choice([0, 500, 1000, 2000, 4000]) * 1000
    return {"timer": ti, "ops": ops, "end": end}


def run_timer(case):
    rig = _TRIG["rig"]
    m = rig.machine
    loop = m.clock.loop
    name = TIMERS[case["timer"]][0]
    timer = m.timers[name]
    S = _Run()
    S.events, S.steps, S.busy, S.stepno = [], [], False, 0
    t0box = [None]

    def now():
        return int(round((loop.time() - t0box[0]) * 1e6))

    orig_tick = type(timer)._timer_tick.__get__(timer)
    orig_start = type(timer).start.__get__(timer)

    def tick_w():
        S.stepno += 1
        S.steps.append(["firetick", now()])
        S.busy = True
        try:
            return orig_tick()
        finally:
            S.busy = False

    def start_w(**kwargs):
        if S.busy or "_ext" in kwargs or t0box[0] is None:
            return orig_start(**kwargs)
        S.stepno += 1
        S.steps.append(["firepause", now()])
        S.busy = True
        try:
            return orig_start(**kwargs)
        finally:
            S.busy = False

    keys = []

    def mk(kind):
        def h(**kwargs):
            if t0box[0] is None:
                return
            e = [kind, now(), kwargs.get("ticks"), S.stepno]
            if kind == "tick":
                e.append(bool(timer.running))
            S.events.append(e)
        return h

    try:
        if not m.modes["m1"].active:
            return {"harness_error": "mode m1 is not active"}
        # initial state: stopped, configured interval, start value; the system timer that reset creates while the
        # timer is not running removes itself at its first expiry, before the case begins
        for a in ("stop", "resetival", "reset", "stop"):
            rig.post("%s_%s" % (name, a))
        t0 = _align(rig, loop)
        if timer.running or timer.timer is not None or timer.delay.delays or timer.ticks != TIMERS[case["timer"]][1]:
            return {"harness_error": "timer not in its initial state: %r %r %r %r" %
                                     (timer.running, timer.timer, list(timer.delay.delays), timer.ticks)}
        timer._timer_tick = tick_w
        timer.start = start_w
        for kind in T_KINDS:
            keys.append(m.events.add_handler("timer_%s_%s" % (name, kind), mk(kind)))
        t0box[0] = t0
        for t, a in case["ops"] + [[case["end"], "nop"]]:
            d = t0box[0] + t / 1e6 - loop.time()
            rig.advance(d if d > 0 else 0)
            S.stepno += 1
            S.steps.append(["ext", t, a, now()])
            if a != "nop":
                m.events.post("%s_%s" % (name, a), _ext=1)
                S.busy = True
                try:
                    rig.advance(0)
                finally:
                    S.busy = False
            S.events.append(["state", t, bool(timer.running), timer.ticks, "pause" in timer.delay.delays,
                             timer.timer is not None, S.stepno])
    finally:
        t0box[0] = None
        for k in keys:
            m.events.remove_handler_by_key(k)
        for attr in ("_timer_tick", "start"):
            if attr in timer.__dict__:
                delattr(timer, attr)
        rig.post("%s_stop" % name)
    out = {"events": S.events, "steps": S.steps, "legacy": bool(_TRIG["legacy"])}
    if rig.exception():
        out["exc"] = repr(rig.exception())[:300]
    return out


def _tcfg(ti, legacy=False):
    name, start, end, mx, direction, ival, roc = TIMERS[ti]
    down = direction == "down"
    if down and not end:
        end = 0
    return "(mkC %s %s %s %s %s %s %s)" % (zlit(start), "None" if end is None else "(Some %s)" % zlit(end), zlit(mx or 0),
                                           blit(down), zlit(ival * 1000), blit(roc), blit(legacy))


def _caction(a):
    kind = dict((x[0], (x[1], x[2])) for x in T_ACTIONS).get(a)
    if a == "nop":
        return "ANop"
    action, v = kind
    if action == "start":
        return "AStart"
    if action == "stop":
        return "AStop"
    if action == "reset":
        return "AReset"
    if action == "restart":
        return "ARestart"
    if action == "pause":
        return "(APause %s)" % zlit(int((v or 0) * 1000))
    if action == "add":
        return "(AAdd %s)" % zlit(v)
    if action == "subtract":
        return "(ASub %s)" % zlit(v)
    if action == "jump":
        return "(AJump %s)" % zlit(v)
    if action == "change_tick_interval":
        return "(AChange 1 2)" if v == 0.5 else "(AChange 2 1)"
    if action == "set_tick_interval":
        return "(ASetIval %s)" % zlit(int(v * 1000000))
    return "AResetIval"


_TEV = {"started": "TStarted", "stopped": "TStopped", "paused": "TPaused", "complete": "TComplete",
        "time_added": "TAdded", "time_subtracted": "TSubtracted"}


def coq_timer(case, out):
    if "exc" in out:
        return None
    steps = coqlist("(TExt %s %s)" % (zlit(s[1]), _caction(s[2])) if s[0] == "ext" else
                    ("TFireTick" if s[0] == "firetick" else "TFirePause") for s in out["steps"])
    evs = []
    for e in out["events"]:
        if e[0] == "tick":
            evs.append("(TTick %s %s %s)" % (zlit(e[1]), zlit(e[2]), blit(e[4])))
        elif e[0] == "state":
            evs.append("(TState %s %s %s %s %s)" % (zlit(e[1]), blit(e[2]), zlit(e[3]), blit(e[4]), blit(e[5])))
        else:
            evs.append("(%s %s %s)" % (_TEV[e[0]], zlit(e[1]), zlit(e[2])))
    return "((%s, %s), %s)" % (_tcfg(case["timer"], out.get("legacy", False)), steps, coqlist(evs))


def oracle_timer(case, out):
    fails = []

    def fail(sig, what):
        if not any(f["sig"] == sig for f in fails):
            fails.append({"sig": sig, "what": what})

    if "exc" in out:
        fail("timer-exception", out["exc"])
    name, start, end, mx, direction, ival_ms, roc = TIMERS[case["timer"]]
    down = direction == "down"
    if down and not end:
        end = 0

    def done(k):
        return end is not None and (k <= end if down else k >= end)

    acts = dict((x[0], (x[1], x[2])) for x in T_ACTIONS)
    by_step = {}
    for e in out["events"]:
        by_step.setdefault(e[-1] if e[0] == "state" else e[3], []).append(e)
    running = False          # per the timer's own started/stopped/paused events
    resume_at = None         # expiry of the pending timed pause, per the commands
    ival = ival_ms * 1000
    next_tick = None         # instant of the next tick of the current system timer, per the commands
    timed = []               # timed pauses whose delay may still be pending
    for no, s in enumerate(out["steps"], 1):
        evs = by_step.get(no, [])
        if s[0] == "ext":
            if s[1] != s[3]:
                fail("clock", "virtual clock at %d, wanted %d" % (s[3], s[1]))
            t, a = s[1], s[2]
            action, v = acts.get(a, ("nop", None))
            if resume_at is not None and resume_at < t:
                fail("timer-pause-not-ended", "timed pause due at %d did not restart the timer by %d" % (resume_at, t))
            if running and next_tick is not None and next_tick < t:
                fail("timer-missed-tick", "running timer: tick due at %d missing at %d" % (next_tick, t))
            if action == "change_tick_interval":
                ival = int(ival * v)
            elif action == "set_tick_interval":
                ival = int(v * 1000000)
            elif action == "reset_tick_interval":
                ival = ival_ms * 1000
            if action in ("jump", "reset", "restart", "change_tick_interval", "set_tick_interval", "reset_tick_interval"):
                next_tick = t + ival
            if action == "pause":
                resume_at = t + int(v * 1000000) if v else None
                if v:
                    timed.append([t + int(v * 1000000), True])     # [expiry, only pause commands since]
            elif action in ("start", "stop", "restart"):
                resume_at = None
        elif s[0] == "firetick":
            t = s[1]
            if any(e[0] == "tick" for e in evs) or any(e[0] in ("complete",) for e in evs):
                if not running:
                    fail("tick-while-not-running", "the timer counted at %d while stopped/paused" % t)
                if next_tick is not None and t != next_tick:
                    fail("timer-tick-instant", "tick at %d, due at %s" % (t, next_tick))
            if running:
                next_tick = t + ival
        elif s[0] == "firepause":
            t = s[1]
            if resume_at != t:
                # the recorded defect: pause() does not remove the delay of an earlier timed pause.  It is exactly that
                # when the expiring delay stems from a timed pause after which the timer never started or stopped.
                stale = [x for x in timed if x[0] == t]
                if out.get("legacy") and stale and stale[-1][1]:
                    fail("timer-pause-not-superseded", "pause at %s did not cancel the pending timed pause: start() ran at %d"
                         % ("(no end)" if resume_at is None else resume_at, t))
                else:
                    fail("timer-resumed-while-paused", "a stale pause delay called start() at %d; the commanded pause "
                         "%s" % (t, "has no end" if resume_at is None else "ends at %d" % resume_at))
            timed[:] = [x for x in timed if x[0] != t]
            resume_at = None
        for e in evs:
            k = e[0]
            if k in ("started", "stopped") and s[0] != "firepause":
                for x in timed:
                    x[1] = False          # start()/stop() ran: they must have removed the delay
            if k == "started":
                running = True
                next_tick = e[1] + ival
                resume_at = None
            elif k in ("stopped", "paused"):
                running = False
                if k == "stopped":
                    resume_at = None
            elif k == "complete":
                if not done(e[2]):
                    fail("complete-not-at-end", "complete event with ticks=%s, end=%s" % (e[2], end))
            elif k == "tick":
                if not e[4]:
                    fail("tick-not-running", "tick event while timer.running is False")
                if done(e[2]):
                    fail("tick-past-end", "tick event with ticks=%s at/after the end value %s" % (e[2], end))
            elif k == "state":
                if e[2] and done(e[3]):
                    fail("running-past-end", "timer running with ticks=%s, end=%s and no complete" % (e[3], end))
                if e[2] != running:
                    fail("timer-state", "timer.running=%s but its last event says %s" % (e[2], running))
    return fails


def shrink_timer(case):
    ops = case["ops"]
    for i in range(len(ops)):
        yield dict(case, ops=ops[:i] + ops[i + 1:])
    if case["end"] > (ops[-1][0] if ops else 0):
        yield dict(case, end=(ops[-1][0] if ops else 0))


def nontrivial_timer(case, out):
    evs = out.get("events", [])
    return any(e[0] == "tick" for e in evs) and len(case["ops"]) >= 3


SUITES.append(Suite("timer", gen_timer, run_timer,
                    "From C13 Require Import Timer.\nDefinition run := timer_run.\nDefinition out_eqb := timer_out_eqb.\n",
                    coq_timer, oracle_timer, shrink_timer, nontrivial_timer, {"quick": 1500, "thorough": 40000},
                    worker_init=_init_timer_rig, shard=300,
                    describe=lambda c: TIMERS[c["timer"]][0] + (" pause" if any(o[1].startswith("pause") for o in c["ops"]) else "")))


# ================================================================================================
# mode-owned delays: Mode.delay through a real mode's stop (mode.py stop/_stopped/_mode_stopped_callback)
def _dl(rng, k):
    return [rng.choice([0, 0, 125, 125, 250, 500, 1000, 2000]) for _ in range(k)]


def gen_modestop(rng, tier, i):
    stop_at = rng.choice([0, 125, 250, 500, 1000]) * 1000
    hold = rng.choice([0, 0, 0, 125, 250, 500]) * 1000
    return {"pre": _dl(rng, rng.choice([0, 1, 2, 3])), "stop_at": stop_at,
            "stopping": _dl(rng, rng.choice([0, 1, 1, 2])), "stopping_via": rng.choice(["mode", "machine"]),
            "stopped": _dl(rng, rng.choice([0, 0, 1, 2])), "stopped_via": rng.choice(["mode", "machine"]),
            "hold": hold, "window": _dl(rng, rng.choice([0, 1, 2])) if hold else [],
            "restart": rng.random() < 0.4, "end": stop_at + hold + rng.choice([500, 1000, 2500]) * 1000}


def run_modestop(case):
    rig = _TRIG["rig"]
    m = rig.machine
    loop = m.clock.loop
    mode = m.modes["m2"]
    log = []
    t0box = [None]
    S = _Run()
    S.n, S.queue, S.dead = 0, None, False

    def now():
        return int(round((loop.time() - t0box[0]) * 1e6))

    def add(ms, phase):
        u = S.n
        S.n += 1

        def cb(**kwargs):
            if not S.dead:
                log.append(["call", now(), u, phase])
        mode.delay.add(ms, cb, None if u % 2 else "d%d" % u)
        log.append(["add", now(), u, phase, ms])

    def on_stopping(queue=None, **kwargs):
        log.append(["stopping", now()])
        for ms in case["stopping"]:
            add(ms, "stopping")
        if case["hold"] and queue is not None:
            queue.wait()
            S.queue = queue

    def on_stopped(**kwargs):
        log.append(["stopped-event", now()])
        for ms in case["stopped"]:
            add(ms, "stopped")

    keys = []
    try:
        rig.post("start_m2")
        rig.advance(0.125)
        if not mode.active:
            return {"harness_error": "mode did not start"}
        t0box[0] = _align(rig, loop)
        for ev, via, h in (("mode_m2_stopping", case["stopping_via"], on_stopping),
                           ("mode_m2_stopped", case["stopped_via"], on_stopped)):
            if via == "mode":
                mode.add_mode_event_handler(ev, h)
            else:
                keys.append(m.events.add_handler(ev, h))
        for ms in case["pre"]:
            add(ms, "pre")
        rig.advance(case["stop_at"] / 1e6)
        log.append(["stop", now()])
        rig.post("stop_m2")
        if case["hold"]:
            rig.advance(case["hold"] / 1e6)
            for ms in case["window"]:
                add(ms, "window")
            if S.queue is not None:
                S.queue.clear()
            rig.advance(0)
        fin = (not mode.active) and (not mode._cleanup_pending) and (not mode.stopping)
        log.append(["finished", now(), fin, sorted(str(k)[:3] for k in mode.delay.delays.keys())])
        if case["restart"]:
            rig.advance(0.125)
            rig.post("start_m2")
            log.append(["restarted", now(), bool(mode.active)])
        d = t0box[0] + case["end"] / 1e6 - loop.time()
        rig.advance(d if d > 0 else 0)
        log.append(["end", now(), len(mode.delay.delays)])
    finally:
        S.dead = True
        for k in keys:
            m.events.remove_handler_by_key(k)
        mode.delay.clear()
        if mode.active:
            rig.post("stop_m2")
            rig.advance(0.125)
    out = {"log": log}
    if rig.exception():
        out["exc"] = repr(rig.exception())[:300]
    return out


def oracle_modestop(case, out):
    fails = []

    def fail(sig, what):
        if not any(f["sig"] == sig for f in fails):
            fails.append({"sig": sig, "what": what})

    if "exc" in out:
        fail("mode-exception", out["exc"])
    stop_t = None
    finished = False
    added = {}
    for e in out["log"]:
        if e[0] == "add":
            added[e[2]] = e
        elif e[0] == "stop":
            stop_t = e[1]
            for u, a in added.items():
                pass
        elif e[0] == "finished":
            finished = True
            if not e[2]:
                fail("mode-not-stopped", "the mode did not finish stopping")
            if e[3]:
                fail("mode-delay-left-behind", "mode.delay still holds %r after the mode has stopped" % (e[3],))
        elif e[0] == "call":
            _, t, u, phase = e
            if finished:
                fail("mode-delay-survived-stop", "a delay added to mode.delay (%s) fired at %d, after the mode had stopped" % (phase, t))
            elif stop_t is not None and phase == "pre":
                fail("mode-delay-fired-while-stopping", "a delay added before stop() fired at %d, after stop() at %d" % (t, stop_t))
        elif e[0] == "end":
            if e[2]:
                fail("mode-delay-left-behind", "mode.delay holds %d entries at the end" % e[2])
    # delays due strictly before the stop request must have fired
    calls = set(e[2] for e in out["log"] if e[0] == "call")
    for u, a in added.items():
        if a[3] == "pre" and stop_t is not None and a[1] + a[4] * 1000 < stop_t and u not in calls:
            fail("mode-delay-missed", "delay due at %d before stop at %d did not fire" % (a[1] + a[4] * 1000, stop_t))
    return fails


def shrink_modestop(case):
    for k in ("pre", "stopping", "stopped", "window"):
        for i in range(len(case[k])):
            yield dict(case, **{k: case[k][:i] + case[k][i + 1:]})
    if case["restart"]:
        yield dict(case, restart=False)
    if case["hold"]:
        yield dict(case, hold=0, window=[])


SUITES.append(Suite("modestop", gen_modestop, run_modestop, None, None, oracle_modestop, shrink_modestop,
                    lambda c, o: bool(c["pre"] or c["stopping"] or c["stopped"] or c["window"]),
                    {"quick": 600, "thorough": 10000}, worker_init=_init_timer_rig,
                    describe=lambda c: ("hold " if c["hold"] else "") + ("stopping " if c["stopping"] else "") +
                    ("stopped " if c["stopped"] else "") + ("restart" if c["restart"] else "")))
