"""C13 — Delays and periodic timers fire exactly when promised, or never.

Suites
  delay    : DelayManager on a booted machine (virtual clock).  A case is a table of callback scripts plus a list
             of external steps (time, ops).  Callbacks are harness closures that record (time, id, kwargs) and then
             run their script re-entrantly on the same manager.  The loop's order of firing is observed and handed
             to the model as `Fire u` steps (the model accepts a Fire only if it is a legal choice).
  periodic : the real PeriodicTask class on a minimal scheduler that wakes up late (time() > deadline inside _run),
             cancel at/around deadlines.
"""
import functools
import math

from vlib import Suite, zlit, zlist, coqlist, blit

ID = "C13"
READY = True
RULE = ("delay: 1-6 external steps of 1-4 DelayManager ops (add/add_if_doesnt_exist/reset/remove/clear/run_now/check) on "
        "names {a,b,c,None}, durations on the 125 ms grid (incl. 0) or arbitrary ms, callbacks with kwargs that run scripts "
        "of further ops re-entrantly (re-add own name, remove/run_now others, self-rescheduling chains); external steps "
        "are placed on deadlines half of the time; non-trivial = at least one callback ran and at least one handle was "
        "cancelled or one op executed inside a callback.  periodic: interval/t0/cancel time incl. cancel exactly on a "
        "deadline (both orders) and a scheduler that wakes up late; non-trivial = at least 2 ticks")
TRUSTED_BASE = [
    "Coq 8.16.1 kernel (coqc), vm_compute for evaluating the model in the correspondence run and for the refutation witness; no native_compute",
    "axioms: none (every Print Assumptions is 'Closed under the global context')",
    "hand-written model coq/C13/Model.v tied to the working tree by correspondence: harness/props/c13.py runs the real "
    "DelayManager on mpf's TimeTravelLoop (PeriodicTask on a minimal late-waking scheduler) and the model on the same "
    "histories; the loop's choice among due handles is observed and validated by the model, not predicted",
    "CPython asyncio (BaseEventLoop._run_once, TimerHandle.cancel) and mpf/tests/loop.py TimeTravelLoop as the scheduler "
    "the handles run on; observation of handle state through TimerHandle.cancelled() and loop._scheduled/_ready",
    "the Python oracle in harness/props/c13.py (spec pass over the implementation's own event log)",
]
ASSUMPTIONS = [
    "durations are non-negative integers of milliseconds; instants are exact (1/8 s grid) or compared after rounding to microseconds",
    "the harness callbacks do not raise; nesting depth of run_now inside callbacks is cut at 6 (harness and model alike)",
    "the timer device (mpf/devices/timer.py) is NOT covered (see coq/C13/NOTES.md); Mode.stop -> delay.clear() is read, not tied",
]

NAMES = ["a", "b", "c"]
MAXD = 6
MAXLOG = 1500     # callbacks stop running their scripts once the (model-visible) log is longer than this
MAXEV = 3000      # runaway guard: a case whose visible log grows beyond this is cut (and reported by the oracle)
VISIBLE = ("add", "kill", "call", "check", "dict", "oof")
_RIG = {}


def _init_rig():
    import logging
    logging.disable(logging.CRITICAL)
    from rig import Rig
    if "rig" not in _RIG:
        _RIG["rig"] = Rig({}).start()


# ------------------------------------------------------------------------------------------------
# generation
def _kw(rng):
    n = rng.choice([0, 1, 1, 2])
    keys = sorted(rng.sample(range(4), n))
    out = []
    for k in keys:
        out += [k, rng.choice([0, 1, 7, -3, 42])]
    return out


def _ms(rng, grid, allow_zero=True):
    if grid:
        c = [125, 250, 250, 375, 500, 500, 1000, 1500]
        if allow_zero:
            c += [0, 0]
        return rng.choice(c)
    c = [rng.randint(100, 1500), rng.randint(100, 600), 333, 1001]
    if allow_zero:
        c += [0, 1, rng.randint(1, 99)]
    return rng.choice(c)


def _op(rng, grid, nscripts, inside=None):
    """inside = index of the script the op is part of (None: external)."""
    r = rng.random()
    name = rng.choice([0, 0, 1, 1, 2])
    if r < 0.45:
        kind = rng.choice(["add", "add", "add", "addif", "reset"])
        anon = rng.random() < 0.12
        # termination: a script may reference itself or an earlier script only through a named delay of >= 100 ms
        if inside is None:
            cb = rng.choice([-1] + list(range(nscripts)) * 2) if nscripts else -1
            ms = _ms(rng, grid)
        else:
            later = [j for j in range(inside + 1, nscripts)]
            if anon or rng.random() < 0.5:
                cb = rng.choice([-1] + later * 2)
                ms = _ms(rng, grid)
            else:
                cb = rng.choice(list(range(nscripts)))
                ms = _ms(rng, grid, allow_zero=False)
        return [kind, ms, -1 if anon else name, cb, _kw(rng)]
    if r < 0.60:
        return ["remove", name]
    if r < 0.66:
        return ["clear"]
    if r < 0.82:
        return ["run_now", name]
    return ["check", name]


def gen_delay(rng, tier, i):
    grid = rng.random() < 0.7
    ns = rng.choice([0, 1, 2, 3, 4])
    scripts = [[_op(rng, grid, ns, inside=j) for _ in range(rng.choice([0, 1, 1, 2, 3]))] for j in range(ns)]
    steps = []
    t = 0
    for _ in range(rng.choice([1, 2, 3, 4, 5, 6])):
        ops = [_op(rng, grid, ns) for _ in range(rng.choice([1, 1, 2, 3, 4]))]
        steps.append([t, ops])
        if grid:
            t += rng.choice([0, 125, 125, 250, 250, 375, 500, 500, 1000, 2000]) * 1000
        else:
            t += rng.choice([0, rng.randint(1, 2000) * 1000, rng.randint(1, 2000000), 333000, 1001000])
    end = t + (rng.choice([0, 125, 500, 1000, 3000]) * 1000 if grid else rng.randint(0, 3000000))
    return {"grid": grid, "scripts": scripts, "steps": steps, "end": end}


# ------------------------------------------------------------------------------------------------
# implementation side
class _Run:
    pass


def _pairs(kw):
    return [(kw[i], kw[i + 1]) for i in range(0, len(kw), 2)]


def _align(rig, loop):
    """move the virtual clock to an integer second (exact float arithmetic on the 1/8 s grid)"""
    t0 = float(math.floor(loop.time()) + 2)
    rig.advance(t0 - loop.time())
    if loop.time() != t0:
        assert abs(loop.time() - t0) < 1e-6
        loop.set_time(t0)
    return t0


def run_delay(case):
    from mpf.core.delays import DelayManager
    rig = _RIG["rig"]
    loop = rig.machine.clock.loop
    dm = DelayManager(rig.machine)
    S = _Run()
    S.next, S.depth, S.handles, S.live, S.codes, S.log, S.steps = 0, 0, {}, set(), {}, [], []
    S.dead = False    # set at the end of the case / on runaway: closures of this case become no-ops
    t0 = _align(rig, loop)

    def now():
        return int(round((loop.time() - t0) * 1e6))

    def vis():
        return sum(1 for e in S.log if e[0] in VISIBLE) if len(S.log) > MAXLOG else 0

    def scan_kills():
        for u in sorted(S.live):
            if S.handles[u].cancelled():
                S.live.discard(u)
                S.log.append(["kill", u])

    def truth(name):
        for h in list(loop._scheduled) + list(loop._ready):
            cb = getattr(h, "_callback", None)
            if h._cancelled or not isinstance(cb, functools.partial):
                continue
            f = cb.func
            if getattr(f, "__self__", None) is dm and getattr(f, "__name__", "") == "_process_delay_callback" \
                    and cb.args and cb.args[0] == name:
                return True
        return False

    def make_cb(u, cbid):
        def cb(**kwargs):
            if S.dead:
                return
            if len(S.log) > MAXEV and vis() > MAXEV:
                S.dead = True
                S.log.append(["runaway"])
                return
            scan_kills()
            h = S.handles[u]
            rn = bool(h.cancelled())
            if not rn:
                S.live.discard(u)
                if S.depth == 0:
                    S.steps.append(["fire", u])
            kw = []
            for k, v in sorted((int(k[1:]), v) for k, v in kwargs.items()):
                kw += [k, v]
            S.log.append(["call", now(), u, cbid, kw, rn])
            if S.depth >= MAXD or vis() > MAXLOG:
                S.log.append(["oof"])
                return
            S.depth += 1
            try:
                for o in (case["scripts"][cbid] if cbid >= 0 else []):
                    do(o)
            finally:
                S.depth -= 1
        return cb

    def do(o):
        k = o[0]
        if S.dead:
            return
        if k in ("add", "addif", "reset"):
            _, ms, n, cbid, kw = o
            S.log.append(["op", k, n])
            u = S.next
            S.next += 1
            name = NAMES[n] if n >= 0 else None
            kwargs = {"k%d" % a: b for a, b in _pairs(kw)}
            before = dict(dm.delays)
            meth = {"add": dm.add, "addif": dm.add_if_doesnt_exist, "reset": dm.reset}[k]
            ret = meth(ms, make_cb(u, cbid), name, **kwargs)
            ent = dm.delays.get(ret)
            scan_kills()
            if ent is not None and ent is not before.get(ret):
                S.handles[u] = ent[0]
                S.live.add(u)
                code = n if n >= 0 else -1 - u
                S.codes[ret] = code
                S.log.append(["add", now(), u, code, ms, cbid, kw])
        elif k == "remove":
            S.log.append(["op", k, o[1]])
            dm.remove(NAMES[o[1]])
            scan_kills()
        elif k == "clear":
            S.log.append(["op", k, -1])
            dm.clear()
            scan_kills()
        elif k == "run_now":
            S.log.append(["op", k, o[1]])
            dm.run_now(NAMES[o[1]])
            scan_kills()
        elif k == "check":
            S.log.append(["op", k, o[1]])
            S.log.append(["check", o[1], bool(dm.check(NAMES[o[1]])), truth(NAMES[o[1]])])
        S.log.append(["opend"])

    try:
        for t, ops in case["steps"] + [[case["end"], []]]:
            d = t0 + t / 1e6 - loop.time()
            rig.advance(d if d > 0 else 0)
            S.log.append(["ext", t, now()])
            S.steps.append(["ext", t, ops])
            for o in ops:
                do(o)
            S.log.append(["dict", [S.codes.get(k, 999) for k in dm.delays.keys()]])
    finally:
        S.dead = True
        dm.clear()
    if rig.exception():
        return {"log": S.log, "steps": S.steps, "exc": repr(rig.exception())[:300]}
    return {"log": S.log, "steps": S.steps}


# ------------------------------------------------------------------------------------------------
# Coq printers
def _cop(o):
    k = o[0]
    if k in ("add", "addif", "reset"):
        c = {"add": "Add", "addif": "AddIfNot", "reset": "Reset"}[k]
        return "(%s %s %s %s %s)" % (c, zlit(o[1]), zlit(o[2]), zlit(o[3]), zlist(o[4]))
    if k == "remove":
        return "(Remove %s)" % zlit(o[1])
    if k == "clear":
        return "Clear"
    if k == "run_now":
        return "(RunNow %s)" % zlit(o[1])
    return "(Check %s)" % zlit(o[1])


def _cev(e):
    k = e[0]
    if k == "add":
        return "(EAdd %s %s %s %s %s %s)" % (zlit(e[1]), zlit(e[2]), zlit(e[3]), zlit(e[4]), zlit(e[5]), zlist(e[6]))
    if k == "kill":
        return "(EKill %s)" % zlit(e[1])
    if k == "call":
        return "(ECall %s %s %s %s %s)" % (zlit(e[1]), zlit(e[2]), zlit(e[3]), zlist(e[4]), blit(e[5]))
    if k == "check":
        return "(ECheck %s %s %s)" % (zlit(e[1]), blit(e[2]), blit(e[3]))
    if k == "dict":
        return "(EDict %s)" % zlist(e[1])
    if k == "oof":
        return "EOof"
    raise ValueError(k)


def coq_delay(case, out):
    if "exc" in out or ["runaway"] in out["log"][-3:] or any(e[0] == "runaway" for e in out["log"]):
        return None
    scripts = coqlist(coqlist(_cop(o) for o in s) for s in case["scripts"])
    steps = coqlist(("(Ext %s %s)" % (zlit(s[1]), coqlist(_cop(o) for o in s[2]))) if s[0] == "ext"
                    else "(Fire %s)" % zlit(s[1]) for s in out["steps"])
    evs = coqlist(_cev(e) for e in out["log"] if e[0] not in ("op", "opend", "ext"))
    return "((%s, %s), %s)" % (scripts, steps, evs)


# ------------------------------------------------------------------------------------------------
# oracle: the property's own predicate, evaluated on the implementation's event log
def oracle_delay(case, out):
    fails = []

    def fail(sig, what):
        if not any(f["sig"] == sig for f in fails):
            fails.append({"sig": sig, "what": what})

    if "exc" in out:
        fail("exception", "the machine recorded an exception: " + out["exc"])
    live = {}            # name code -> [u, when, cb, kw]
    expect_rn = None     # a run_now on a pending delay must be followed by exactly this call
    cur_op = None
    no_add = False
    tnow = 0
    for e in out["log"]:
        k = e[0]
        if k == "runaway":
            fail("runaway", "more than %d events in one case: callbacks keep firing" % MAXEV)
            return fails
        if k == "ext":
            if e[1] != e[2]:
                fail("clock", "virtual clock at %d, wanted %d" % (e[2], e[1]))
            tnow = e[1]
            for n, x in live.items():
                if x[1] < tnow:
                    fail("missed-deadline", "delay %r (id %d) due at %d had not fired by %d" % (n, x[0], x[1], tnow))
        elif k == "op":
            if expect_rn is not None:
                fail("run-now-no-call", "run_now did not call the pending callback")
                expect_rn = None
            cur_op, n = e[1], e[2]
            no_add = False
            if cur_op in ("add", "reset", "addif") and n < 0:
                pass                                  # name=None: a fresh uuid name, touches nothing
            elif cur_op in ("add", "reset"):
                live.pop(n, None)
            elif cur_op == "addif":
                no_add = n in live
            elif cur_op == "remove":
                live.pop(n, None)
            elif cur_op == "clear":
                live.clear()
            elif cur_op == "run_now":
                if n in live:
                    expect_rn = live.pop(n)
        elif k == "add":
            if no_add:
                fail("addif-replaced", "add_if_doesnt_exist scheduled although the name was pending")
            live[e[3]] = [e[2], e[1] + 1000 * e[4], e[5], e[6]]
        elif k == "call":
            _, t, u, cb, kw, rn = e
            if expect_rn is not None:
                x, expect_rn = expect_rn, None
                if u != x[0] or not rn:
                    fail("run-now-wrong-call", "run_now ran id %d (cancelled=%s), pending was id %d" % (u, rn, x[0]))
                elif kw != x[3]:
                    if kw == [] and x[3] != []:
                        fail("run-now-kwargs-dropped", "run_now called the callback without the stored kwargs %r" % (x[3],))
                    else:
                        fail("run-now-kwargs", "run_now passed %r, stored %r" % (kw, x[3]))
            else:
                hit = [n for n, x in live.items() if x[0] == u]
                if not hit:
                    fail("fired-not-pending", "callback id %d ran at %d although it was removed/replaced/cleared/"
                                              "already run" % (u, t))
                else:
                    x = live.pop(hit[0])
                    if t != x[1]:
                        fail("wrong-time", "id %d ran at %d, promised %d" % (u, t, x[1]))
                    if kw != x[3]:
                        fail("wrong-kwargs", "id %d ran with %r, stored %r" % (u, kw, x[3]))
                    if rn:
                        fail("fired-cancelled", "id %d ran from a cancelled handle" % u)
        elif k == "check":
            want = e[1] in live
            if e[2] != want:
                fail("check-untruthful", "check(%r) = %s, a pending delay %s" % (e[1], e[2], "exists" if want else "does not exist"))
            if e[3] != want:
                fail("handle-mismatch", "loop has %s live handle for %r, spec says %s" % ("a" if e[3] else "no", e[1], want))
        elif k == "dict":
            names = sorted(e[1])
            if names != sorted(live.keys()):
                fail("dict-mismatch", "DelayManager.delays has %r, pending per spec %r" % (names, sorted(live.keys())))
    if expect_rn is not None:
        fail("run-now-no-call", "run_now did not call the pending callback")
    return fails


def _shrink_ops(ops):
    for i in range(len(ops)):
        yield ops[:i] + ops[i + 1:]
    for i, o in enumerate(ops):
        if o[0] in ("add", "addif", "reset"):
            if o[3] != -1:
                yield ops[:i] + [[o[0], o[1], o[2], -1, o[4]]] + ops[i + 1:]
            if len(o[4]) > 2:
                yield ops[:i] + [[o[0], o[1], o[2], o[3], o[4][:2]]] + ops[i + 1:]


def shrink_delay(case):
    st = case["steps"]
    for i in range(len(st)):
        if len(st) > 1:
            yield dict(case, steps=st[:i] + st[i + 1:])
    for i in range(len(st)):
        for ops in _shrink_ops(st[i][1]):
            yield dict(case, steps=st[:i] + [[st[i][0], ops]] + st[i + 1:])
    sc = case["scripts"]
    for j in range(len(sc)):
        for ops in _shrink_ops(sc[j]):
            yield dict(case, scripts=sc[:j] + [ops] + sc[j + 1:])


def nontrivial_delay(case, out):
    log = out.get("log", [])
    calls = sum(1 for e in log if e[0] == "call")
    kills = sum(1 for e in log if e[0] == "kill")
    nested = any(e[0] == "call" and e[5] for e in log)
    return calls >= 1 and (kills >= 1 or nested)


def describe_delay(case):
    out = []
    for _, ops in case["steps"]:
        for o in ops:
            out.append(o[0])
    for s in case["scripts"]:
        for o in s:
            out.append("cb:" + o[0])
    kinds = sorted(set(out))
    return ("grid " if case["grid"] else "ms ") + ("reentrant" if any(k.startswith("cb:") for k in kinds) else "flat")


# ------------------------------------------------------------------------------------------------
# PeriodicTask
def gen_periodic(rng, tier, i):
    grid = rng.random() < 0.6
    if grid:
        ival = rng.choice([125, 250, 500, 1000]) * 1000
    else:
        ival = rng.choice([rng.randint(20, 900) * 1000, 100000, 333000, 16667])
    n = rng.choice([0, 1, 2, 3, 5, 8, 13, 40])
    # cancel exactly on a deadline, or somewhere in the second half of an interval (late wake-ups stay below ival/3)
    r = rng.random()
    if r < 0.4:
        cancel = n * ival
    elif r < 0.8:
        cancel = n * ival + rng.choice([ival // 2, ival - 1, ival // 2 + 1])
    else:
        cancel = None
    horizon = (cancel if cancel is not None else n * ival) + rng.choice([0, ival, 2 * ival + ival // 2, 5 * ival])
    lates = rng.choice([[0], [0], [ival // 4], [0, ival // 3, 1, ival // 8], [ival // 8, 0, 0]])
    if cancel is not None and cancel % ival == 0 and not rng.random() < 0.5:
        tick_first = False
    else:
        tick_first = True
    return {"ival": ival, "cancel": cancel, "horizon": horizon, "lates": lates, "grid": grid, "tick_first": tick_first}


class _LateLoop:
    """The two methods PeriodicTask needs from a loop, on a scheduler that may wake up late: a handle with deadline
    `when` runs at `when + late` (late >= 0 taken from the case), so that _run sees time() > deadline."""

    def __init__(self, t0):
        self.t = t0
        self.h = []

    def time(self):
        return self.t

    def call_at(self, when, cb, *args):
        self.h.append((when, cb))


def run_periodic(case):
    from mpf.core.clock import PeriodicTask
    t0 = 1000.0
    loop = _LateLoop(t0)
    ival = case["ival"]
    lates = case["lates"]
    calls, order, cur = [], [], [None]

    def us(x):
        return int(round((x - t0) * 1e6))

    def cb():
        calls.append(us(cur[0]))

    pt = PeriodicTask(ival / 1e6, loop, cb)

    def run_until(t_us, inclusive):
        n = 0
        while loop.h and n < 10000:
            when, f = min(loop.h, key=lambda x: x[0])
            w = us(when)
            if w > t_us or (w == t_us and not inclusive):
                break
            loop.h.remove((when, f))
            loop.t = max(loop.t, when + lates[len(order) % len(lates)] / 1e6)
            cur[0] = when
            order.append("run")
            n += 1
            f()

    if case["cancel"] is not None:
        run_until(case["cancel"], case["tick_first"])
        loop.t = max(loop.t, t0 + case["cancel"] / 1e6)
        order.append("cancel")
        pt.cancel()
    run_until(case["horizon"], True)
    loop.t = max(loop.t, t0 + case["horizon"] / 1e6)
    order.append("at")
    nxt = us(pt.get_next_call_time())
    pt.cancel()
    return {"calls": calls, "order": order, "next": nxt, "pending": sorted(us(w) for w, _ in loop.h)}


def coq_periodic(case, out):
    steps = []
    for o in out["order"]:
        if o == "run":
            steps.append("PRun")
        elif o == "cancel":
            steps.append("(PCancel %s)" % zlit(case["cancel"]))
        else:
            steps.append("(PAt %s)" % zlit(case["horizon"]))
    exp = "(%s, %s)" % (coqlist("(PCalled %s)" % zlit(t) for t in out["calls"]), zlit(out["next"]))
    return "((0, %s, %s), %s)" % (zlit(case["ival"]), coqlist(steps), exp)


def oracle_periodic(case, out):
    fails = []
    ival = case["ival"]
    calls = out["calls"]
    for k, t in enumerate(calls):
        if t != (k + 1) * ival:
            fails.append({"sig": "periodic-drift", "what": "tick %d at %d us, expected %d" % (k + 1, t, (k + 1) * ival)})
            break
    cancelled = case["cancel"] is not None
    stop = case["cancel"] if cancelled else case["horizon"]
    lo = (stop - 1) // ival if stop > 0 else 0      # ticks strictly before `stop` must have happened
    hi = stop // ival                               # ticks after `stop` must not (a tick exactly at `stop` may go either way)
    if len(calls) < lo:
        fails.append({"sig": "periodic-missed", "what": "%d ticks by %d, interval %d" % (len(calls), stop, ival)})
    if len(calls) > hi:
        fails.append({"sig": "periodic-after-cancel" if cancelled else "periodic-extra",
                      "what": "%d ticks, %s at %d, interval %d" % (len(calls), "cancelled" if cancelled else "looked", stop, ival)})
    return fails


def shrink_periodic(case):
    if case["lates"] != [0]:
        yield dict(case, lates=[0])
    if case["cancel"] is not None and case["cancel"] >= case["ival"]:
        yield dict(case, cancel=case["cancel"] - case["ival"], horizon=case["horizon"] - case["ival"])
    if case["horizon"] - case["ival"] >= (case["cancel"] or 0):
        yield dict(case, horizon=case["horizon"] - case["ival"])


HDR_DELAY = "From C13 Require Import Model.\nDefinition run := delay_run.\nDefinition out_eqb := delay_out_eqb.\n"
HDR_PERIODIC = "From C13 Require Import Model.\nDefinition run := periodic_run.\nDefinition out_eqb := periodic_out_eqb.\n"

SUITES = [
    Suite("delay", gen_delay, run_delay, HDR_DELAY, coq_delay, oracle_delay, shrink_delay, nontrivial_delay,
          {"quick": 4000, "thorough": 120000}, worker_init=_init_rig, shard=250, describe=describe_delay),
    Suite("periodic", gen_periodic, run_periodic, HDR_PERIODIC, coq_periodic, oracle_periodic, shrink_periodic,
          lambda c, o: len(o.get("calls", [])) >= 2, {"quick": 1000, "thorough": 30000},
          shard=500, describe=lambda c: ("grid" if c["grid"] else "ms") + (" late" if c["lates"] != [0] else "") +
          (" nocancel" if c["cancel"] is None else " cancel@deadline" if c["cancel"] % c["ival"] == 0 else " cancel")),
]

LEVEL_TEXT = ("Machine-checked proof (Coq) over an executable model of DelayManager on a model of the loop's timer handles: "
              "for every history of add/add_if_doesnt_exist/reset/remove/clear/run_now/check calls, including calls made "
              "from inside delay callbacks, and every legal firing order, each callback run is justified by exactly one "
              "add (same callback, same kwargs, at exactly add time + ms unless run by run_now), runs at most once, never "
              "after its handle was cancelled; every added delay whose deadline has passed was run or cancelled; check() "
              "equals the existence of a live handle; PeriodicTask ticks at t0+k*interval exactly and never after cancel. "
              "The model is tied to the working tree by running both on the same generated histories on every run.")
LEVEL_NOTE = ("Trusted: Coq kernel + vm_compute; no axioms. Model hand-written; correspondence validates it against the "
              "working tree (real DelayManager/PeriodicTask on mpf's TimeTravelLoop); asyncio's handle semantics "
              "(a cancelled handle never runs, due handles run no earlier than their deadline) are modelled as the "
              "acceptance conditions of Fire/Ext steps and validated on every run. The timer device is not covered.")
TECHNIQUE = "Coq proof over hand-written executable model + differential correspondence (vm_compute) + direct spec oracle"
DESIGN_REF = "DESIGN.md section 3, C13"
