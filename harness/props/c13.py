"""C13 — Delays and periodic timers fire exactly when promised, or never.

Suites
  delay    : DelayManager on a booted machine (virtual clock).  A case is a table of callback scripts plus a list
             of external steps (time, ops).  Callbacks are harness closures that record (time, id, kwargs) and then
             run their script re-entrantly on the same manager.  The loop's order of firing is observed and handed
             to the model as `Fire u` steps (the model accepts a Fire only if it is a legal choice).
             30 % of the cases run on a loop that dispatches late (LateLoop: jitter of ms up to jumps past several
             deadlines; `FireAt u t` steps; calls compared by their scheduled-for instant), with negative durations.
  periodic : the real PeriodicTask class on a minimal scheduler that wakes up late (time() > deadline inside _run,
             up to 4 intervals late: catch-up), cancel at/around deadlines and while ticks are overdue.
  timer    : real timer devices of a real mode (6 configurations), driven by control events on the 125 ms grid;
             model coq/C13/Timer.v; expiries of the system timer / pause delay observed and validated.
  modestop : Mode.delay through a real mode's lifecycle (ops with callback scripts before the stop, in
             mode_<m>_stopping/_stopped handlers, during a held stopping queue, after restarts, second stops; DELAYED
             control events of a real counter of the mode); model
             coq/C13/Owner.v (lifecycle flags + the DelayManager model), lifecycle calls observed and validated.
"""
import functools
import math

from vlib import Suite, zlit, zlist, coqlist, blit

ID = "C13"
READY = True
RULE = ("delay: 1-6 external steps of 1-4 DelayManager ops (add/add_if_doesnt_exist/reset/remove/clear/run_now/check) on "
        "names {a,b,c,None, generated names returned by earlier anonymous adds and kept by the client (-2-k: the name returned "
        "by add-like call k; 30 % of the cases are stale-name cases: half of the adds anonymous, 40 % of the names used are "
        "kept generated names, stale after fire/remove/clear or not, more clears)}, durations on the 125 ms grid (incl. 0) or arbitrary ms, callbacks with kwargs that run scripts "
        "of further ops re-entrantly (re-add own name, remove/run_now others, self-rescheduling chains); external steps "
        "are placed on deadlines half of the time; non-trivial = at least one callback ran and at least one handle was "
        "cancelled or one op executed inside a callback.  periodic: interval/t0/cancel time incl. cancel exactly on a "
        "deadline (both orders) and a scheduler that wakes up late; non-trivial = at least 2 ticks.  timer: one of 6 timer "
        "configurations (up/down, end/no end, max, restart_on_complete), 2-10 control events (start/stop/pause with and "
        "without duration/add/subtract/jump/reset/restart/interval changes) 0-1500 ms apart on the 125 ms grid, so that "
        "commands land on tick instants and pause expiries; non-trivial = at least one tick and 3 commands.  modestop: "
        "0-2 external steps of 1-3 ops on mode.delay before the stop, 0-2 ops in each of the stopping/stopped handlers "
        "(registered through the mode or the machine), optional held stopping queue with ops in the window, second stop "
        "request while stopping / when idle, optional restart (from the mode_stopped handler or 125 ms later) with ops that "
        "re-add the same names and an optional second stop, callback scripts as in `delay`; non-trivial = at least one add "
        "and an effective stop; a 500 ms delayed control event of the mode's counter before the stop / in the held window / "
        "when idle / after the restart (25 % each); 30 % of the modestop cases are stale-name cases (generated names kept across "
        "stop / wind-up / restart and used next to the new anonymous delays of the next run).  delay, 30 %: late loop (lateness 0 / 1-7 ms / 125 ms-1 s per wake-up), 40 % of those with "
        "negative durations in external adds; 7 % of script ops and 2 % of external ops raise (half KeyError).  periodic: "
        "lateness up to 4 intervals (catch-up), cancel while overdue.  timer: 25 % on the late loop")
TRUSTED_BASE = [
    "Coq 8.16.1 kernel (coqc), vm_compute for evaluating the model in the correspondence run and for the refutation witness; no native_compute",
    "axioms: none (every Print Assumptions is 'Closed under the global context')",
    "hand-written model coq/C13/Model.v tied to the working tree by correspondence: harness/props/c13.py runs the real "
    "DelayManager on mpf's TimeTravelLoop and on a late-dispatching subclass of it defined in the harness (PeriodicTask "
    "on a minimal late-waking scheduler) and the model on the same histories; the loop's choice among due handles and "
    "its dispatch instants are observed and validated by the model, not predicted",
    "coq/C13/Owner.v (mode lifecycle) tied to mpf/core/mode.py through class-level recording wrappers around "
    "Mode.start/_started/stop/_stopped/_mode_stopped_callback and DelayManager.clear installed by the harness in its "
    "worker processes: which lifecycle call happens when is observed, its effect on flags/table/handles is predicted",
    "CPython asyncio (BaseEventLoop._run_once, TimerHandle.cancel) and mpf/tests/loop.py TimeTravelLoop as the scheduler "
    "the handles run on; observation of handle state through TimerHandle.cancelled() and loop._scheduled/_ready",
    "the Python oracle in harness/props/c13.py (spec pass over the implementation's own event log)",
    "returned names: the recorder maps every string the manager returned or was given to the code of its FIRST occurrence "
    "and resolves a kept generated name of a case to the string the manager really returned for that call; the model "
    "writes the name generated by the add with id u as gen_name u = -2-u",
]
ASSUMPTIONS = [
    "durations are integers of milliseconds (negative ones only in external adds on the late loop); instants are exact "
    "(1/8 s grid) or compared after rounding to microseconds; lateness values are whole microseconds",
    "a client cannot know a generated name before add() has returned it (uuid4 is not guessable): an add-like call with a "
    "not yet handed-out generated name is not a possible call (no-op in model and harness); names_never_reused is stated "
    "for histories whose add-like calls pass client names or None, stale_name_noop_forever excludes only the client "
    "passing the stale name itself to an add-like call",
    "harness callbacks raise only where the case says so (a private exception class or KeyError); nesting depth of run_now "
    "inside callbacks is cut at 6 (harness and model alike)",
    "late dispatch: within one wake-up asyncio runs the due handles in deadline order (the acceptance condition of FireAt; "
    "validated on every run), time does not pass inside a callback",
    "timer device: no player variables / placeholders in values, tick intervals are multiples of 1/32 s, restart_on_complete "
    "only with a start value that is not final (cfg_ok; otherwise the code recurses forever); ticks_remaining is not compared",
    "timer suite: which of the two pause() variants the tree contains is decided by a behavioural probe at worker start "
    "(c_legacy in Timer.v); timer_quiet_after_pause_or_stop holds for the patched variant only",
    "mode ownership: the stop callbacks of Mode.stop(callback=..) are empty, the mode is not a game mode, the machine is "
    "not shutting down; delayed device control events are generated through one real device (a counter of the mode with a "
    "500 ms count event, its handlers called synchronously by the harness), other mode devices' own delays are not "
    "(the timer device's private manager is modelled in Timer.v as an instance of the delay model); timer suite on the "
    "late loop: the outside acts only after the loop has caught up with overdue ticks and delivered the posted events",
]

NAMES = ["a", "b", "c"]
MAXD = 6
MAXLOG = 1500     # callbacks stop running their scripts once the (model-visible) log is longer than this
MAXEV = 3000      # runaway guard: a case whose visible log grows beyond this is cut (and reported by the oracle)
VISIBLE = ("add", "kill", "call", "check", "dict", "oof", "cleared", "mode", "raise", "caught")
_RIG = {}


def _init_rig():
    import logging
    logging.disable(logging.CRITICAL)
    from rig import Rig
    if "rig" not in _RIG:
        _RIG["rig"] = Rig({}).start()


# ------------------------------------------------------------------------------------------------
# generation
def _kw(rng):
    n = rng.choice([0, 1, 1, 2])
    keys = sorted(rng.sample(range(4), n))
    out = []
    for k in keys:
        out += [k, rng.choice([0, 1, 7, -3, 42])]
    return out


def _ms(rng, grid, allow_zero=True):
    if grid:
        c = [125, 250, 250, 375, 500, 500, 1000, 1500]
        if allow_zero:
            c += [0, 0]
        return rng.choice(c)
    c = [rng.randint(100, 1500), rng.randint(100, 600), 333, 1001]
    if allow_zero:
        c += [0, 1, rng.randint(1, 99)]
    return rng.choice(c)


def _ref(rng):
    """a generated name kept by the client: the name returned by the (anonymous) add-like call with id k, written -2-k
    (the model's gen_name k).  Ids count the add-like calls of a case in execution order, so small k hit real calls."""
    return -2 - rng.choice([0, 0, 1, 1, 2, 3, 4, 6])


def _op(rng, grid, nscripts, inside=None, stale=False):
    """inside = index of the script the op is part of (None: external).  stale: a case about returned names: half of the
    adds are anonymous, a third of the names used are generated names the client kept (whatever has become of them)."""
    r = rng.random()
    name = rng.choice([0, 0, 1, 1, 2])
    if stale and rng.random() < 0.4:
        name = _ref(rng)
    if rng.random() < (0.07 if inside is not None else 0.02):
        return ["raise", rng.choice([0, 1])]       # the callback / the caller raises (1: a KeyError)
    if r < 0.45:
        kind = rng.choice(["add", "add", "add", "addif", "reset"])
        anon = rng.random() < (0.5 if stale else 0.12)
        if name < 0 and not anon and rng.random() < 0.5:
            name = rng.choice([0, 1, 2])           # explicit re-use of a kept generated name in add-like calls: rarer
        # termination: a script may reference itself or an earlier script only through a named delay of >= 100 ms
        if inside is None:
            cb = rng.choice([-1] + list(range(nscripts)) * 2) if nscripts else -1
            ms = _ms(rng, grid)
        else:
            later = [j for j in range(inside + 1, nscripts)]
            if anon or name < 0 or rng.random() < 0.5:
                cb = rng.choice([-1] + later * 2)
                ms = _ms(rng, grid)
            else:
                cb = rng.choice(list(range(nscripts)))
                ms = _ms(rng, grid, allow_zero=False)
        return [kind, ms, -1 if anon else name, cb, _kw(rng)]
    if r < 0.60:
        return ["remove", name]
    if r < (0.72 if stale else 0.66):
        return ["clear"]
    if r < 0.84:
        return ["run_now", name]
    return ["check", name]


def gen_delay(rng, tier, i):
    grid = rng.random() < 0.7
    stale = rng.random() < 0.3
    ns = rng.choice([0, 1, 2, 3, 4])
    scripts = [[_op(rng, grid, ns, inside=j, stale=stale) for _ in range(rng.choice([0, 1, 1, 2, 3]))] for j in range(ns)]
    steps = []
    t = 0
    for _ in range(rng.choice([1, 2, 3, 4, 5, 6])):
        ops = [_op(rng, grid, ns, stale=stale) for _ in range(rng.choice([1, 1, 2, 3, 4]))]
        steps.append([t, ops])
        if grid:
            t += rng.choice([0, 125, 125, 250, 250, 375, 500, 500, 1000, 2000]) * 1000
        else:
            t += rng.choice([0, rng.randint(1, 2000) * 1000, rng.randint(1, 2000000), 333000, 1001000])
    end = t + (rng.choice([0, 125, 500, 1000, 3000]) * 1000 if grid else rng.randint(0, 3000000))
    case = {"grid": grid, "scripts": scripts, "steps": steps, "end": end}
    if stale:
        case["stale"] = True
    if rng.random() < 0.3:
        # a loop that wakes up late: lateness (whole us) of its successive wake-ups, from jitter of a few ms to jumps past
        # several deadlines at once; on such a loop also negative durations (external adds only: due at once)
        case["late"] = [rng.choice([0, 0, 1000, 3000, 7000, 125000, 250000, 400000, 1000000, rng.randint(1, 600000)])
                        for _ in range(rng.choice([1, 2, 3, 5]))]
        if rng.random() < 0.4:
            for _, ops in steps:
                for o in ops:
                    if o[0] in ("add", "addif", "reset") and rng.random() < 0.4:
                        o[1] = rng.choice([-1, -50, -500, -125])
    return case


# ------------------------------------------------------------------------------------------------
# implementation side
class _Run:
    pass


def _pairs(kw):
    return [(kw[i], kw[i + 1]) for i in range(0, len(kw), 2)]


def _align(rig, loop):
    """move the virtual clock to an integer second (exact float arithmetic on the 1/8 s grid)"""
    t0 = float(math.floor(loop.time()) + 2)
    rig.advance(t0 - loop.time())
    if loop.time() != t0:
        assert abs(loop.time() - t0) < 1e-6
        loop.set_time(t0)
    return t0


_HOOKS = {}      # id(DelayManager) -> callable run after that manager's clear() has returned


def _patch_clear():
    """DelayManager.clear is wrapped at class level (the class has __slots__): after the original has returned the
    recorder of the manager under test notes the kills and the `cleared` marker (EClear in the model).  The wrapper runs
    in the forked worker only."""
    from mpf.core.delays import DelayManager
    if getattr(DelayManager.clear, "_c13", False):
        return
    orig = DelayManager.clear

    def clear(self):
        r = orig(self)
        h = _HOOKS.get(id(self))
        if h is not None:
            h()
        return r
    clear._c13 = True
    DelayManager.clear = clear


_LATE = {"seq": [], "i": 0}


def _late_loop_class():
    """TimeTravelLoop dispatches exactly at the earliest deadline.  This subclass wakes up late: when it has nothing
    ready it moves the clock to the earliest deadline PLUS the next lateness of the case (several deadlines may then be
    due at once; all lateness values are whole microseconds) and never moves the clock backwards."""
    if "cls" in _LATE:
        return _LATE["cls"]
    from asyncio import base_events
    from mpf.tests.loop import TimeTravelLoop

    class LateLoop(TimeTravelLoop):
        __slots__ = ()

        def _run_once(self):
            if len(self._ready) == 0 and not self._timers.is_empty():
                nxt = self._timers.pop_closest()
                seq = _LATE["seq"]
                late = seq[_LATE["i"] % len(seq)] if seq else 0
                _LATE["i"] += 1
                self._time = max(self._time, nxt + late / 1e6)
                base_events.BaseEventLoop._run_once(self)
            else:
                TimeTravelLoop._run_once(self)
    _LATE["cls"] = LateLoop
    return LateLoop


class _Boom(Exception):
    """what a test callback raises (kind 0); kind 1 raises KeyError, which run_now swallows"""


class _Rec:
    """Recorder around one DelayManager: performs the ops of a case on it, with harness closures as callbacks that
    record (scheduled-for instant, id, kwargs, handle.cancelled()) and then run their script re-entrantly."""

    def __init__(self, dm, loop, t0, scripts):
        self.dm, self.loop, self.t0, self.scripts = dm, loop, t0, scripts
        self.next, self.depth, self.handles, self.live, self.names, self.log, self.steps = 0, 0, {}, set(), {}, [], []
        self.in_run_now = 0
        self.gen = {}        # id of an anonymous add-like call -> the name (string) the manager returned for it
        for i, nm in enumerate(NAMES):
            self.names[nm] = i
        self.dead = False    # set at the end of the case / on runaway: closures of this case become no-ops
        self.raising = None  # kind of the harness exception that is propagating
        self.exc = None
        _HOOKS[id(dm)] = self._cleared
        self._old_handler = loop.get_exception_handler()
        loop.set_exception_handler(self._loop_handler)

    def close(self):
        self.dead = True
        _HOOKS.pop(id(self.dm), None)
        self.loop.set_exception_handler(self._old_handler)

    def _loop_handler(self, loop, context):
        # the loop's exception handler: an exception raised by a test callback that the loop ran ends here
        if self.raising is not None and isinstance(context.get("exception"), (_Boom, KeyError)):
            self.raising = None
            self.log.append(["caught", 0])
        elif self._old_handler is not None:
            self._old_handler(loop, context)
        else:
            self.exc = repr(context.get("exception"))[:300]

    def ctl(self, machine, event, ms):
        """a delayed device control event arrives: the handlers registered for it run now (normally Mode.
        _control_event_handler, which adds an anonymous delay); which manager got a new delay is observed"""
        S, dm = self, self.dm
        S.log.append(["ext", S.now(), S.now()])
        S.steps.append(["ctl", S.now(), ms])
        before = set(dm.delays)
        other = len(machine.delay.delays)
        for h in list(machine.events.registered_handlers.get(event, [])):
            h.callback(**h.kwargs)
        new = [k for k in dm.delays if k not in before]
        if len(machine.delay.delays) != other:
            S.log.append(["foreign", "machine.delay"])
        for k in new:
            S.log.append(["op", "add", -1])
            u = S.next
            S.next += 1
            S.handles[u] = dm.delays[k][0]
            S.live.add(u)
            S.log.append(["ret", u, True, k not in S.names, True])
            code = S.names.setdefault(k, -2 - u)
            S.gen[u] = k
            S.pending_ctl = getattr(S, "pending_ctl", []) + [u]
            S.log.append(["add", S.now(), u, code, ms, -2, []])
            S.log.append(["opend"])
        S.dict_event()

    def ctl_called(self):
        S = self
        pend = getattr(S, "pending_ctl", [])
        was_live = [u for u in pend if u in S.live]
        S.scan_kills()
        cand = [u for u in pend if u in S.live]
        if not cand:
            killed_now = [u for u in was_live if u not in S.live]
            if killed_now and S.in_run_now:
                # run_now(<the generated name of the control event's delay>): remove() has cancelled the handle, the device
                # method is called directly
                u = killed_now[-1]
                S.pending_ctl.remove(u)
                S.log.append(["call", S.now(), u, -2, [], True, S.now()])
                return
            S.log.append(["call", S.now(), -1, -2, [], False, S.now()])    # a control event nobody scheduled
            return
        u = min(cand, key=lambda x: S.handles[x].when())
        S.live.discard(u)
        S.pending_ctl.remove(u)
        t = int(round((S.handles[u].when() - S.t0) * 1e6))
        S.steps.append(["fire" if t == S.now() else "fireat", u, S.now()])
        S.log.append(["call", t, u, -2, [], False, S.now()])

    def top(self, o):
        """an operation made by the outside world: the caller catches what it raises"""
        try:
            self.do(o)
        except (_Boom, KeyError):
            if self.raising is None:
                raise
            self.raising = None
            self.log.append(["caught", 2])

    def now(self):
        return int(round((self.loop.time() - self.t0) * 1e6))

    def vis(self):
        return sum(1 for e in self.log if e[0] in VISIBLE) if len(self.log) > MAXLOG else 0

    def scan_kills(self):
        for u in sorted(self.live):
            if self.handles[u].cancelled():
                self.live.discard(u)
                self.log.append(["kill", u])

    def _cleared(self):
        if not self.dead:
            self.scan_kills()
            self.log.append(["cleared"])

    def truth(self, name):
        dm = self.dm
        for h in list(self.loop._scheduled) + list(self.loop._ready):
            cb = getattr(h, "_callback", None)
            if h._cancelled or not isinstance(cb, functools.partial):
                continue
            f = cb.func
            if getattr(f, "__self__", None) is dm and getattr(f, "__name__", "") == "_process_delay_callback" \
                    and cb.args and cb.args[0] == name:
                return True
        return False

    def make_cb(self, u, cbid):
        S = self

        def cb(**kwargs):
            if S.dead:
                return
            if len(S.log) > MAXEV and S.vis() > MAXEV:
                S.dead = True
                S.log.append(["runaway"])
                return
            S.scan_kills()
            h = S.handles[u]
            rn = bool(h.cancelled())
            t = S.now()
            if not rn:
                S.live.discard(u)
                t = int(round((h.when() - S.t0) * 1e6))          # the scheduled-for instant
                if S.depth == 0:
                    S.steps.append(["fire" if t == S.now() else "fireat", u, S.now()])
            kw = []
            for k, v in sorted((int(k[1:]), v) for k, v in kwargs.items()):
                kw += [k, v]
            S.log.append(["call", t, u, cbid, kw, rn, S.now()])
            if S.depth >= MAXD or S.vis() > MAXLOG:
                S.log.append(["oof"])
                return
            S.depth += 1
            try:
                for o in (S.scripts[cbid] if cbid >= 0 else []):
                    S.do(o)
            finally:
                S.depth -= 1
        return cb

    def resolve(self, n):
        """the string a name code of a case stands for: n >= 0 one of the client's own names; n <= -2 the generated name
        the manager RETURNED for the anonymous add-like call with id -2-n, which the client kept (if that call has not
        happened or was not anonymous: a string that was never a name of anything)"""
        if n >= 0:
            return NAMES[n]
        k = -2 - n
        nm = self.gen.get(k)
        if nm is None:
            nm = "c13-never-returned-%d" % k
            self.names.setdefault(nm, n)
        return nm

    def do(self, o):
        S, dm = self, self.dm
        k = o[0]
        if S.dead:
            return
        if k in ("add", "addif", "reset"):
            _, ms, n, cbid, kw = o
            if n <= -2 and -2 - n >= S.next:
                # the client cannot know a generated name that has not been handed out yet: not a possible call
                S.log.append(["op", "unknown-name", n])
                S.log.append(["opend"])
                return
            S.log.append(["op", k, n])
            u = S.next
            S.next += 1
            name = None if n == -1 else S.resolve(n)
            kwargs = {"k%d" % a: b for a, b in _pairs(kw)}
            before = dict(dm.delays)
            meth = {"add": dm.add, "addif": dm.add_if_doesnt_exist, "reset": dm.reset}[k]
            ret = meth(ms, S.make_cb(u, cbid), name, **kwargs)
            # the returned name is an observation of its own: for name=None it must be a name this manager has never
            # returned or been given before; otherwise it must be the given name
            if name is None:
                S.log.append(["ret", u, True, isinstance(ret, str) and ret not in S.names, True])
                if isinstance(ret, str):
                    S.names.setdefault(ret, -2 - u)
                    S.gen[u] = ret
            else:
                S.log.append(["ret", u, False, True, ret == name])
            ent = dm.delays.get(ret) if isinstance(ret, str) else None
            S.scan_kills()
            if ent is not None and ent is not before.get(ret):
                S.handles[u] = ent[0]
                S.live.add(u)
                S.log.append(["add", S.now(), u, S.names.get(ret, 999), ms, cbid, kw])
        elif k == "remove":
            S.log.append(["op", k, o[1]])
            dm.remove(S.resolve(o[1]))
            S.scan_kills()
        elif k == "clear":
            S.log.append(["op", k, -1])
            dm.clear()
            S.scan_kills()
        elif k == "run_now":
            S.log.append(["op", k, o[1]])
            S.in_run_now += 1
            try:
                dm.run_now(S.resolve(o[1]))
            finally:
                S.in_run_now -= 1
                S.scan_kills()
            if S.raising == 1:            # run_now's `except KeyError` has swallowed the callback's KeyError
                S.raising = None
                S.log.append(["caught", 1])
        elif k == "raise":
            S.log.append(["op", k, o[1]])
            S.log.append(["raise", o[1]])
            S.raising = o[1]
            raise (KeyError("c13") if o[1] == 1 else _Boom())
        elif k == "check":
            S.log.append(["op", k, o[1]])
            nm = S.resolve(o[1])
            S.log.append(["check", o[1], bool(dm.check(nm)), S.truth(nm)])
        S.log.append(["opend"])

    def ext(self, t, ops):
        """external step: ops performed by the outside world at the (observed) instant now()"""
        S = self
        S.log.append(["ext", t, S.now()])
        S.steps.append(["ext", S.now(), ops])
        for o in ops:
            S.top(o)
        S.dict_event()

    def dict_event(self):
        self.log.append(["dict", [self.names.get(k, 999) for k in self.dm.delays.keys()]])


def run_delay(case):
    from mpf.core.delays import DelayManager
    _patch_clear()
    rig = _RIG["rig"]
    loop = rig.machine.clock.loop
    dm = DelayManager(rig.machine)
    t0 = _align(rig, loop)
    S = _Rec(dm, loop, t0, case["scripts"])
    late = case.get("late")
    base_cls = loop.__class__
    try:
        if late:
            _LATE["seq"], _LATE["i"] = list(late), 0
            loop.__class__ = _late_loop_class()
        for t, ops in case["steps"] + [[case["end"], []]]:
            d = t0 + t / 1e6 - loop.time()
            rig.advance(d if d > 0 else 0)
            S.ext(S.now() if late else t, ops)
    finally:
        loop.__class__ = base_cls
        S.close()
        dm.clear()
    if rig.exception():
        return {"log": S.log, "steps": S.steps, "exc": repr(rig.exception())[:300]}
    return {"log": S.log, "steps": S.steps}


# ------------------------------------------------------------------------------------------------
# Coq printers
def _cop(o):
    k = o[0]
    if k in ("add", "addif", "reset"):
        c = {"add": "Add", "addif": "AddIfNot", "reset": "Reset"}[k]
        return "(%s %s %s %s %s)" % (c, zlit(o[1]), zlit(o[2]), zlit(o[3]), zlist(o[4]))
    if k == "remove":
        return "(Remove %s)" % zlit(o[1])
    if k == "clear":
        return "Clear"
    if k == "run_now":
        return "(RunNow %s)" % zlit(o[1])
    if k == "raise":
        return "(Raise %s)" % zlit(o[1])
    return "(Check %s)" % zlit(o[1])


def _cev(e):
    k = e[0]
    if k == "add":
        return "(EAdd %s %s %s %s %s %s)" % (zlit(e[1]), zlit(e[2]), zlit(e[3]), zlit(e[4]), zlit(e[5]), zlist(e[6]))
    if k == "kill":
        return "(EKill %s)" % zlit(e[1])
    if k == "call":
        return "(ECall %s %s %s %s %s)" % (zlit(e[1]), zlit(e[2]), zlit(e[3]), zlist(e[4]), blit(e[5]))
    if k == "check":
        return "(ECheck %s %s %s)" % (zlit(e[1]), blit(e[2]), blit(e[3]))
    if k == "dict":
        return "(EDict %s)" % zlist(e[1])
    if k == "oof":
        return "EOof"
    if k == "cleared":
        return "EClear"
    if k == "raise":
        return "(ERaise %s)" % zlit(e[1])
    if k == "caught":
        return "(ECaught %s)" % zlit(e[1])
    if k == "mode":
        return "(EMode %s %s)" % (zlit(e[1]), zlit(e[2]))
    raise ValueError(k)


def _cstep(s):
    if s[0] == "ext":
        return "(Ext %s %s)" % (zlit(s[1]), coqlist(_cop(o) for o in s[2]))
    if s[0] == "fire":
        return "(Fire %s)" % zlit(s[1])
    return "(FireAt %s %s)" % (zlit(s[1]), zlit(s[2]))


def coq_delay(case, out):
    if "exc" in out or ["runaway"] in out["log"][-3:] or any(e[0] == "runaway" for e in out["log"]):
        return None
    scripts = coqlist(coqlist(_cop(o) for o in s) for s in case["scripts"])
    steps = coqlist(_cstep(s) for s in out["steps"])
    evs = coqlist(_cev(e) for e in out["log"] if e[0] in VISIBLE)
    return "((%s, %s), %s)" % (scripts, steps, evs)


# ------------------------------------------------------------------------------------------------
# oracle: the property's own predicate, evaluated on the implementation's event log
def _spec_pass(log, fail, late=False, owner=False):
    """The property's own predicate on an event log of one DelayManager: pending-by-name table kept from the
    operations alone.  `late`: the loop of this case dispatches late (calls are compared by their scheduled-for instant,
    the observed instant may only be later).  `owner`: the manager belongs to a mode; `mode` events 1 / 3 (stop requested
    / stop wound up) end the ownership of everything added before."""
    live = {}            # name code -> [u, when, cb, kw]
    expect_rn = None     # a run_now on a pending delay must be followed by exactly this call
    cur_op = None
    no_add = False
    tnow = 0
    added_before_stop = {}     # id -> which stop marker ended its ownership
    all_ids = set()
    last_cleared = False
    noop = None          # a remove / run_now on a name that denotes no pending delay is running: nothing may happen
    for e in log:
        k = e[0]
        if noop is not None and k in ("kill", "call", "add"):
            fail("stale-name-op-had-effect" if noop[1] <= -2 else "noop-had-effect",
                 "%s(%r) on a name without pending delay%s caused %r" %
                 (noop[0], noop[1], " (a generated name kept from an earlier add)" if noop[1] <= -2 else "", e[:3]))
            noop = None
        if k == "runaway":
            fail("runaway", "more than %d events in one case: callbacks keep firing" % MAXEV)
            return
        if k in VISIBLE and k not in ("cleared", "mode"):
            last_cleared = False
        if k == "ext":
            if e[1] != e[2]:
                fail("clock", "virtual clock at %d, wanted %d" % (e[2], e[1]))
            tnow = e[2]
            for n, x in live.items():
                if x[1] < tnow:
                    fail("missed-deadline", "delay %r (id %d) due at %d had not fired by %d" % (n, x[0], x[1], tnow))
        elif k == "op":
            if expect_rn is not None:
                fail("run-now-no-call", "run_now did not call the pending callback")
                expect_rn = None
            cur_op, n = e[1], e[2]
            no_add = False
            noop = (cur_op, n) if cur_op in ("remove", "run_now") and n not in live else None
            if cur_op in ("add", "reset", "addif") and n == -1:
                pass                                  # name=None: a fresh generated name, touches nothing
            elif cur_op in ("add", "reset"):
                live.pop(n, None)
            elif cur_op == "addif":
                no_add = n in live
            elif cur_op == "remove":
                live.pop(n, None)
            elif cur_op == "clear":
                live.clear()
            elif cur_op == "run_now":
                if n in live:
                    expect_rn = live.pop(n)
        elif k == "opend":
            noop = None
        elif k == "ret":
            # what the add-like call returned: (id, anonymous, never seen before, equals the given name)
            if e[2] and not e[3]:
                fail("generated-name-reused", "add(name=None) number %d returned a name this manager had handed out (or been "
                                              "given) before: a client holding the old name now addresses this delay" % e[1])
            if not e[2] and not e[4]:
                fail("returned-name-wrong", "add-like call %d did not return the name it was given" % e[1])
        elif k == "add":
            if no_add:
                fail("addif-replaced", "add_if_doesnt_exist scheduled although the name was pending")
            live[e[3]] = [e[2], e[1] + 1000 * e[4], e[5], e[6]]
            all_ids.add(e[2])
        elif k == "cleared":
            # clear() has returned (called by an op or by the owner's lifecycle): nothing may be pending
            live.clear()
            last_cleared = True
        elif k == "mode":
            if e[1] in (1, 3):
                if not last_cleared:
                    fail("mode-stop-without-clear", "mode lifecycle step %d at %d did not clear mode.delay" % (e[1], e[2]))
                live.clear()
                for u in all_ids:
                    added_before_stop.setdefault(u, (e[1], e[2]))
        elif k == "call":
            t, u, cb, kw, rn = e[1:6]
            obs = e[6] if len(e) > 6 else t
            if u in added_before_stop:
                c, ts = added_before_stop[u]
                fail("mode-delay-fired-while-stopping" if c == 1 else "mode-delay-survived-stop",
                     "delay id %d, added before the mode's stop was %s at %d, ran at %d" %
                     (u, "requested" if c == 1 else "wound up", ts, obs))
            if expect_rn is not None:
                x, expect_rn = expect_rn, None
                if u != x[0] or not rn:
                    fail("run-now-wrong-call", "run_now ran id %d (cancelled=%s), pending was id %d" % (u, rn, x[0]))
                elif kw != x[3]:
                    if kw == [] and x[3] != []:
                        fail("run-now-kwargs-dropped", "run_now called the callback without the stored kwargs %r" % (x[3],))
                    else:
                        fail("run-now-kwargs", "run_now passed %r, stored %r" % (kw, x[3]))
            else:
                hit = [n for n, x in live.items() if x[0] == u]
                if not hit:
                    fail("fired-not-pending", "callback id %d ran at %d although it was removed/replaced/cleared/"
                                              "already run" % (u, obs))
                else:
                    x = live.pop(hit[0])
                    if t != x[1]:
                        fail("wrong-time", "id %d was scheduled for %d, promised %d" % (u, t, x[1]))
                    if obs < t or (obs != t and not late):
                        fail("wrong-time", "id %d ran at %d, promised %d" % (u, obs, x[1]))
                    if kw != x[3]:
                        fail("wrong-kwargs", "id %d ran with %r, stored %r" % (u, kw, x[3]))
                    if rn:
                        fail("fired-cancelled", "id %d ran from a cancelled handle" % u)
                    # deadline order: nothing that was due earlier may still be pending
                    for n2, x2 in live.items():
                        if x2[1] < x[1]:
                            fail("deadline-order", "id %d (due %d) ran before id %d (due %d)" % (u, x[1], x2[0], x2[1]))
        elif k == "check":
            want = e[1] in live
            if e[2] != want:
                fail("check-untruthful", "check(%r) = %s, a pending delay %s" % (e[1], e[2], "exists" if want else "does not exist"))
            if e[3] != want:
                fail("handle-mismatch", "loop has %s live handle for %r, spec says %s" % ("a" if e[3] else "no", e[1], want))
        elif k == "dict":
            names = sorted(e[1])
            if names != sorted(live.keys()):
                fail("dict-mismatch", "DelayManager.delays has %r, pending per spec %r" % (names, sorted(live.keys())))
    if expect_rn is not None:
        fail("run-now-no-call", "run_now did not call the pending callback")


def oracle_delay(case, out):
    fails = []

    def fail(sig, what):
        if not any(f["sig"] == sig for f in fails):
            fails.append({"sig": sig, "what": what})

    if "exc" in out:
        fail("exception", "the machine recorded an exception: " + out["exc"])
    _spec_pass(out["log"], fail, late=bool(case.get("late")))
    return fails


def _shrink_ops(ops):
    for i in range(len(ops)):
        yield ops[:i] + ops[i + 1:]
    for i, o in enumerate(ops):
        if o[0] in ("add", "addif", "reset"):
            if o[3] != -1:
                yield ops[:i] + [[o[0], o[1], o[2], -1, o[4]]] + ops[i + 1:]
            if len(o[4]) > 2:
                yield ops[:i] + [[o[0], o[1], o[2], o[3], o[4][:2]]] + ops[i + 1:]


def shrink_delay(case):
    st = case["steps"]
    if case.get("late") and len(case["late"]) > 1:
        yield dict(case, late=case["late"][:1])
        yield dict(case, late=case["late"][1:])
    for i in range(len(st)):
        if len(st) > 1:
            yield dict(case, steps=st[:i] + st[i + 1:])
    for i in range(len(st)):
        for ops in _shrink_ops(st[i][1]):
            yield dict(case, steps=st[:i] + [[st[i][0], ops]] + st[i + 1:])
    sc = case["scripts"]
    for j in range(len(sc)):
        for ops in _shrink_ops(sc[j]):
            yield dict(case, scripts=sc[:j] + [ops] + sc[j + 1:])


def nontrivial_delay(case, out):
    log = out.get("log", [])
    calls = sum(1 for e in log if e[0] == "call")
    kills = sum(1 for e in log if e[0] == "kill")
    nested = any(e[0] == "call" and e[5] for e in log)
    return calls >= 1 and (kills >= 1 or nested)


def describe_delay(case):
    out = []
    for _, ops in case["steps"]:
        for o in ops:
            out.append(o[0])
    for s in case["scripts"]:
        for o in s:
            out.append("cb:" + o[0])
    kinds = sorted(set(out))
    neg = any(o[0] in ("add", "addif", "reset") and o[1] < 0 for _, ops in case["steps"] for o in ops)
    return ("grid " if case["grid"] else "ms ") + ("reentrant" if any(k.startswith("cb:") for k in kinds) else "flat") + \
        (" late" if case.get("late") else "") + (" negative" if neg else "") + (" stale-names" if case.get("stale") else "")


# ------------------------------------------------------------------------------------------------
# PeriodicTask
def gen_periodic(rng, tier, i):
    grid = rng.random() < 0.6
    if grid:
        ival = rng.choice([125, 250, 500, 1000]) * 1000
    else:
        ival = rng.choice([rng.randint(20, 900) * 1000, 100000, 333000, 16667])
    n = rng.choice([0, 1, 2, 3, 5, 8, 13, 40])
    # cancel exactly on a deadline, or somewhere in the second half of an interval
    r = rng.random()
    if r < 0.4:
        cancel = n * ival
    elif r < 0.8:
        cancel = n * ival + rng.choice([ival // 2, ival - 1, ival // 2 + 1])
    else:
        cancel = None
    horizon = (cancel if cancel is not None else n * ival) + rng.choice([0, ival, 2 * ival + ival // 2, 5 * ival])
    # lateness of the successive wake-ups of the scheduler: none, jitter below an interval, or more than one interval
    # (the task then has to catch up: one call per missed interval, each scheduled for t0 + k*ival)
    lates = rng.choice([[0], [0], [ival // 4], [0, ival // 3, 1, ival // 8], [ival // 8, 0, 0],
                        [0, 2 * ival + ival // 3, 0, 0], [3 * ival + 1, 0], [ival, 0, ival + ival // 2],
                        [rng.randint(0, 4 * ival), 0, rng.randint(0, ival)]])
    if cancel is not None and cancel % ival == 0 and not rng.random() < 0.5:
        tick_first = False
    else:
        tick_first = True
    # cancel() arrives (from another callback of the same late batch) while ticks are overdue but not yet dispatched
    return {"ival": ival, "cancel": cancel, "horizon": horizon, "lates": lates, "grid": grid, "tick_first": tick_first,
            "cancel_overdue": rng.random() < 0.4}


class _LateLoop:
    """The two methods PeriodicTask needs from a loop, on a scheduler that may wake up late: a handle with deadline
    `when` runs at max(now, when + late) (late >= 0 taken from the case), so that _run sees time() > deadline."""

    def __init__(self, t0):
        self.t = t0
        self.h = []

    def time(self):
        return self.t

    def call_at(self, when, cb, *args):
        self.h.append((when, cb))


def run_periodic(case):
    from mpf.core.clock import PeriodicTask
    t0 = 1000.0
    loop = _LateLoop(t0)
    ival = case["ival"]
    lates = case["lates"]
    calls, order, cur = [], [], [None]

    def us(x):
        return int(round((x - t0) * 1e6))

    def cb():
        calls.append(us(cur[0]))          # the scheduled-for instant of this call

    pt = PeriodicTask(ival / 1e6, loop, cb)
    nrun = [0]
    cyclic = max(lates) < ival

    def run_until(t_us, inclusive, flush):
        """run the handles the loop dispatches before the outside acts at (planned) t_us; flush: also everything that is
        overdue at the present instant (the loop never goes back in time)"""
        n = 0
        while loop.h and n < 10000:
            when, f = min(loop.h, key=lambda x: x[0])
            w = us(when)
            due = w < t_us or (w == t_us and inclusive)
            if not due and not (flush and w < us(loop.t)):
                break
            loop.h.remove((when, f))
            # jitter below an interval repeats for ever; lateness of an interval or more happens once per entry
            # (a loop that is for ever later than the interval never catches up)
            i = nrun[0]
            late = lates[i % len(lates)] if (cyclic or i < len(lates)) else 0
            loop.t = max(loop.t, when + late / 1e6)
            nrun[0] += 1
            cur[0] = when
            order.append(["run", us(loop.t)])
            n += 1
            f()

    if case["cancel"] is not None:
        run_until(case["cancel"], case["tick_first"], not case.get("cancel_overdue"))
        loop.t = max(loop.t, t0 + case["cancel"] / 1e6)
        order.append(["cancel", us(loop.t)])
        pt.cancel()
    run_until(case["horizon"], True, True)
    loop.t = max(loop.t, t0 + case["horizon"] / 1e6)
    run_until(us(loop.t), True, True)
    order.append(["at", us(loop.t)])
    nxt = us(pt.get_next_call_time())
    pt.cancel()
    return {"calls": calls, "order": order, "next": nxt, "pending": sorted(us(w) for w, _ in loop.h)}


def coq_periodic(case, out):
    steps = []
    for o, t in out["order"]:
        if o == "run":
            steps.append("(PRunAt %s)" % zlit(t))
        elif o == "cancel":
            steps.append("(PCancelAt %s)" % zlit(t))
        else:
            steps.append("(PAt %s)" % zlit(t))
    exp = "(%s, %s)" % (coqlist("(PCalled %s)" % zlit(t) for t in out["calls"]), zlit(out["next"]))
    return "((0, %s, %s), %s)" % (zlit(case["ival"]), coqlist(steps), exp)


def oracle_periodic(case, out):
    fails = []
    ival = case["ival"]
    calls = out["calls"]
    for k, t in enumerate(calls):
        if t != (k + 1) * ival:
            fails.append({"sig": "periodic-drift", "what": "tick %d scheduled for %d us, expected %d" % (k + 1, t, (k + 1) * ival)})
            break
    runs = [t for o, t in out["order"] if o == "run"]
    for k, (t, obs) in enumerate(zip(calls, runs)):
        if obs < t:
            fails.append({"sig": "periodic-early", "what": "tick %d ran at %d, before its instant %d" % (k + 1, obs, t)})
            break
    cancelled = case["cancel"] is not None
    obs_stop = [t for o, t in out["order"] if o == ("cancel" if cancelled else "at")][0]
    stop = case["cancel"] if cancelled else obs_stop
    lo = (stop - 1) // ival if stop > 0 else 0      # ticks strictly before `stop` must have happened
    hi = obs_stop // ival                           # ticks after the (observed) stop must not
    if len(calls) < lo:
        fails.append({"sig": "periodic-missed", "what": "%d ticks by %d, interval %d" % (len(calls), stop, ival)})
    if len(calls) > hi:
        fails.append({"sig": "periodic-after-cancel" if cancelled else "periodic-extra",
                      "what": "%d ticks, %s at %d, interval %d" % (len(calls), "cancelled" if cancelled else "looked", obs_stop, ival)})
    return fails


def shrink_periodic(case):
    if case["lates"] != [0]:
        yield dict(case, lates=[0])
    if case["cancel"] is not None and case["cancel"] >= case["ival"]:
        yield dict(case, cancel=case["cancel"] - case["ival"], horizon=case["horizon"] - case["ival"])
    if case["horizon"] - case["ival"] >= (case["cancel"] or 0):
        yield dict(case, horizon=case["horizon"] - case["ival"])


HDR_DELAY = "From C13 Require Import Model.\nDefinition run := delay_run.\nDefinition out_eqb := delay_out_eqb.\n"
HDR_PERIODIC = "From C13 Require Import Model.\nDefinition run := periodic_run.\nDefinition out_eqb := periodic_out_eqb.\n"

SUITES = [
    Suite("delay", gen_delay, run_delay, HDR_DELAY, coq_delay, oracle_delay, shrink_delay, nontrivial_delay,
          {"quick": 4000, "thorough": 120000}, worker_init=_init_rig, shard=250, describe=describe_delay),
    Suite("periodic", gen_periodic, run_periodic, HDR_PERIODIC, coq_periodic, oracle_periodic, shrink_periodic,
          lambda c, o: len(o.get("calls", [])) >= 2, {"quick": 1000, "thorough": 30000},
          shard=500, describe=lambda c: ("grid" if c["grid"] else "ms") + (" late" if c["lates"] != [0] else "") +
          (" catch-up" if max(c["lates"]) > c["ival"] else "") +
          (" nocancel" if c["cancel"] is None else " cancel@deadline" if c["cancel"] % c["ival"] == 0 else " cancel")),
]

LEVEL_TEXT = ("Machine-checked proof (Coq) over an executable model of DelayManager on a model of the loop's timer handles: "
              "for every history of add/add_if_doesnt_exist/reset/remove/clear/run_now/check calls, including calls made "
              "from inside delay callbacks, and every legal firing order, each callback run is justified by exactly one "
              "add (same callback, same kwargs, at exactly add time + ms unless run by run_now), runs at most once, never "
              "after its handle was cancelled; every added delay whose deadline has passed was run or cancelled; check() "
              "equals the existence of a live handle; all of this also when the loop dispatches late (calls are identified by "
              "their scheduled-for instants) and for negative durations; clear() is final (nothing added before it is ever "
              "called after it); a mode's stop request and the wind-up of its stop both clear the mode's manager, so no "
              "delay owned by a mode fires after the stop was requested, for all lifecycle histories incl. held queues and "
              "restarts re-adding the same names; PeriodicTask ticks at t0+k*interval exactly (scheduled-for; catch-up "
              "when dispatched more than an interval late) and never after cancel; "
              "callbacks that raise (entry gone, other delays untouched, KeyError swallowed by run_now); "
              "names returned by add(name=None) are never handed out twice and a kept generated name whose delay has fired / "
              "was removed / cleared (owner stopped) denotes nothing for ever: check False, remove/run_now no-ops, whatever is "
              "added later, also across the owning mode's stop and restart; "
              "timer device: tick events only from a running timer, nothing happens by itself after stop / pause without "
              "duration, complete exactly at the end value, tick instants exact also under late dispatch (re-arm at "
              "base+(n+1)*interval whatever the dispatch instant), its pause delay is an instance of the delay model "
              "(invariant proved on every reachable timer state, so the delay theorems apply to it). "
              "The model is tied to the working tree by running both on the same generated histories on every run.")
LEVEL_NOTE = ("Trusted: Coq kernel + vm_compute; no axioms. Model hand-written; correspondence validates it against the "
              "working tree (real DelayManager/PeriodicTask on mpf's TimeTravelLoop); asyncio's handle semantics "
              "(a cancelled handle never runs, due handles run no earlier than their deadline) are modelled as the "
              "acceptance conditions of Fire/Ext steps and validated on every run. Timer device: model Timer.v tied the same "
              "way to real timers of a real mode; mode-owned delays: Owner.v tied to a real mode's lifecycle (calls observed "
              "through recording wrappers, effects predicted) plus the ownership oracle.")
TECHNIQUE = "Coq proof over hand-written executable model + differential correspondence (vm_compute) + direct spec oracle"
DESIGN_REF = "DESIGN.md section 3, C13"


# ================================================================================================
# timer device (mpf/devices/timer.py) — real timers of a real mode, driven by control events on the 125 ms grid
TIMERS = [   # name, start, end, max, direction, tick interval ms, restart_on_complete
    ("t0", 0, 5, None, "up", 500, False),
    ("t1", 5, None, None, "down", 250, False),
    ("t2", 0, 3, None, "up", 500, True),
    ("t3", 3, 1, None, "down", 250, True),
    ("t4", 0, None, 4, "up", 250, False),
    ("t5", 2, 6, 8, "up", 125, False),
]
# control events; the value-less actions come first (Timer._setup_control_events leaks the previous entry's kwargs
# into start/stop/reset/restart handlers: reset after a value action raises TypeError — recorded in NOTES.md)
T_ACTIONS = [("start", "start", None), ("stop", "stop", None), ("reset", "reset", None), ("restart", "restart", None),
             ("pause", "pause", None), ("pause500", "pause", 0.5), ("pause1000", "pause", 1), ("pause250", "pause", 0.25),
             ("add1", "add", 1), ("add2", "add", 2), ("sub1", "subtract", 1), ("sub2", "subtract", 2),
             ("jump0", "jump", 0), ("jump3", "jump", 3), ("jump5", "jump", 5), ("jump20", "jump", 20), ("jumpm1", "jump", -1),
             ("half", "change_tick_interval", 0.5), ("double", "change_tick_interval", 2),
             ("set250", "set_tick_interval", 0.25), ("set500", "set_tick_interval", 0.5), ("set1000", "set_tick_interval", 1),
             ("resetival", "reset_tick_interval", None)]
T_KINDS = ["started", "stopped", "paused", "complete", "tick", "time_added", "time_subtracted"]
_TRIG = {}


def _timer_config():
    timers = {}
    for name, start, end, mx, direction, ival, roc in TIMERS:
        ce = []
        for ev, action, value in T_ACTIONS:
            e = {"event": "%s_%s" % (name, ev), "action": action}
            if value is not None:
                e["value"] = value
            ce.append(e)
        t = {"start_value": start, "direction": direction, "tick_interval": "%dms" % ival, "control_events": ce,
             "restart_on_complete": roc}
        if end is not None:
            t["end_value"] = end
        if mx is not None:
            t["max_value"] = mx
        timers[name] = t
    return timers


def _init_timer_rig():
    import logging
    logging.disable(logging.CRITICAL)
    from rig import Rig
    _patch_mode()
    _patch_clear()
    if "rig" not in _TRIG:
        mode = {"mode": {"start_events": "start_m1", "stop_events": "stop_m1", "game_mode": False},
                "timers": _timer_config()}
        # m2: the mode whose lifecycle is exercised; its counter has a DELAYED control event (500 ms)
        mode2 = {"mode": {"start_events": "start_m2", "stop_events": "stop_m2", "game_mode": False},
                 "counters": {"c1": {"count_events": {"m2_c1_count": "%dms" % CTL_MS}, "starting_count": 0,
                                     "count_complete_value": 1000000}}}
        rig = Rig({"modes": ["m1", "m2"]}, modes={"m1": mode, "m2": mode2}).start()
        _TRIG["rig"] = rig
        # which code is this?  behavioural probe of the recorded defect `timer-pause-not-superseded`
        # (fixes/C13-timer-pause-supersedes.patch): does pause() leave a pending timed pause in place?
        rig.post("start_m1")
        rig.advance(0.125)
        t = rig.machine.timers["t0"]
        rig.post("t0_pause1000")
        rig.post("t0_pause")
        _TRIG["legacy"] = "pause" in t.delay.delays
        # the mode stays active for the life of the worker (restarting it per case makes Timer.event_keys grow:
        # device_removed_from_mode never empties it); every case first brings its timer back to the initial state
        rig.post("t0_stop")
        rig.advance(2)


def gen_timer(rng, tier, i):
    ti = rng.randrange(len(TIMERS))
    n = rng.choice([2, 3, 4, 5, 6, 8, 10])
    t = 0
    ops = []
    halves = 0
    names = [a[0] for a in T_ACTIONS]
    weights = {"start": 6, "stop": 2, "pause": 4, "pause500": 4, "pause1000": 3, "pause250": 2, "restart": 2, "reset": 2}
    pool = []
    for a in names:
        pool += [a] * weights.get(a, 1)
    if rng.random() < 0.8:
        ops.append([0, "start"])
    for _ in range(n):
        t += rng.choice([0, 125, 125, 250, 250, 375, 500, 500, 625, 1000, 1500]) * 1000
        a = rng.choice(pool)
        if a == "half":
            if halves >= 2:
                a = "double"
            else:
                halves += 1
        ops.append([t, a])
    end = t + rng.choice([0, 500, 1000, 2000, 4000]) * 1000
    case = {"timer": ti, "ops": ops, "end": end}
    if rng.random() < 0.25:
        # the loop dispatches late (see _late_loop_class): jitter, or jumps past several tick / pause deadlines
        case["late"] = [rng.choice([0, 0, 1000, 3000, 7000, 125000, 300000, 700000, 1200000, rng.randint(1, 900000)])
                        for _ in range(rng.choice([1, 2, 3, 5]))]
    return case


def run_timer(case):
    rig = _TRIG["rig"]
    m = rig.machine
    loop = m.clock.loop
    name = TIMERS[case["timer"]][0]
    timer = m.timers[name]
    S = _Run()
    S.events, S.steps, S.busy, S.stepno = [], [], False, 0
    t0box = [None]

    def now():
        return int(round((loop.time() - t0box[0]) * 1e6))

    orig_tick = type(timer)._timer_tick.__get__(timer)
    orig_start = type(timer).start.__get__(timer)

    def sched():
        # the instant this tick was scheduled for: PeriodicTask._run has just advanced _last_call to it
        return int(round((timer.timer._last_call - t0box[0]) * 1e6)) if timer.timer is not None else -1

    def tick_w():
        S.stepno += 1
        S.steps.append(["firetick", now(), sched()])
        if late:
            S.events.append(["due", sched(), None, S.stepno])
        S.busy = True
        try:
            return orig_tick()
        finally:
            S.busy = False

    def start_w(**kwargs):
        if S.busy or "_ext" in kwargs or t0box[0] is None:
            return orig_start(**kwargs)
        S.stepno += 1
        S.steps.append(["firepause", now()])
        S.busy = True
        try:
            return orig_start(**kwargs)
        finally:
            S.busy = False

    keys = []
    late = case.get("late")
    base_cls = loop.__class__

    def pause_due():
        ent = timer.delay.delays.get("pause")
        return int(round((ent[0].when() - t0box[0]) * 1e6)) if ent is not None else -1

    def mk(kind):
        def h(**kwargs):
            if t0box[0] is None:
                return
            e = [kind, now(), kwargs.get("ticks"), S.stepno]
            if kind == "tick":
                e.append(bool(timer.running))
            S.events.append(e)
        return h

    try:
        if not m.modes["m1"].active:
            return {"harness_error": "mode m1 is not active"}
        # initial state: stopped, configured interval, start value; the system timer that reset creates while the
        # timer is not running removes itself at its first expiry, before the case begins
        for a in ("stop", "resetival", "reset", "stop"):
            rig.post("%s_%s" % (name, a))
        t0 = _align(rig, loop)
        if timer.running or timer.timer is not None or timer.delay.delays or timer.ticks != TIMERS[case["timer"]][1]:
            return {"harness_error": "timer not in its initial state: %r %r %r %r" %
                                     (timer.running, timer.timer, list(timer.delay.delays), timer.ticks)}
        timer._timer_tick = tick_w
        timer.start = start_w
        for kind in T_KINDS:
            keys.append(m.events.add_handler("timer_%s_%s" % (name, kind), mk(kind)))
        t0box[0] = t0
        if late:
            _LATE["seq"], _LATE["i"] = list(late), 0
            loop.__class__ = _late_loop_class()
        for t, a in case["ops"] + [[case["end"], "nop"]]:
            d = t0box[0] + t / 1e6 - loop.time()
            rig.advance(d if d > 0 else 0)
            if late:
                # the outside world acts when the loop has caught up: a system timer that was dispatched more than an
                # interval late re-arms in the past and needs one more loop iteration per missed tick
                # (advance(0) = three iterations at the same instant); then once more so that the events posted by the
                # last tick are delivered before the outside acts
                for _ in range(200):
                    rig.advance(0)
                    if timer.timer is None or timer.timer.get_next_call_time() > loop.time():
                        break
                rig.advance(0)
            S.stepno += 1
            if late:
                t = now()
            S.steps.append(["ext", t, a, now()])
            if a != "nop":
                m.events.post("%s_%s" % (name, a), _ext=1)
                S.busy = True
                try:
                    rig.advance(0)
                finally:
                    S.busy = False
            S.events.append(["state", t, bool(timer.running), timer.ticks, "pause" in timer.delay.delays,
                             timer.timer is not None, pause_due(), S.stepno])
    finally:
        loop.__class__ = base_cls
        t0box[0] = None
        for k in keys:
            m.events.remove_handler_by_key(k)
        for attr in ("_timer_tick", "start"):
            if attr in timer.__dict__:
                delattr(timer, attr)
        rig.post("%s_stop" % name)
    out = {"events": S.events, "steps": S.steps, "legacy": bool(_TRIG["legacy"])}
    if rig.exception():
        out["exc"] = repr(rig.exception())[:300]
    return out


def _tcfg(ti, legacy=False):
    name, start, end, mx, direction, ival, roc = TIMERS[ti]
    down = direction == "down"
    if down and not end:
        end = 0
    return "(mkC %s %s %s %s %s %s %s)" % (zlit(start), "None" if end is None else "(Some %s)" % zlit(end), zlit(mx or 0),
                                           blit(down), zlit(ival * 1000), blit(roc), blit(legacy))


def _caction(a):
    kind = dict((x[0], (x[1], x[2])) for x in T_ACTIONS).get(a)
    if a == "nop":
        return "ANop"
    action, v = kind
    if action == "start":
        return "AStart"
    if action == "stop":
        return "AStop"
    if action == "reset":
        return "AReset"
    if action == "restart":
        return "ARestart"
    if action == "pause":
        return "(APause %s)" % zlit(int((v or 0) * 1000))
    if action == "add":
        return "(AAdd %s)" % zlit(v)
    if action == "subtract":
        return "(ASub %s)" % zlit(v)
    if action == "jump":
        return "(AJump %s)" % zlit(v)
    if action == "change_tick_interval":
        return "(AChange 1 2)" if v == 0.5 else "(AChange 2 1)"
    if action == "set_tick_interval":
        return "(ASetIval %s)" % zlit(int(v * 1000000))
    return "AResetIval"


_TEV = {"started": "TStarted", "stopped": "TStopped", "paused": "TPaused", "complete": "TComplete",
        "time_added": "TAdded", "time_subtracted": "TSubtracted"}


def coq_timer(case, out):
    if "exc" in out:
        return None
    late = bool(case.get("late"))

    def cst(s):
        if s[0] == "ext":
            return "(TExt %s %s)" % (zlit(s[1]), _caction(s[2]))
        if late:
            return "(%s %s)" % ("TFireTickAt" if s[0] == "firetick" else "TFirePauseAt", zlit(s[1]))
        return "TFireTick" if s[0] == "firetick" else "TFirePause"
    steps = coqlist(cst(s) for s in out["steps"])
    evs = []
    for e in out["events"]:
        if e[0] == "tick":
            evs.append("(TTick %s %s %s)" % (zlit(e[1]), zlit(e[2]), blit(e[4])))
        elif e[0] == "state":
            evs.append("(TState %s %s %s %s %s %s)" % (zlit(e[1]), blit(e[2]), zlit(e[3]), blit(e[4]), blit(e[5]), zlit(e[6])))
        elif e[0] == "due":
            evs.append("(TDue %s)" % zlit(e[1]))
        else:
            evs.append("(%s %s %s)" % (_TEV[e[0]], zlit(e[1]), zlit(e[2])))
    return "((%s, %s), %s)" % (_tcfg(case["timer"], out.get("legacy", False)), steps, coqlist(evs))


def oracle_timer(case, out):
    fails = []

    def fail(sig, what):
        if not any(f["sig"] == sig for f in fails):
            fails.append({"sig": sig, "what": what})

    if "exc" in out:
        fail("timer-exception", out["exc"])
    name, start, end, mx, direction, ival_ms, roc = TIMERS[case["timer"]]
    down = direction == "down"
    if down and not end:
        end = 0

    def done(k):
        return end is not None and (k <= end if down else k >= end)

    acts = dict((x[0], (x[1], x[2])) for x in T_ACTIONS)
    late = bool(case.get("late"))
    by_step = {}
    for e in out["events"]:
        by_step.setdefault(e[-1] if e[0] == "state" else e[3], []).append(e)
    running = False          # per the timer's own started/stopped/paused events
    resume_at = None         # expiry of the pending timed pause, per the commands
    ival = ival_ms * 1000
    next_tick = None         # instant of the next tick of the current system timer, per the commands
    timed = []               # timed pauses whose delay may still be pending
    for no, s in enumerate(out["steps"], 1):
        evs = by_step.get(no, [])
        if s[0] == "ext":
            if s[1] != s[3]:
                fail("clock", "virtual clock at %d, wanted %d" % (s[3], s[1]))
            t, a = s[1], s[2]
            action, v = acts.get(a, ("nop", None))
            if resume_at is not None and resume_at < t:
                fail("timer-pause-not-ended", "timed pause due at %d did not restart the timer by %d" % (resume_at, t))
            if running and next_tick is not None and next_tick < t:
                fail("timer-missed-tick", "running timer: tick due at %d missing at %d" % (next_tick, t))
            if action == "change_tick_interval":
                ival = int(ival * v)
            elif action == "set_tick_interval":
                ival = int(v * 1000000)
            elif action == "reset_tick_interval":
                ival = ival_ms * 1000
            if action in ("jump", "reset", "restart", "change_tick_interval", "set_tick_interval", "reset_tick_interval"):
                next_tick = t + ival
            if action == "pause":
                resume_at = t + int(v * 1000000) if v else None
                if v:
                    timed.append([t + int(v * 1000000), True])     # [expiry, only pause commands since]
            elif action in ("start", "stop", "restart"):
                resume_at = None
        elif s[0] == "firetick":
            t = s[1]
            due = s[2] if len(s) > 2 and s[2] >= 0 else t      # the instant the loop had scheduled this tick for
            if any(e[0] == "tick" for e in evs) or any(e[0] in ("complete",) for e in evs):
                if not running:
                    fail("tick-while-not-running", "the timer counted at %d while stopped/paused" % t)
                if next_tick is not None and due != next_tick:
                    fail("timer-tick-instant", "tick scheduled for %d, due at %s" % (due, next_tick))
                if t < due or (t != due and not late):
                    fail("timer-tick-instant", "tick ran at %d, due at %s" % (t, due))
            if running:
                next_tick = due + ival
        elif s[0] == "firepause":
            t = s[1]
            if (resume_at != t) if not late else (resume_at is None or t < resume_at):
                # the recorded defect: pause() does not remove the delay of an earlier timed pause.  It is exactly that
                # when the expiring delay stems from a timed pause after which the timer never started or stopped.
                stale = [x for x in timed if (x[0] == t if not late else x[0] <= t)]
                if out.get("legacy") and stale and stale[-1][1]:
                    fail("timer-pause-not-superseded", "pause at %s did not cancel the pending timed pause: start() ran at %d"
                         % ("(no end)" if resume_at is None else resume_at, t))
                else:
                    fail("timer-resumed-while-paused", "a stale pause delay called start() at %d; the commanded pause "
                         "%s" % (t, "has no end" if resume_at is None else "ends at %d" % resume_at))
            if late:
                gone = [x for x in timed if x[0] <= t][:1]
                timed[:] = [x for x in timed if x not in gone]
            else:
                timed[:] = [x for x in timed if x[0] != t]
            resume_at = None
        for e in evs:
            k = e[0]
            if k in ("started", "stopped") and s[0] != "firepause":
                for x in timed:
                    x[1] = False          # start()/stop() ran: they must have removed the delay
            if k == "started":
                running = True
                next_tick = e[1] + ival
                resume_at = None
            elif k in ("stopped", "paused"):
                running = False
                if k == "stopped":
                    resume_at = None
            elif k == "complete":
                if not done(e[2]):
                    fail("complete-not-at-end", "complete event with ticks=%s, end=%s" % (e[2], end))
            elif k == "tick":
                if not e[4]:
                    fail("tick-not-running", "tick event while timer.running is False")
                if done(e[2]):
                    fail("tick-past-end", "tick event with ticks=%s at/after the end value %s" % (e[2], end))
            elif k == "state":
                if e[2] and done(e[3]):
                    fail("running-past-end", "timer running with ticks=%s, end=%s and no complete" % (e[3], end))
                if e[2] != running:
                    fail("timer-state", "timer.running=%s but its last event says %s" % (e[2], running))
    return fails


def shrink_timer(case):
    ops = case["ops"]
    for i in range(len(ops)):
        yield dict(case, ops=ops[:i] + ops[i + 1:])
    if case.get("late") and len(case["late"]) > 1:
        yield dict(case, late=case["late"][:1])
    if case["end"] > (ops[-1][0] if ops else 0):
        yield dict(case, end=(ops[-1][0] if ops else 0))


def nontrivial_timer(case, out):
    evs = out.get("events", [])
    return any(e[0] == "tick" for e in evs) and len(case["ops"]) >= 3


SUITES.append(Suite("timer", gen_timer, run_timer,
                    "From C13 Require Import Timer.\nDefinition run := timer_run.\nDefinition out_eqb := timer_out_eqb.\n",
                    coq_timer, oracle_timer, shrink_timer, nontrivial_timer, {"quick": 1500, "thorough": 40000},
                    worker_init=_init_timer_rig, shard=300,
                    describe=lambda c: TIMERS[c["timer"]][0] + (" pause" if any(o[1].startswith("pause") for o in c["ops"]) else "") +
                    (" late" if c.get("late") else "")))


# ================================================================================================
# mode-owned delays: Mode.delay through a real mode's lifecycle (mode.py start/_started/stop/_stopped/
# _mode_stopped_callback); model coq/C13/Owner.v
_MH = {"mode": None, "rec": None, "depth": 0}
CTL_MS = 500
_LIFE = {"start": "mstart", "_started": "mstarted", "stop": "mstop", "_stopped": "mstopped",
         "_mode_stopped_callback": "mwoundup"}


def _mode_flags(mode):
    return (1 if mode._active else 0) + (2 if mode.stopping else 0) + (4 if mode._starting else 0) + \
        (8 if mode._cleanup_pending else 0)


def _patch_mode():
    """Mode has __slots__, so its lifecycle methods are wrapped at class level (forked worker only; must happen before the
    machine boots because the start handler is bound at boot).  A call on the mode under test, made by the machine (not
    nested in another lifecycle call), becomes a step of the history; what it did is read off the flags before/after."""
    from mpf.core.mode import Mode
    if getattr(Mode.stop, "_c13", False):
        return

    def wrap(name):
        orig = getattr(Mode, name)

        def w(self, *args, **kwargs):
            S = _MH["rec"]
            if self is not _MH["mode"] or S is None or S.dead or _MH["depth"] > 0:
                return orig(self, *args, **kwargs)
            t = S.now()
            before = _mode_flags(self)
            S.steps.append([_LIFE[name], t])
            S.log.append(["life", name, t])
            _MH["depth"] += 1
            try:
                return orig(self, *args, **kwargs)
            finally:
                _MH["depth"] -= 1
                S.scan_kills()
                after = _mode_flags(self)
                if name == "stop":
                    S.log.append(["mode", 1 if (after & 2) and not (before & 2) else 0, t])
                elif name == "_stopped":
                    S.log.append(["mode", 2, t])
                elif name == "_mode_stopped_callback":
                    S.log.append(["mode", 3 if (before & 8) and not (after & 8) else 0, t])
                elif name == "start":
                    if (after & 4) and not (before & 4):
                        if (before & 8) and not (after & 8):
                            S.log.append(["mode", 3, t])
                        S.log.append(["mode", 4, t])
                    else:
                        S.log.append(["mode", 0, t])
                else:
                    S.log.append(["mode", 5, t])
                S.log.append(["mode", 16 + after, t])
                S.dict_event()
        w._c13 = True
        return w
    for name in _LIFE:
        setattr(Mode, name, wrap(name))
    # the device method a delayed control event of m2 ends in: recorded as the call of that delay
    from mpf.devices.logic_blocks import Counter
    orig_count = Counter.event_count

    def event_count(self, **kwargs):
        S = _MH["rec"]
        if S is not None and not S.dead and self.name == "c1":
            S.ctl_called()
        return orig_count(self, **kwargs)
    Counter.event_count = event_count


_MST = {"stale": False}


def _mops(rng, nscripts, k):
    return [_op(rng, True, nscripts, stale=_MST["stale"]) for _ in range(k)]


def gen_modestop(rng, tier, i):
    # 30 % of the cases are about returned names: anonymous adds before the stop, the names kept across stop / wind-up /
    # restart and used on the next run of the mode next to its new anonymous delays
    _MST["stale"] = st = rng.random() < 0.3
    ns = rng.choice([0, 1, 2, 3])
    scripts = [[_op(rng, True, ns, inside=j, stale=st) for _ in range(rng.choice([0, 1, 1, 2]))] for j in range(ns)]
    pre, t = [], 0
    for _ in range(rng.choice([0, 1, 1, 2])):
        pre.append([t, _mops(rng, ns, rng.choice([1, 2, 3]))])
        t += rng.choice([0, 125, 250, 500]) * 1000
    stop_at = t + rng.choice([0, 125, 250, 500, 1000]) * 1000
    hold = rng.choice([0, 0, 0, 125, 250, 500]) * 1000
    restart = rng.choice([None, None, "handler", "later", "later"])
    post = []
    if restart:
        for _ in range(rng.choice([0, 1, 2])):
            post.append([rng.choice([0, 125, 250]) * 1000, _mops(rng, ns, rng.choice([1, 2]))])
    return {"scripts": scripts, "pre": pre, "stop_at": stop_at,
            "stopping": _mops(rng, ns, rng.choice([0, 1, 1, 2])), "stopping_via": rng.choice(["mode", "machine"]),
            "stopped": _mops(rng, ns, rng.choice([0, 0, 1, 2])), "stopped_via": rng.choice(["mode", "machine"]),
            "hold": hold, "window": _mops(rng, ns, rng.choice([0, 1, 2])) if hold else [],
            "stop_again": rng.choice([None, None, "stopping", "idle"]),
            # a delayed (500 ms) control event of the mode's counter is posted: before the stop (so that it is pending at the
            # request or fires before it), while the queue is held, after the stop has wound up, after the restart
            "ctl": [w for w in ("pre", "window", "idle", "post") if rng.random() < 0.25],
            "restart": restart, "post": post, "stop2": bool(restart) and rng.random() < 0.5,
            "tail": rng.choice([500, 1000, 2500]) * 1000}


def run_modestop(case):
    _patch_clear()
    rig = _TRIG["rig"]
    m = rig.machine
    loop = m.clock.loop
    mode = m.modes["m2"]
    S = None
    keys = []
    hold = {"queue": None, "n": 0}
    try:
        rig.post("start_m2")
        rig.advance(0.125)
        if not mode.active:
            return {"harness_error": "mode did not start"}
        t0 = _align(rig, loop)
        S = _Rec(mode.delay, loop, t0, case["scripts"])
        _MH["mode"], _MH["rec"], _MH["depth"] = mode, S, 0
        flags0 = _mode_flags(mode)

        def inside(ops):
            # mode code (an event handler of the mode) uses mode.delay from inside the loop
            S.log.append(["ext", S.now(), S.now()])
            S.steps.append(["ext", S.now(), ops])
            for o in ops:
                S.top(o)
            S.dict_event()

        def on_stopping(queue=None, **kwargs):
            hold["n"] += 1
            if hold["n"] > 1:
                inside([])
                return
            inside(case["stopping"])
            if case["hold"] and queue is not None:
                queue.wait()
                hold["queue"] = queue

        def on_stopped(**kwargs):
            hold["m"] = hold.get("m", 0) + 1
            if hold["m"] > 1:
                inside([])
                return
            inside(case["stopped"])
            if case["restart"] == "handler":
                m.events.post("start_m2")

        def reg():
            for ev, via, h in (("mode_m2_stopping", case["stopping_via"], on_stopping),
                               ("mode_m2_stopped", case["stopped_via"], on_stopped)):
                if via == "mode":
                    mode.add_mode_event_handler(ev, h)
                else:
                    keys.append(m.events.add_handler(ev, h))
        reg()

        def goto(t):
            d = t0 + t / 1e6 - loop.time()
            rig.advance(d if d > 0 else 0)

        def settle():
            # the lifecycle is a chain of queued events and tasks: let the loop finish it (no virtual time passes)
            for _ in range(5):
                rig.advance(0)

        ctl = case.get("ctl", [])
        for t, ops in case["pre"]:
            goto(t)
            S.ext(t, ops)
        if "pre" in ctl:
            S.ctl(m, "m2_c1_count", CTL_MS)
        goto(case["stop_at"])
        S.log.append(["stop-request", S.now()])
        rig.post("stop_m2")
        settle()
        t = case["stop_at"]
        if case["hold"]:
            if case["stop_again"] == "stopping":
                mode.stop()
            t += case["hold"]
            goto(t)
            S.ext(t, case["window"])
            if "window" in ctl:
                S.ctl(m, "m2_c1_count", CTL_MS)
            if hold["queue"] is not None:
                hold["queue"].clear()
            settle()
        if case["restart"] != "handler":
            fin = (not mode.active) and (not mode._cleanup_pending) and (not mode.stopping)
            S.log.append(["finished", S.now(), fin, len(mode.delay.delays)])
            if case["stop_again"] == "idle":
                mode.stop()
            if "idle" in ctl:
                S.ctl(m, "m2_c1_count", CTL_MS)
        if case["restart"] == "later":
            t += 125000
            goto(t)
            rig.post("start_m2")
            settle()
        if case["restart"]:
            S.log.append(["restarted", S.now(), bool(mode.active)])
            if "post" in ctl:
                S.ctl(m, "m2_c1_count", CTL_MS)
            for dt, ops in case["post"]:
                t += dt
                goto(t)
                S.ext(t, ops)
            if case["stop2"]:
                t += 125000
                goto(t)
                S.log.append(["stop-request", S.now()])
                rig.post("stop_m2")
                settle()
                S.log.append(["finished", S.now(), not mode.active and not mode._cleanup_pending, len(mode.delay.delays)])
        goto(t + case["tail"])
        S.ext(t + case["tail"], [])
        S.log.append(["end", S.now(), len(mode.delay.delays), bool(mode.active)])
    finally:
        _MH["mode"], _MH["rec"] = None, None
        if S is not None:
            S.close()
        for k in keys:
            m.events.remove_handler_by_key(k)
        if hold["queue"] is not None and not hold["queue"].is_empty():
            hold["queue"].clear()
        mode.delay.clear()
        rig.advance(0)
        if mode.active:
            rig.post("stop_m2")
            rig.advance(0.125)
    out = {"log": S.log, "steps": S.steps, "flags0": flags0}
    if rig.exception():
        out["exc"] = repr(rig.exception())[:300]
    return out


def _cmstep(s):
    k = s[0]
    if k == "ext":
        return "(MOps %s %s)" % (zlit(s[1]), coqlist(_cop(o) for o in s[2]))
    if k in ("fire", "fireat"):
        return "(MFire %s %s)" % (zlit(s[1]), zlit(s[2]))
    if k == "ctl":
        return "(MCtl %s %s)" % (zlit(s[1]), zlit(s[2]))
    return "(%s %s)" % ({"mstart": "MStart", "mstarted": "MStarted", "mstop": "MStop", "mstopped": "MStopped",
                         "mwoundup": "MWoundUp"}[k], zlit(s[1]))


def coq_modestop(case, out):
    if "exc" in out or "harness_error" in out or any(e[0] == "runaway" for e in out["log"]):
        return None
    f = out["flags0"]
    m0 = "(mkM %s %s %s %s)" % (blit(f & 1), blit(f & 2), blit(f & 4), blit(f & 8))
    scripts = coqlist(coqlist(_cop(o) for o in s) for s in case["scripts"])
    steps = coqlist(_cmstep(s) for s in out["steps"])
    evs = coqlist(_cev(e) for e in out["log"] if e[0] in VISIBLE)
    return "((%s, %s, %s), %s)" % (scripts, m0, steps, evs)


def oracle_modestop(case, out):
    fails = []

    def fail(sig, what):
        if not any(f["sig"] == sig for f in fails):
            fails.append({"sig": sig, "what": what})

    if "harness_error" in out:
        fail("mode-harness", out["harness_error"])
        return fails
    if "exc" in out:
        fail("mode-exception", out["exc"])
    if any(e[0] == "foreign" for e in out["log"]):
        fail("mode-control-event-foreign-manager", "a delayed control event of the mode's device was scheduled on machine.delay, "
                                                   "which the mode's stop does not clear")
    # 1. the delay property itself on the mode's manager, with the stop markers ending ownership
    _spec_pass(out["log"], fail, late=False, owner=True)
    # 2. the lifecycle, read from the log alone: every stop request on a running mode is followed (same instant) by an
    #    effective stop marker; when the mode has finished stopping nothing is left and nothing added before fires
    requested = None
    finished_ids = None
    ids = set()
    for e in out["log"]:
        if e[0] == "add":
            ids.add(e[2])
        elif e[0] == "stop-request":
            requested = e[1]
        elif e[0] == "mode" and e[1] == 1:
            requested = None
        elif e[0] == "finished":
            if requested is not None:
                fail("mode-stop-ignored", "stop requested at %d on the running mode: Mode.stop() did not begin stopping" % requested)
            if not e[2]:
                fail("mode-not-stopped", "the mode did not finish stopping")
            if e[3]:
                fail("mode-delay-left-behind", "mode.delay still holds %d entries after the mode has stopped" % e[3])
            finished_ids = set(ids)
        elif e[0] == "restarted":
            if not e[2]:
                fail("mode-not-restarted", "the mode did not start again")
        elif e[0] == "call" and finished_ids is not None and e[2] in finished_ids:
            fail("mode-delay-survived-stop", "delay id %d of the stopped mode fired at %d" % (e[2], e[6]))
    return fails


def shrink_modestop(case):
    for k in ("stopping", "stopped", "window"):
        for ops in _shrink_ops(case[k]):
            yield dict(case, **{k: ops})
    for k in ("pre", "post"):
        st = case[k]
        for i in range(len(st)):
            yield dict(case, **{k: st[:i] + st[i + 1:]})
            for ops in _shrink_ops(st[i][1]):
                yield dict(case, **{k: st[:i] + [[st[i][0], ops]] + st[i + 1:]})
    sc = case["scripts"]
    for j in range(len(sc)):
        for ops in _shrink_ops(sc[j]):
            yield dict(case, scripts=sc[:j] + [ops] + sc[j + 1:])
    if case["stop2"]:
        yield dict(case, stop2=False)
    if case["stop_again"]:
        yield dict(case, stop_again=None)
    for w in case.get("ctl", []):
        yield dict(case, ctl=[x for x in case["ctl"] if x != w])
    if case["restart"] and not case["post"] and not case["stop2"]:
        yield dict(case, restart=None)
    if case["hold"] and not case["window"]:
        yield dict(case, hold=0, stop_again=None if case["stop_again"] == "stopping" else case["stop_again"])


def nontrivial_modestop(case, out):
    log = out.get("log", [])
    return any(e[0] == "add" for e in log) and any(e[0] == "mode" and e[1] == 1 for e in log)


HDR_OWNER = "From C13 Require Import Model Owner.\nDefinition run := owner_run.\nDefinition out_eqb := owner_out_eqb.\n"
SUITES.append(Suite("modestop", gen_modestop, run_modestop, HDR_OWNER, coq_modestop, oracle_modestop, shrink_modestop,
                    nontrivial_modestop, {"quick": 600, "thorough": 12000}, worker_init=_init_timer_rig, shard=200,
                    describe=lambda c: ("hold " if c["hold"] else "") + ("stopping " if c["stopping"] else "") +
                    ("stopped " if c["stopped"] else "") + ("restart-" + c["restart"] if c["restart"] else "")))
