"""C01 — Event dispatch is complete, priority-ordered and serial.

Correspondence: the real EventManager of a booted machine (rig.machine.events) and the Gallina model
coq/C01/Model.v interpret the same handler scripts; the observation lists (handler invocations with
merged kwargs, completion callbacks, queue lengths after each turn, final handler order) must be equal.
Oracle: an acceptor for the property's own language (written from the property text, not from the
queue-stack algorithm) walks the implementation's trace.
"""
import json

from vlib import Suite, zlit, coqlist, blit, opt

ID = "C01"
READY = True
RULE = ("handler scripts generated from one PRNG: 2-6 events, 3-14 registrations with priorities from a small set "
        "(many ties, '.N' suffixes, relative_priority; in half of the cases the same procedure registered 2-4 times "
        "for one event with equal/adjacent priorities), conditions, colliding kwargs, programs that post (plain / "
        "boolean / relay, with and without completion callbacks), add, replace and remove handlers (by key and by "
        "method) during dispatch; 1-3 "
        "turns per case from four posting contexts (direct, delay callback, switch handler, timed switch handler). "
        "non-trivial = at least one event posted from inside a handler or callback and at least one dispatch with "
        ">= 2 handlers; distinct by case hash")
TRUSTED_BASE = [
    "Coq 8.16.1 kernel (coqc), vm_compute for evaluating the model in the correspondence run and for the _refuted witness; no native_compute",
    "axioms: none (every Print Assumptions is 'Closed under the global context')",
    "hand-written model coq/C01/Model.v tied to /repo by correspondence: harness/props/c01.py runs the real "
    "EventManager (booted machine on the virtual clock) and the model on the same scripts",
    "CPython: list.sort stability, dict semantics, asyncio call_soon / call_at; MPF DelayManager, SwitchController and "
    "BoolTemplate are used as posting contexts / condition evaluator and are not modelled beyond 'runs the user callback, "
    "then the queue is drained' and 'k == z on the merged kwargs'",
]
ASSUMPTIONS = [
    "handlers do not raise; queue-type events (post_queue, asynchronous) belong to C02 and are not generated",
    "_min_priority / blocking_facility skipping and the BCP monitor branch are not exercised",
    "handlers run only the scripted actions (post, add_handler, replace_handler, remove_handler_by_key, "
    "remove_handler(method), return a value); handler identity for remove/replace is equality of a callable per procedure",
]
DESIGN_REF = "DESIGN.md section 3, C01"
TECHNIQUE = "Coq proof over an executable Gallina model + differential correspondence + direct trace oracle"
LEVEL_TEXT = ("Machine-checked proof (Coq) that the literal transcription of process_event_queue (stack of deques) refines a "
              "short depth-first specification for every handler script: no queued event is lost (stack invariant), the "
              "handlers of one dispatch are the registered snapshot in descending priority with ties in registration "
              "order, each exactly once with handler kwargs overriding posted ones, posts made during an event are "
              "dispatched before any waiting event, every queued event is dispatched exactly once and every completion "
              "callback runs exactly once and only when nothing is pending. The model is tied to the working tree by "
              "running both on the same generated scripts on every run.")
LEVEL_NOTE = ("Trusted: Coq kernel + vm_compute; no axioms. Model hand-written; correspondence validates it against the "
              "working tree on a booted machine. One recorded low-severity finding: _post's fast path drops an event "
              "that has no handler yet at post time even if one is registered before its dispatch would begin.")

KEYS = 4          # user kwargs keys k1..k4
CTX_NAMES = ["direct", "delay", "switch", "timed_switch"]
_G = {}


# ------------------------------------------------------------------------------------------------
# generator
def rval(rng):
    r = rng.random()
    if r < 0.6:
        return ["z", rng.choice([0, 1, 1, 2, 2, 3, -1])]
    if r < 0.85:
        return ["b", rng.choice([0, 1])]
    return ["n"]


def rkw(rng, nmax):
    n = rng.choice([0, 0, 1, 1, 2, 3][:nmax + 2])
    ks = rng.sample(range(1, KEYS + 1), min(n, KEYS))
    return [[k, rval(rng)] for k in ks]


def rret(rng):
    r = rng.random()
    if r < 0.62:
        return ["none"]
    if r < 0.74:
        return ["b", 0]
    if r < 0.80:
        return ["b", 1]
    if r < 0.86:
        return ["z", rng.choice([0, 3])]
    ks = sorted(rng.sample(range(1, KEYS + 1), rng.choice([0, 1, 1, 2])))
    return ["m", [[k, rng.choice([0, 1, 2, 5])] for k in ks]]


def gen_case(rng, tier, i):
    big = tier == "thorough"
    nev = rng.randint(2, 6)
    npid = rng.randint(3, 10 if not big else 14)
    st = {"key": 0, "burst": []}
    allkeys = []

    def radd():
        st["key"] += 1
        allkeys.append(st["key"])
        cond = None
        if rng.random() < 0.25:
            cond = [rng.randint(1, KEYS), rng.choice([0, 1, 1, 2])]
        suffix = rng.choice([0, 0, 0, 0, 1, 2, -1])
        rel = rng.choice([0, 0, 0, 0, 1, -1])
        return ["add", st["key"], rng.randint(1, nev), rng.randint(1, npid),
                rng.choice([1, 1, 1, 1, 2, 2, 3, 0, 5, -2]), suffix, rel, rkw(rng, 2), cond]

    def rpost():
        ty = rng.choice(["none", "none", "none", "bool", "relay"])
        cb = rng.randint(1, npid) if rng.random() < 0.35 else None
        return ["post", rng.randint(1, nev), ty, cb, rkw(rng, 3)]

    def rrepl():
        st["key"] += 1
        return ["repl", st["key"], rng.randint(1, nev), rng.randint(1, npid), rng.choice([1, 1, 2, 0, 3]),
                rkw(rng, 1) if rng.random() < 0.5 else []]

    def rburst():
        """the same procedure registered 2-4 times for one event, equal or adjacent priorities"""
        e, hp, base = rng.randint(1, nev), rng.randint(1, npid), rng.choice([1, 1, 2, 0])
        out = []
        for _ in range(rng.randint(2, 4)):
            a = radd()
            a[2], a[3], a[4], a[5], a[6] = e, hp, base + rng.choice([0, 0, 0, 1]), 0, 0
            if rng.random() < 0.7:
                a[8] = None
            out.append(a)
        st["burst"].append(hp)
        return out

    def rrmm():
        if st["burst"] and rng.random() < 0.7:
            return ["rmm", rng.choice(st["burst"])]
        return ["rmm", rng.randint(1, npid)]

    def ract():
        r = rng.random()
        if r < 0.52:
            return rpost()
        if r < 0.74:
            return radd()
        if r < 0.82:
            return rrmm()
        if r < 0.87:
            return rrepl()
        return ["rm", rng.randint(1, max(1, st["key"] + 3))]

    script = {}
    late = rng.random() < 0.12       # sometimes post first and register afterwards (fast-path class)
    acts = [radd() for _ in range(rng.randint(3, 12 if not big else 20))]
    if rng.random() < 0.5:
        for _ in range(rng.choice([1, 1, 2])):
            k = rng.randint(0, len(acts))
            acts[k:k] = rburst()
    for p in range(1, npid + 1):
        progs = []
        for _ in range(rng.choice([1, 1, 2, 2, 3])):
            progs.append({"acts": [ract() for _ in range(rng.choice([0, 1, 1, 2, 2, 3, 4]))], "ret": rret(rng)})
        script[str(p)] = progs
    # the first turn starts with a registration phase so that dispatches have several handlers
    nturn = rng.choice([1, 1, 2, 3])
    turns = []
    setup_pid = npid + 1
    posts = [rpost() for _ in range(rng.choice([1, 1, 2, 3]))]
    script[str(setup_pid)] = [{"acts": (posts + acts) if late else (acts + posts), "ret": ["none"]}]
    turns.append([rng.choice([0, 0, 1, 2, 3]), setup_pid])
    for t in range(1, nturn):
        pid = npid + 1 + t
        script[str(pid)] = [{"acts": [ract() for _ in range(rng.randint(1, 4))] + [rpost()], "ret": ["none"]}]
        turns.append([rng.randint(0, 3), pid])
    return {"nev": nev, "script": script, "turns": turns}


# ------------------------------------------------------------------------------------------------
# implementation runner
def worker_init():
    from rig import Rig
    r = Rig({"switches": {"s_c01": {"number": "1"}, "s_c01t": {"number": "2"}}})
    r.start()
    _G["rig"] = r
    _G["n"] = 0


def kname(k):
    return "ev_result" if k == 0 else "k%d" % k


def pyval(v):
    return {"z": lambda: int(v[1]), "b": lambda: bool(v[1]), "n": lambda: None}[v[0]]()


def canon_val(v):
    if isinstance(v, bool):
        return ["b", int(v)]
    if isinstance(v, int):
        return ["z", v]
    if v is None:
        return ["n"]
    if isinstance(v, dict):
        return ["m", sorted([[knum(k), int(x)] for k, x in v.items()])]
    return ["?", repr(v)]


def knum(k):
    if k == "ev_result":
        return 0
    if k.startswith("k") and k[1:].isdigit():
        return int(k[1:])
    return -1


def canon_kw(d):
    return sorted([[knum(k), canon_val(v)] for k, v in d.items()])


class _Method:
    """a handler callable that compares equal to every other registration of the same procedure - like two
    accesses of one bound method do - and still knows which registration it is"""

    def __init__(self, key, pid, e, fn):
        self._c01key = key
        self.pid = pid
        self.e = e
        self.fn = fn

    def __call__(self, **kwargs):
        return self.fn(self, kwargs)

    def __eq__(self, other):
        return isinstance(other, _Method) and other.pid == self.pid

    def __hash__(self):
        return hash(("c01", self.pid))


def run_impl(case):
    if "rig" not in _G:
        worker_init()
    rig = _G["rig"]
    _G["n"] += 1
    pre = "c01x%d_e" % _G["n"]
    ev = rig.machine.events
    script = case["script"]
    cnt = {}
    keymap = {}
    trace = []
    npost = [0]

    def run_prog(pid):
        k = cnt.get(pid, 0)
        cnt[pid] = k + 1
        progs = script.get(str(pid), [])
        if k >= len(progs):
            return None
        for a in progs[k]["acts"]:
            if a[0] == "post":
                _, e, ty, cb, kws = a
                i = npost[0]
                npost[0] += 1
                kwargs = {kname(kk): pyval(v) for kk, v in kws}
                cbf = None
                if cb is not None:
                    def cbf(_i=i, _cb=cb, **kwargs):
                        trace.append(["C", _i, _cb, canon_kw(kwargs)])
                        run_prog(_cb)
                f = {"none": ev.post, "bool": ev.post_boolean, "relay": ev.post_relay}[ty]
                f(pre + str(e), cbf, **kwargs)
            elif a[0] == "add":
                _, key, e, hp, prio, suffix, rel, hk, cond = a

                h = _Method(key, hp, e, call)
                if rel != 0:
                    h.relative_priority = rel
                name = pre + str(e)
                if suffix != 0:
                    name += ".%d" % suffix
                if cond is not None:
                    name += "{k%d==%d}" % (cond[0], cond[1])
                keymap[key] = ev.add_handler(name, h, prio, **{kname(kk): pyval(v) for kk, v in hk})
            elif a[0] == "rm":
                if a[1] in keymap:
                    ev.remove_handler_by_key(keymap[a[1]])
            elif a[0] == "rmm":
                ev.remove_handler(_Method(None, a[1], None, None))
            elif a[0] == "repl":
                _, key, e, hp, prio, hk = a
                keymap[key] = ev.replace_handler(pre + str(e), _Method(key, hp, e, call), prio,
                                                 **{kname(kk): pyval(v) for kk, v in hk})
        return progs[k]["ret"]

    def call(m, kwargs):
        trace.append(["I", m._c01key, m.pid, m.e, canon_kw(kwargs)])
        return ret_val(run_prog(m.pid))

    def run_prog_ret(pid):
        return run_prog(pid)

    def ret_val(r):
        if r is None or r[0] == "none":
            return None
        if r[0] == "b":
            return bool(r[1])
        if r[0] == "z":
            return int(r[1])
        return {kname(k): int(v) for k, v in r[1]}

    err = None
    try:
        for kind, pid in case["turns"]:
            def ctx(_pid=pid, **kwargs):
                trace.append(["X", _pid])
                run_prog(_pid)
            if kind == 0:
                ctx()
                rig.advance(0.01)
            elif kind == 1:
                rig.machine.delay.add(ms=125, callback=ctx)
                rig.advance(0.25)
            elif kind == 2:
                sh = rig.machine.switch_controller.add_switch_handler("s_c01", ctx, state=1, ms=0)
                rig.machine.switch_controller.process_switch("s_c01", state=1, logical=True)
                rig.advance(0.01)
                rig.machine.switch_controller.remove_switch_handler_by_key(sh)
                rig.machine.switch_controller.process_switch("s_c01", state=0, logical=True)
                rig.advance(0.01)
            else:
                sh = rig.machine.switch_controller.add_switch_handler("s_c01t", ctx, state=1, ms=125)
                rig.machine.switch_controller.process_switch("s_c01t", state=1, logical=True)
                rig.advance(0.25)
                rig.machine.switch_controller.remove_switch_handler_by_key(sh)
                rig.machine.switch_controller.process_switch("s_c01t", state=0, logical=True)
                rig.advance(0.01)
            trace.append(["Q", len(ev.event_queue), len(ev.callback_queue)])
            if rig.exception() is not None:
                err = repr(rig.exception())[:300]
                break
    except Exception as e:   # noqa  (what the code may raise is returned as data)
        err = "%s: %s" % (type(e).__name__, str(e)[:300])
    final = []
    for e in range(1, case["nev"] + 1):
        hs = ev.registered_handlers.get(pre + str(e)) if (pre + str(e)) in ev.registered_handlers else []
        final.append([getattr(h.callback, "_c01key", -1) for h in hs])
    # leave the shared rig clean
    for k in keymap.values():
        ev.remove_handler_by_key(k)
    if err is not None:
        ev.event_queue.clear()
        ev.callback_queue.clear()
        rig._exception = None
    return {"trace": trace, "final": final, "err": err}


# ------------------------------------------------------------------------------------------------
# Coq printers
def cval(v):
    if v[0] == "z":
        return "(VZ %s)" % zlit(v[1])
    if v[0] == "b":
        return "(VB %s)" % blit(v[1])
    if v[0] == "n":
        return "VNone"
    if v[0] == "m":
        return "(VMap %s)" % coqlist("(%s,%s)" % (zlit(k), zlit(x)) for k, x in v[1])
    raise ValueError(v)


def ckw(kw):
    return coqlist("(%s,%s)" % (zlit(k), cval(v)) for k, v in kw)


def cret(r):
    if r[0] == "none":
        return "RNone"
    if r[0] == "b":
        return "(RB %s)" % blit(r[1])
    if r[0] == "z":
        return "(RZ %s)" % zlit(r[1])
    return "(RMap %s)" % coqlist("(%s,%s)" % (zlit(k), zlit(x)) for k, x in r[1])


def cact(a):
    if a[0] == "post":
        ty = {"none": "TNone", "bool": "TBool", "relay": "TRelay"}[a[2]]
        return "(APost %s %s %s %s)" % (zlit(a[1]), ty, opt(a[3], zlit), ckw(a[4]))
    if a[0] == "add":
        _, key, e, hp, prio, suffix, rel, hk, cond = a
        c = "None" if cond is None else "(Some (%s,%s))" % (zlit(cond[0]), zlit(cond[1]))
        return "(AAdd %s %s %s %s %s %s %s %s)" % (zlit(key), zlit(e), zlit(hp), zlit(prio), zlit(suffix), zlit(rel),
                                                   ckw(hk), c)
    if a[0] == "rmm":
        return "(ARemoveMethod %s)" % zlit(a[1])
    if a[0] == "repl":
        return "(AReplace %s %s %s %s %s)" % (zlit(a[1]), zlit(a[2]), zlit(a[3]), zlit(a[4]), ckw(a[5]))
    return "(ARemove %s)" % zlit(a[1])


def cobs(o):
    if o[0] == "X":
        return "(Ctx %s)" % zlit(o[1])
    if o[0] == "I":
        return "(Invoke %s %s %s %s)" % (zlit(o[1]), zlit(o[2]), zlit(o[3]), ckw(o[4]))
    if o[0] == "C":
        return "(Callback %s %s %s)" % (zlit(o[1]), zlit(o[2]), ckw(o[3]))
    return "(Quiet %s %s)" % (zlit(o[1]), zlit(o[2]))


def has_unknown(out):
    return "?" in json.dumps(out["trace"]) and any(
        v[0] == "?" for o in out["trace"] if o[0] in ("I", "C") for _, v in o[-1])


def coq_case(case, out):
    if out.get("err") is not None or has_unknown(out):
        return None      # reported by the oracle ("exception"); outside the model's domain
    sc = coqlist("(%s,%s)" % (zlit(int(p)), coqlist("(mkP %s %s)" % (coqlist(cact(a) for a in pr["acts"]), cret(pr["ret"]))
                                                    for pr in progs))
                 for p, progs in sorted(case["script"].items(), key=lambda kv: int(kv[0])))
    turns = coqlist(zlit(p) for _, p in case["turns"])
    evs = coqlist(zlit(e) for e in range(1, case["nev"] + 1))
    exp = "(true, %s, %s)" % (coqlist(cobs(o) for o in out["trace"]),
                              coqlist(coqlist(zlit(k) for k in l) for l in out["final"]))
    return "((%s, %s, %s), %s)" % (sc, turns, evs, exp)


HDR = "From C01 Require Import Model.\nDefinition run := c01_run.\nDefinition out_eqb := c01_out_eqb.\n"


# ------------------------------------------------------------------------------------------------
# oracle: acceptor for the property's language.  It interprets the scripts at specification level (a set of live
# registrations, one pending list with "posted during an event goes in front", a set of pending callbacks) and
# checks every observation of the implementation against what the property permits at that point.
class Reject(Exception):
    def __init__(self, sig, what):
        super().__init__(what)
        self.sig = sig
        self.what = what


def kw_merge(a, b):
    d = dict((k, v) for k, v in a)
    d.update(dict((k, v) for k, v in b))
    return sorted([[k, v] for k, v in d.items()])


def cond_ok(cond, kw):
    if cond is None:
        return True
    d = dict((k, v) for k, v in kw)
    v = d.get(cond[0])
    if v is None or v[0] not in ("z", "b"):
        return False
    return int(v[1]) == cond[1]


class Acceptor:
    def __init__(self, case, fastpath):
        self.script = case["script"]
        self.fast = fastpath
        self.cnt = {}
        self.live = {}        # key -> registration
        self.known = {}       # key -> registration (ever added)
        self.seq = 0
        self.pending = []     # posts waiting, in the order the property prescribes
        self.cur = None       # dispatch in progress
        self.cbs = {}         # postid -> (pid, kwargs) completion callbacks waiting
        self.npost = 0
        self.done_cbs = set()
        self.dropped = 0

    # -- script interpretation (effects of one invocation) -----------------------------------------
    def run_prog(self, pid, sink):
        k = self.cnt.get(pid, 0)
        self.cnt[pid] = k + 1
        progs = self.script.get(str(pid), [])
        if k >= len(progs):
            return ["none"]
        for a in progs[k]["acts"]:
            if a[0] == "post":
                _, e, ty, cb, kws = a
                i = self.npost
                self.npost += 1
                if self.fast and cb is None and not any(r["e"] == e for r in self.live.values()):
                    self.dropped += 1
                    continue
                sink.append({"id": i, "e": e, "ty": ty, "cb": cb, "kw": kw_merge([], kws)})
            elif a[0] == "add":
                _, key, e, hp, prio, suffix, rel, hk, cond = a
                self.seq += 1
                r = {"key": key, "e": e, "pid": hp, "prio": prio + suffix + rel, "seq": self.seq,
                     "kw": kw_merge([], hk), "cond": cond}
                self.live[key] = r
                self.known[key] = r
            elif a[0] == "rm":
                self.live.pop(a[1], None)
            elif a[0] == "rmm":
                for key in [key for key, r in self.live.items() if r["pid"] == a[1]]:
                    del self.live[key]
            elif a[0] == "repl":
                _, key, e, hp, prio, hk = a
                want = {kk: pyval(v) for kk, v in hk}
                for k2 in [k2 for k2, r in self.live.items() if r["e"] == e and r["pid"] == hp and
                           (not hk or {kk: pyval(v) for kk, v in r["kw"]} == want)]:
                    del self.live[k2]
                self.seq += 1
                r = {"key": key, "e": e, "pid": hp, "prio": prio, "seq": self.seq, "kw": kw_merge([], hk),
                     "cond": None}
                self.live[key] = r
                self.known[key] = r
        return progs[k]["ret"]

    # -- dispatch bookkeeping ------------------------------------------------------------------------
    def begin(self, post):
        snap = sorted([r for r in self.live.values() if r["e"] == post["e"]], key=lambda r: (-r["prio"], r["seq"]))
        self.cur = {"post": post, "todo": snap, "done": [], "kw": post["kw"], "new": [], "aborted": False,
                    "result": ["none"]}

    def finish(self):
        c = self.cur
        # every handler of the snapshot that is still registered and whose condition holds must have been called
        if not c["aborted"]:
            for r in c["todo"]:
                if r["key"] in self.live and cond_ok(r["cond"], kw_merge(c["kw"], r["kw"])):
                    raise Reject("handler-missed", "handler %d (priority %d) registered for event %d when its dispatch "
                                 "began was not called" % (r["key"], r["prio"], r["e"]))
        p = c["post"]
        if p["cb"] is not None:
            kw = c["kw"]
            if c["aborted"]:
                kw = kw_merge(kw, [[0, ["b", 0]]])
            elif truthy(c["result"]):
                kw = kw_merge(kw, [[0, c["result"]]])
            self.cbs[p["id"]] = (p["cb"], kw)
        self.pending = c["new"] + self.pending        # posted during the event: before anything already waiting
        self.cur = None

    def on_invoke(self, key, pid, e, kw):
        r = self.known.get(key)
        if r is None:
            raise Reject("invoke-unknown", "handler %d was never registered" % key)
        c0 = self.cur
        try:
            # find the dispatch the observation belongs to: the one in progress, or - after completing it and every
            # waiting event that calls nobody - the next waiting one
            while True:
                if self.cur is None:
                    if not self.pending:
                        raise Reject("invoke-without-event", "handler %d called for event %d although no posted event "
                                     "is waiting" % (key, e))
                    self.begin(self.pending.pop(0))
                c = self.cur
                if c["post"]["e"] == e and not c["aborted"] and any(x["key"] == key for x in c["todo"]) and \
                        cond_ok(r["cond"], kw_merge(c["kw"], r["kw"])):
                    break
                self.finish()
        except Reject as rj:
            if key not in self.live and not (c0 is not None and any(x["key"] == key for x in c0["todo"] + c0["done"])):
                raise Reject("removed-handler-invoked", "handler %d (procedure %d, event %d) was removed before this "
                             "dispatch began and is still called" % (key, r["pid"], e))
            if c0 is not None and c0["post"]["e"] == e and any(x["key"] == key for x in c0["done"]):
                raise Reject("handler-twice", "handler %d called twice in one dispatch of event %d" % (key, e))
            if c0 is not None and c0["post"]["e"] == e and key in self.live and \
                    not any(x["key"] == key for x in c0["todo"] + c0["done"]):
                raise Reject("handler-not-in-snapshot", "handler %d, registered during the dispatch of event %d, was "
                             "called in that dispatch" % (key, e))
            if c0 is not None and c0["post"]["e"] == e and not c0["aborted"] and \
                    any(x["key"] == key for x in c0["todo"]):
                raise Reject("condition-ignored", "handler %d called although its condition is false on %s" %
                             (key, kw_merge(c0["kw"], r["kw"])))
            if rj.sig == "handler-missed" and self.cur is not None and self.cur["post"]["e"] != e:
                raise Reject("dispatch-order", "handler %d of event %d was called although event %d (post #%d) has to be "
                             "dispatched before it: %s" % (key, e, self.cur["post"]["e"], self.cur["post"]["id"], rj.what))
            raise
        c = self.cur
        # order within the dispatch (the property fixes descending priority; the order among equal priorities is the
        # model's business): a handler of strictly greater priority that is still registered and whose condition
        # holds must not be passed over; skippable handlers that were passed are out of the dispatch
        idx = [x["key"] for x in c["todo"]].index(key)
        keep = []
        for x in c["todo"][:idx]:
            if x["key"] not in self.live:
                keep.append(x)          # removed before its turn: the property leaves it open whether it is called
            elif cond_ok(x["cond"], kw_merge(c["kw"], x["kw"])):
                if x["prio"] > r["prio"]:
                    raise Reject("handler-order", "handler %d (priority %d) called before (or instead of) handler %d "
                                 "(priority %d) in the dispatch of event %d" % (key, r["prio"], x["key"], x["prio"], e))
                keep.append(x)
        c["todo"] = keep + c["todo"][idx + 1:]
        c["done"].append(r)
        want = kw_merge(c["kw"], r["kw"])
        if want != kw:
            raise Reject("kwargs-merge", "handler %d got %s; posted (+relayed) %s, registered with the handler %s" %
                         (key, kw, c["kw"], r["kw"]))
        if pid != r["pid"] or e != r["e"]:
            raise Reject("invoke-wrong-handler", "registration %d: observed pid/event differ" % key)
        ret = self.run_prog(pid, c["new"])
        c["result"] = ret
        if c["post"]["ty"] == "bool" and ret == ["b", 0]:
            c["aborted"] = True
            c["todo"] = []
        elif c["post"]["ty"] == "relay" and ret[0] == "m":
            c["kw"] = kw_merge(c["kw"], [[k, ["z", v]] for k, v in ret[1]])

    def silent(self, post):
        """a waiting event whose dispatch would call nobody (so it produces no observation)"""
        for r in self.live.values():
            if r["e"] == post["e"] and cond_ok(r["cond"], kw_merge(post["kw"], r["kw"])):
                return False
        return True

    def flush_silent(self):
        """complete the current dispatch and all waiting events that call nobody"""
        while True:
            if self.cur is not None:
                self.finish()
            if not self.pending:
                return
            nxt = self.pending[0]
            if not self.silent(nxt):
                raise Reject("event-lost", "event %d (post #%d) was posted but its handlers were not called" %
                             (nxt["e"], nxt["id"]))
            self.begin(self.pending.pop(0))

    def on_callback(self, i, pid, kw):
        try:
            self.flush_silent()
        except Reject as rj:
            raise Reject("callback-early", "completion callback of post #%d ran while events were still to be "
                         "dispatched (%s)" % (i, rj.what))
        if i in self.done_cbs:
            raise Reject("callback-twice", "completion callback of post #%d ran twice" % i)
        if i not in self.cbs:
            raise Reject("callback-unknown", "completion callback of post #%d ran but that event has not been "
                         "dispatched" % i)
        cpid, want = self.cbs.pop(i)
        self.done_cbs.add(i)
        if cpid != pid:
            raise Reject("callback-unknown", "post #%d: wrong callback" % i)
        self.run_prog(pid, self.pending)

    def on_ctx(self, pid):
        self.end_turn()
        self.run_prog(pid, self.pending)

    def end_turn(self):
        self.flush_silent()
        if self.cbs:
            raise Reject("callback-missed", "completion callbacks of posts %s never ran" % sorted(self.cbs))

    def walk(self, trace):
        for o in trace:
            if o[0] == "X":
                self.on_ctx(o[1])
            elif o[0] == "I":
                self.on_invoke(o[1], o[2], o[3], o[4])
            elif o[0] == "C":
                self.on_callback(o[1], o[2], o[3])
            elif o[0] == "Q":
                self.end_turn()
                if o[1] or o[2]:
                    raise Reject("queue-not-drained", "after the turn event_queue has %d and callback_queue %d entries"
                                 % (o[1], o[2]))
        self.end_turn()


def truthy(r):
    if r[0] == "none":
        return False
    if r[0] in ("b", "z"):
        return bool(r[1])
    return bool(r[1])


def accept(case, out, fastpath):
    try:
        Acceptor(case, fastpath).walk(out["trace"])
        return None
    except Reject as rj:
        return {"sig": rj.sig, "what": rj.what}


def oracle(case, out):
    if out.get("err") is not None:
        return [{"sig": "exception", "what": "event dispatch raised: %s" % out["err"]}]
    strict = accept(case, out, False)
    if strict is None:
        return []
    fast = accept(case, out, True)
    if fast is None:
        # exactly what the recorded defect produces: the trace is accepted once posts that had neither a callback nor a
        # registered handler at post time are taken out, and rejected when they are kept
        return [{"sig": "fastpath-drop-late-registration",
                 "what": "an event posted when it had no handler (and no callback) is dropped at post time; a handler "
                         "registered before its dispatch would have begun is not called (%s)" % strict["what"]}]
    return [fast]


# ------------------------------------------------------------------------------------------------
def shrink(case):
    sc = case["script"]
    turns = case["turns"]
    if len(turns) > 1:
        for i in range(len(turns)):
            yield dict(case, turns=turns[:i] + turns[i + 1:])
    for p in sorted(sc, key=int):
        progs = sc[p]
        for j in range(len(progs)):
            acts = progs[j]["acts"]
            for k in range(len(acts)):
                np = progs[:j] + [{"acts": acts[:k] + acts[k + 1:], "ret": progs[j]["ret"]}] + progs[j + 1:]
                yield dict(case, script=dict(sc, **{p: np}))
            if progs[j]["ret"] != ["none"]:
                np = progs[:j] + [{"acts": acts, "ret": ["none"]}] + progs[j + 1:]
                yield dict(case, script=dict(sc, **{p: np}))
    for p in sorted(sc, key=int):
        for j, pr in enumerate(sc[p]):
            for k, a in enumerate(pr["acts"]):
                small = None
                if a[0] == "post" and (a[4] or a[3] is not None):
                    small = ["post", a[1], a[2], None if not a[4] else a[3], []]
                elif a[0] == "add" and len(a) == 9 and (a[5] or a[6] or a[7] or a[8]):
                    small = ["add", a[1], a[2], a[3], a[4], 0, 0, [], None]
                if small is not None:
                    np = sc[p][:j] + [{"acts": pr["acts"][:k] + [small] + pr["acts"][k + 1:], "ret": pr["ret"]}] + sc[p][j + 1:]
                    yield dict(case, script=dict(sc, **{p: np}))
    for t in range(len(turns)):
        if turns[t][0] != 0:
            yield dict(case, turns=turns[:t] + [[0, turns[t][1]]] + turns[t + 1:])


def nontrivial(case, out):
    tr = out.get("trace", [])
    depth = False
    multi = False
    run = 0
    last = None
    for o in tr:
        if o[0] == "I":
            run = run + 1 if last == o[3] else 1
            last = o[3]
            if run >= 2:
                multi = True
        else:
            last = None
            run = 0
    # an Invoke after the first one of a turn that belongs to a different event => posted from inside
    seen_ev = set()
    for o in tr:
        if o[0] == "X":
            seen_ev = set()
        elif o[0] == "I":
            seen_ev.add(o[3])
        if len(seen_ev) >= 2:
            depth = True
    return depth and multi


def describe(case):
    return "turns=%d ctx=%s" % (len(case["turns"]), CTX_NAMES[case["turns"][0][0]])


def widened_search(seed):
    """oracle-only search with thorough-size scripts, used when a proof or the correspondence breaks"""
    import random
    rng = random.Random((seed * 7919) ^ 0xC01)
    for i in range(6000):
        c = gen_case(rng, "thorough", i)
        o = run_impl(c)
        for f in oracle(c, o):
            if f["sig"] != "fastpath-drop-late-registration":
                return {"sig": f["sig"], "what": f["what"], "case": c, "suite": "dispatch"}
    return None


SUITES = [
    Suite("dispatch", gen_case, run_impl, HDR, coq_case, oracle, shrink, nontrivial,
          {"quick": 1500, "thorough": 20000}, worker_init=worker_init, shard=125, describe=describe),
]
