"""C01 — Event dispatch is complete, priority-ordered and serial.

Correspondence: the real EventManager / DelayManager / SwitchController of a booted machine and the Gallina model
coq/C01/Model.v interpret the same handler scripts; the observation lists (contexts, handler invocations with merged
kwargs, callbacks run inline by run_now / process_switch, completion callbacks, queue lengths whenever a context
starts, final handler order, pending delays) must be equal.  Two suites: "dispatch" (plain / boolean / relay events,
calls into DelayManager and SwitchController from inside handlers, loop callbacks that are due at the same instant,
_min_priority) and "queue" (one post_queue per case, handlers that wait and are cleared later).
Oracle: an acceptor for the property's own language (written from the property text, not from the queue-stack
algorithm) walks the implementation's trace.
"""
import json

from vlib import Suite, zlit, coqlist, blit, opt

ID = "C01"
READY = True
RULE = ("handler scripts generated from one PRNG: 2-6 events, 3-14 registrations with priorities from a small set "
        "(many ties, '.N' suffixes, relative_priority; in half of the cases the same procedure registered 2-4 times "
        "for one event with equal/adjacent priorities), conditions, colliding kwargs, programs that post (plain / "
        "boolean / relay, with and without completion callbacks), add, replace and remove handlers (by key, by method, "
        "by event + method, all handlers of an event) during dispatch. Flavours: 'calls' = programs also call "
        "DelayManager.add / reset / remove / run_now (named delays whose callbacks post and add further delays) and "
        "SwitchController.process_switch (untimed handlers that post) from inside handlers, callbacks and contexts; "
        "'same' = 2-3 loop callbacks armed for the same instant (two delays, delay + timed switch handler, timed handlers "
        "of two switches), each posting; 'minprio' = handlers with blocking facilities, posts that carry _min_priority and "
        "handlers that return {'_min_priority': ...}; 'mix'; 'bus' = round-1 alphabet. 1-3 scripted contexts per case "
        "from six kinds (direct, delay, switch handler, timed switch handler x2, second delay) plus every delay the "
        "programs leave pending. queue suite: the same scripts plus exactly one post_queue for an event of its own with "
        "2-5 handlers (kwargs colliding with the posted ones, conditions), handlers that wait, 1-4 later contexts that "
        "clear the wait. non-trivial = at least one event posted from inside a handler or callback and at least one "
        "dispatch with >= 2 handlers (queue suite: >= 2 handlers of the queue event called and a completion callback); "
        "distinct by case hash")
TRUSTED_BASE = [
    "Coq 8.16.1 kernel (coqc), vm_compute for evaluating the model in the correspondence run and for the _refuted witness; no native_compute",
    "axioms: none (every Print Assumptions is 'Closed under the global context')",
    "hand-written model coq/C01/Model.v tied to /repo by correspondence: harness/props/c01.py runs the real "
    "EventManager, DelayManager and SwitchController (booted machine on the virtual clock) and the model on the same scripts",
    "CPython: list.sort stability, dict semantics, asyncio (call_soon FIFO, call_at, tasks); the order in which asyncio runs "
    "callbacks that are due at the same instant is taken from the observation (input of the model), the oracle only "
    "requires that every scripted context ran; MPF BoolTemplate evaluates the conditions; SwitchController / DelayManager "
    "are modelled only as far as the bus is concerned (table of pending delays, 'run the callback inline', 'run the "
    "callback, then drain'); timing (which delay expires when) is not modelled",
]
ASSUMPTIONS = [
    "handlers do not raise (MPF treats a handler exception as fatal: EventHandlerException reaches the loop's exception "
    "handler and the machine stops); an exception in a run is reported by the oracle (sig 'exception')",
    "queue events: one post_queue per case (at most one task exists), clear() is called from another context as the last "
    "action of a context program or from a handler; several tasks runnable at once (asyncio interleaves their steps "
    "FIFO) belong to C02; post_queue always has a callback",
    "posted _min_priority dicts always contain 'all' (the code indexes it); the BCP monitor branch is not exercised",
    "two timed handlers of the SAME switch with the same ms (or several untimed handlers of one switch) share one "
    "drain by design and are not generated as separate contexts",
    "handlers run only the scripted actions; handler identity for remove/replace is equality of a callable per procedure",
]
DESIGN_REF = "DESIGN.md section 3, C01"
TECHNIQUE = "Coq proof over an executable Gallina model + differential correspondence (2 suites) + direct trace oracle"
LEVEL_TEXT = ("Machine-checked proof (Coq) that the literal transcription of process_event_queue (stack of deques) refines a "
              "short depth-first specification for every handler script: no queued event is lost (stack invariant), the "
              "handlers of one dispatch are a subsequence of the registered snapshot for every event type and exactly the "
              "snapshot minus _min_priority-blocked handlers, filtered by condition, in descending priority with ties in "
              "registration order, each once, handler kwargs overriding posted ones, for plain events; posts made during an "
              "event are dispatched before any waiting event; every queued event is dispatched exactly once and every "
              "completion callback runs exactly once and only when nothing is pending; a program that calls "
              "DelayManager.run_now / add / remove or SwitchController.process_switch never dispatches anything "
              "(inline_calls_never_dispatch); every context, including an expiring delay, leaves both queues empty "
              "(every_context_is_drained); queue events: handlers once, in order, across waits, callback once after all "
              "waits. The model is tied to the working tree by running both on the same generated scripts on every run.")
LEVEL_NOTE = ("Trusted: Coq kernel + vm_compute; no axioms. Model hand-written; correspondence validates it against the "
              "working tree on a booted machine. Theorems about complete runs carry the guard oof = false (checked per "
              "case; no closed-form fuel bound). One recorded low-severity finding: _post's fast path drops an event "
              "that has no handler yet at post time even if one is registered before its dispatch would begin.")

KEYS = 4          # user kwargs keys k1..k4
MPKEY = -1        # the kwarg '_min_priority'; its value is ["m", [[0, all], [facility, n], ...]]
CTX_NAMES = ["direct", "delay", "switch", "timed_switch", "timed_switch2", "delay2"]
NSW = 2           # switches whose untimed handlers are called inline (process_switch from inside a program)
_G = {}


# ------------------------------------------------------------------------------------------------
# generator
def rval(rng):
    r = rng.random()
    if r < 0.6:
        return ["z", rng.choice([0, 1, 1, 2, 2, 3, -1])]
    if r < 0.85:
        return ["b", rng.choice([0, 1])]
    return ["n"]


def rkw(rng, nmax):
    n = rng.choice([0, 0, 1, 1, 2, 3][:nmax + 2])
    ks = rng.sample(range(1, KEYS + 1), min(n, KEYS))
    return [[k, rval(rng)] for k in ks]


def rmp(rng):
    """a _min_priority dict: 'all' always present (the code indexes it), facilities 1..2 sometimes"""
    m = [[0, rng.choice([0, 0, 1, 2, 2, 3])]]
    for f in (1, 2):
        if rng.random() < 0.45:
            m.append([f, rng.choice([1, 2, 3, 5])])
    return m


def rret(rng, mp=False):
    r = rng.random()
    if mp and r < 0.12:
        return ["mp", rmp(rng)]
    if r < 0.62:
        return ["none"]
    if r < 0.74:
        return ["b", 0]
    if r < 0.80:
        return ["b", 1]
    if r < 0.86:
        return ["z", rng.choice([0, 3])]
    ks = sorted(rng.sample(range(1, KEYS + 1), rng.choice([0, 1, 1, 2])))
    return ["m", [[k, rng.choice([0, 1, 2, 5])] for k in ks]]


def gen_case(rng, tier, i, queue=False):
    """flavours (dispatch suite): 'bus' = the round-1 alphabet; 'calls' = handlers call into DelayManager /
    SwitchController; 'same' = several loop callbacks due at the same instant; 'minprio' = _min_priority + facilities"""
    big = tier == "thorough"
    flavour = "queue" if queue else rng.choice(["bus", "calls", "calls", "same", "same", "minprio", "mix"])
    calls = flavour in ("calls", "same", "mix")
    minprio = flavour in ("minprio", "mix")
    nev = rng.randint(2, 6)
    qev = nev + 1 if queue else None
    npid = rng.randint(3, 10 if not big else 14)
    nleaf = rng.randint(2, 4) if calls else 0            # procedures used as delay callbacks / inline switch handlers
    leafs = list(range(npid + 1, npid + 1 + nleaf))
    st = {"key": 0, "burst": []}
    top_ev = qev if queue else nev

    def radd():
        st["key"] += 1
        cond = None
        if rng.random() < 0.25:
            cond = [rng.randint(1, KEYS), rng.choice([0, 1, 1, 2])]
        suffix = rng.choice([0, 0, 0, 0, 1, 2, -1])
        rel = rng.choice([0, 0, 0, 0, 1, -1])
        bf = rng.choice([0, 1, 1, 2]) if minprio else 0
        e = rng.randint(1, top_ev)
        if queue and rng.random() < 0.3:
            e = qev
        return ["add", st["key"], e, rng.randint(1, npid),
                rng.choice([1, 1, 1, 1, 2, 2, 3, 0, 5, -2]), suffix, rel, rkw(rng, 2), cond, bf]

    def rpost():
        ty = rng.choice(["none", "none", "none", "bool", "relay"])
        cb = rng.randint(1, npid) if rng.random() < 0.35 else None
        kws = rkw(rng, 3)
        if minprio and rng.random() < 0.5:
            kws = kws + [[MPKEY, ["m", rmp(rng)]]]
        return ["post", rng.randint(1, nev), ty, cb, kws]

    def rrepl():
        st["key"] += 1
        return ["repl", st["key"], rng.randint(1, top_ev), rng.randint(1, npid), rng.choice([1, 1, 2, 0, 3]),
                rkw(rng, 1) if rng.random() < 0.5 else []]

    def rburst():
        """the same procedure registered 2-4 times for one event, equal or adjacent priorities"""
        e, hp, base = rng.randint(1, top_ev), rng.randint(1, npid), rng.choice([1, 1, 2, 0])
        out = []
        for _ in range(rng.randint(2, 4)):
            a = radd()
            a[2], a[3], a[4], a[5], a[6] = e, hp, base + rng.choice([0, 0, 0, 1]), 0, 0
            if rng.random() < 0.7:
                a[8] = None
            out.append(a)
        st["burst"].append(hp)
        return out

    def rrmm():
        if st["burst"] and rng.random() < 0.7:
            return ["rmm", rng.choice(st["burst"])]
        return ["rmm", rng.randint(1, npid)]

    def rcall(leaf):
        """a call into DelayManager / SwitchController.  leaf procedures (the callbacks) only add / remove delays"""
        r = rng.random()
        name = rng.randint(1, 3)
        if r < 0.30 or (leaf and r < 0.7):
            return [rng.choice(["dadd", "dadd", "dreset"]), name, rng.choice(leafs), rng.choice([125, 125, 250])]
        if leaf or r < 0.40:
            return ["drm", name]
        if r < 0.75:
            return ["runnow", name]
        return ["sw", rng.randrange(NSW)]

    def ract(leaf=False):
        r = rng.random()
        if calls and r < (0.30 if not leaf else 0.15):
            return rcall(leaf)
        r = rng.random()
        if r < 0.52:
            return rpost()
        if r < 0.72:
            return radd()
        if r < 0.79:
            return rrmm()
        if r < 0.84:
            return rrepl()
        if r < 0.88:
            return ["rme", rng.randint(1, top_ev), rng.randint(1, npid)]
        if r < 0.90:
            return ["rma", rng.randint(1, top_ev)]
        return ["rm", rng.randint(1, max(1, st["key"] + 3))]

    script = {}
    late = rng.random() < 0.12       # sometimes post first and register afterwards (fast-path class)
    acts = [radd() for _ in range(rng.randint(3, 12 if not big else 20))]
    if rng.random() < 0.5:
        for _ in range(rng.choice([1, 1, 2])):
            k = rng.randint(0, len(acts))
            acts[k:k] = rburst()
    if queue:
        for _ in range(rng.randint(2, 5)):       # the queue event has several handlers, kwargs collide with the posted ones
            a = radd()
            a[2] = qev
            a[7] = rkw(rng, 3)
            acts.insert(rng.randint(0, len(acts)), a)
    for p in range(1, npid + 1):
        progs = []
        for _ in range(rng.choice([1, 1, 2, 2, 3])):
            progs.append({"acts": [ract() for _ in range(rng.choice([0, 1, 1, 2, 2, 3, 4]))], "ret": rret(rng, minprio)})
        script[str(p)] = progs
    for p in leafs:
        script[str(p)] = [{"acts": [ract(True) for _ in range(rng.choice([1, 1, 2, 3]))], "ret": ["none"]}
                          for _ in range(rng.choice([1, 2, 2, 3]))]
    sw = [[rng.choice(leafs) for _ in range(rng.choice([1, 1, 2, 3]))] for _ in range(NSW)] if calls else []
    # the first turn starts with a registration phase so that dispatches have several handlers
    nturn = rng.choice([1, 1, 2, 3])
    turns = []
    pid = npid + nleaf + 1
    posts = [rpost() for _ in range(rng.choice([1, 1, 2, 3]))]
    pre = []
    if calls:
        pre = [["dadd", rng.randint(1, 3), rng.choice(leafs), rng.choice([125, 250])] for _ in range(rng.choice([0, 1, 2, 3]))]
    script[str(pid)] = [{"acts": pre + ((posts + acts) if late else (acts + posts)), "ret": ["none"]}]
    turns.append([rng.choice([0, 0, 1, 2, 3]), pid])

    def rgroup():
        """loop callbacks that are due at the same instant: delays and timed handlers of different switches"""
        nonlocal pid
        kinds = rng.sample([1, 3, 4, 5], rng.choice([2, 2, 3]))
        g = []
        for k in kinds:
            pid += 1
            script[str(pid)] = [{"acts": [ract() for _ in range(rng.randint(0, 2))] + [rpost()], "ret": ["none"]}]
            g.append([k, pid])
        return ["g", g]

    for t in range(1, nturn):
        if flavour in ("same", "mix") and rng.random() < 0.8:
            turns.append(rgroup())
            continue
        pid += 1
        script[str(pid)] = [{"acts": [ract() for _ in range(rng.randint(1, 4))] + [rpost()], "ret": ["none"]}]
        turns.append([rng.randint(0, 3), pid])
    if flavour == "same" and not any(t[0] == "g" for t in turns):
        turns.append(rgroup())
    case = {"v": 2, "flavour": flavour, "nev": top_ev, "script": script, "turns": turns, "sw": sw}
    if queue:
        # exactly one post_queue in the whole script, for an event of its own; some of its handlers wait; later
        # contexts clear the waits (clear is the last action of a context program: see NOTES.md)
        pq = ["post", qev, "queue", rng.randint(1, npid), rkw(rng, 3) if rng.random() < 0.8 else []]
        where = rng.random()
        if where < 0.6:
            script[str(turns[0][1])][0]["acts"].append(pq)
        else:
            cands = [str(p) for p in range(1, npid + 1) if script[str(p)]]
            script[rng.choice(cands)][0]["acts"].append(pq)
        qh = sorted({a[3] for a in script[str(turns[0][1])][0]["acts"] if a[0] == "add" and a[2] == qev})
        for hp in qh:
            if rng.random() < 0.45:
                script[str(hp)][0]["ret"] = ["wait"]
                if len(script[str(hp)]) > 1 and rng.random() < 0.3:
                    script[str(hp)][1]["ret"] = ["wait"]
        for _ in range(rng.choice([1, 2, 3, 4])):
            pid += 1
            a = [rpost()] if rng.random() < 0.4 else []
            script[str(pid)] = [{"acts": a + [["clear"]], "ret": ["none"]}]
            turns.append([rng.choice([0, 0, 1, 3]), pid])
        case["qev"] = qev
    return case


def gen_queue(rng, tier, i):
    return gen_case(rng, tier, i, queue=True)


# ------------------------------------------------------------------------------------------------
# implementation runner
def worker_init():
    from rig import Rig
    sws = {"s_c01": {"number": "1"}, "s_c01t": {"number": "2"}, "s_c01u": {"number": "3"}}
    for k in range(NSW):
        sws["s_c01i%d" % k] = {"number": str(10 + k)}
    r = Rig({"switches": sws})
    r.start()
    _G["rig"] = r
    _G["n"] = 0


def kname(k):
    if k == MPKEY:
        return "_min_priority"
    return "ev_result" if k == 0 else "k%d" % k


def mpdict(m):
    return {("all" if f == 0 else "f%d" % f): int(n) for f, n in m}


def pyval(v):
    if v[0] == "m":
        return mpdict(v[1])
    return {"z": lambda: int(v[1]), "b": lambda: bool(v[1]), "n": lambda: None}[v[0]]()


def canon_mp(d):
    out = []
    for k, x in d.items():
        if k == "all":
            out.append([0, int(x)])
        elif k.startswith("f") and k[1:].isdigit():
            out.append([int(k[1:]), int(x)])
        else:
            out.append([-99, 0])
    return sorted(out)


def canon_val(v):
    if isinstance(v, bool):
        return ["b", int(v)]
    if isinstance(v, int):
        return ["z", v]
    if v is None:
        return ["n"]
    if isinstance(v, dict):
        if list(v.keys()) == ["_min_priority"] and isinstance(v["_min_priority"], dict):
            return ["mp", canon_mp(v["_min_priority"])]
        return ["m", sorted([[knum(k), int(x)] for k, x in v.items()])]
    return ["?", repr(v)]


def knum(k):
    if k == "ev_result":
        return 0
    if k == "_min_priority":
        return MPKEY
    if k.startswith("k") and k[1:].isdigit():
        return int(k[1:])
    return -99


def canon_kw(d):
    out = []
    for k, v in d.items():
        if k == "_min_priority" and isinstance(v, dict):
            out.append([MPKEY, ["m", canon_mp(v)]])
        else:
            out.append([knum(k), canon_val(v)])
    return sorted(out)


class _Method:
    """a handler callable that compares equal to every other registration of the same procedure - like two
    accesses of one bound method do - and still knows which registration it is"""

    def __init__(self, key, pid, e, fn):
        self._c01key = key
        self.pid = pid
        self.e = e
        self.fn = fn

    def __call__(self, **kwargs):
        return self.fn(self, kwargs)

    def __eq__(self, other):
        return isinstance(other, _Method) and other.pid == self.pid

    def __hash__(self):
        return hash(("c01", self.pid))


def turn_groups(case):
    """the scripted contexts, as groups of contexts that are armed at the same instant"""
    out = []
    for t in case["turns"]:
        out.append([list(m) for m in t[1]] if t[0] == "g" else [[t[0], t[1]]])
    return out


def run_impl(case):
    if "rig" not in _G:
        worker_init()
    rig = _G["rig"]
    _G["n"] += 1
    pre = "c01x%d_e" % _G["n"]
    dpre = "c01d%d_" % _G["n"]
    ev = rig.machine.events
    dm = rig.machine.delay
    swc = rig.machine.switch_controller
    script = case["script"]
    cnt = {}
    keymap = {}
    trace = []
    npost = [0]
    depth = [0]          # number of script programs that are running right now
    waiting = []         # QueuedEvents on which a handler of a queue event waits

    def run_prog(pid):
        depth[0] += 1
        try:
            return run_prog1(pid)
        finally:
            depth[0] -= 1

    def run_prog1(pid):
        k = cnt.get(pid, 0)
        cnt[pid] = k + 1
        progs = script.get(str(pid), [])
        if k >= len(progs):
            return None
        for a in progs[k]["acts"]:
            if a[0] == "post":
                _, e, ty, cb, kws = a
                i = npost[0]
                npost[0] += 1
                kwargs = {kname(kk): pyval(v) for kk, v in kws}
                cbf = None
                if cb is not None:
                    def cbf(_i=i, _cb=cb, **kwargs):
                        trace.append(["C", _i, _cb, canon_kw(kwargs), depth[0]])
                        run_prog(_cb)
                f = {"none": ev.post, "bool": ev.post_boolean, "relay": ev.post_relay, "queue": ev.post_queue}[ty]
                f(pre + str(e), cbf, **kwargs)
            elif a[0] == "add":
                key, e, hp, prio, suffix, rel, hk, cond = a[1:9]
                bf = a[9] if len(a) > 9 else 0
                h = _Method(key, hp, e, call)
                if rel != 0:
                    h.relative_priority = rel
                name = pre + str(e)
                if suffix != 0:
                    name += ".%d" % suffix
                if cond is not None:
                    name += "{k%d==%d}" % (cond[0], cond[1])
                keymap[key] = ev.add_handler(name, h, prio, ("f%d" % bf) if bf else None,
                                             **{kname(kk): pyval(v) for kk, v in hk})
            elif a[0] == "rm":
                if a[1] in keymap:
                    ev.remove_handler_by_key(keymap[a[1]])
            elif a[0] == "rmm":
                ev.remove_handler(_Method(None, a[1], None, None))
            elif a[0] == "rme":
                ev.remove_handler_by_event(pre + str(a[1]), _Method(None, a[2], None, None))
            elif a[0] == "rma":
                ev.remove_all_handlers_for_event(pre + str(a[1]))
            elif a[0] == "repl":
                _, key, e, hp, prio, hk = a
                keymap[key] = ev.replace_handler(pre + str(e), _Method(key, hp, e, call), prio,
                                                 **{kname(kk): pyval(v) for kk, v in hk})
            elif a[0] in ("dadd", "dreset"):
                _, name, cpid, ms = a
                f = dm.add if a[0] == "dadd" else dm.reset
                f(ms, dcb(name, cpid), dpre + str(name))
            elif a[0] == "drm":
                dm.remove(dpre + str(a[1]))
            elif a[0] == "runnow":
                dm.run_now(dpre + str(a[1]))
            elif a[0] == "sw":
                swc.process_switch("s_c01i%d" % a[1], state=1, logical=True)
                swc.process_switch("s_c01i%d" % a[1], state=0, logical=True)
            elif a[0] == "clear":
                if waiting:
                    waiting.pop(0).clear()
        return progs[k]["ret"]

    def call(m, kwargs):
        q = kwargs.pop("queue", None)
        trace.append(["I", m._c01key, m.pid, m.e, canon_kw(kwargs), depth[0]])
        r = run_prog(m.pid)
        if r is not None and r[0] == "wait":
            if q is not None:
                q.wait()
                waiting.append(q)
            return None
        return ret_val(r)

    def ret_val(r):
        if r is None or r[0] == "none":
            return None
        if r[0] == "b":
            return bool(r[1])
        if r[0] == "z":
            return int(r[1])
        if r[0] == "mp":
            return {"_min_priority": mpdict(r[1])}
        return {kname(k): int(v) for k, v in r[1]}

    def begin_ctx(pid, src):
        trace.append(["Q", len(ev.event_queue), len(ev.callback_queue)])
        trace.append(["X", pid, src, depth[0]])

    def dcb(name, cpid):
        """callback of a delay added by a program: a context when the delay expires, inline when run_now calls it"""
        def f(**kwargs):
            if depth[0] > 0:
                trace.append(["S", cpid])
            else:
                begin_ctx(cpid, ["d", name])
            run_prog(cpid)
        return f

    def swh(cpid):
        def f(**kwargs):
            if depth[0] > 0:
                trace.append(["S", cpid])
            else:
                begin_ctx(cpid, ["t"])
            run_prog(cpid)
        return f

    def mkctx(pid):
        def ctx(**kwargs):
            begin_ctx(pid, ["t"])
            run_prog(pid)
        return ctx

    inline_keys = []
    for k, pids in enumerate(case.get("sw") or []):
        for cpid in pids:
            inline_keys.append(swc.add_switch_handler("s_c01i%d" % k, swh(cpid), state=1, ms=0))

    err = None
    TSW = {3: "s_c01t", 4: "s_c01u"}
    try:
        for group in turn_groups(case):
            if len(group) == 1 and group[0][0] in (0, 2):
                kind, pid = group[0]
                if kind == 0:
                    mkctx(pid)()
                    rig.advance(0.01)
                else:
                    sh = swc.add_switch_handler("s_c01", mkctx(pid), state=1, ms=0)
                    swc.process_switch("s_c01", state=1, logical=True)
                    rig.advance(0.01)
                    swc.remove_switch_handler_by_key(sh)
                    swc.process_switch("s_c01", state=0, logical=True)
                    rig.advance(0.01)
            else:
                # every member is armed at the same instant with the same 125 ms: all are due in one loop iteration
                shs = []
                for kind, pid in group:
                    if kind in TSW:
                        shs.append((TSW[kind], swc.add_switch_handler(TSW[kind], mkctx(pid), state=1, ms=125)))
                for kind, pid in group:
                    if kind in TSW:
                        swc.process_switch(TSW[kind], state=1, logical=True)
                    else:
                        dm.add(ms=125, callback=mkctx(pid))
                rig.advance(0.25)
                for name, sh in shs:
                    swc.remove_switch_handler_by_key(sh)
                    swc.process_switch(name, state=0, logical=True)
                if shs:
                    rig.advance(0.01)
            if rig.exception() is not None:
                err = repr(rig.exception())[:300]
                break
        if err is None:
            rig.advance(0.75)        # delays added by the programs expire
            if rig.exception() is not None:
                err = repr(rig.exception())[:300]
        trace.append(["Q", len(ev.event_queue), len(ev.callback_queue)])
    except Exception as e:   # noqa  (what the code may raise is returned as data)
        err = "%s: %s" % (type(e).__name__, str(e)[:300])
    final = []
    for e in range(1, case["nev"] + 1):
        hs = ev.registered_handlers.get(pre + str(e)) if (pre + str(e)) in ev.registered_handlers else []
        final.append([getattr(h.callback, "_c01key", -1) for h in hs])
    pending = [int(n[len(dpre):]) for n in reversed(list(dm.delays)) if n.startswith(dpre)]
    # leave the shared rig clean
    for k in keymap.values():
        ev.remove_handler_by_key(k)
    for e in range(1, case["nev"] + 1):
        ev.remove_all_handlers_for_event(pre + str(e))
    for n in list(dm.delays):
        if n.startswith(dpre):
            dm.remove(n)
    for sh in inline_keys:
        swc.remove_switch_handler_by_key(sh)
    for q in waiting:          # finish the task of a queue event that is still waiting
        try:
            q.clear()
        except Exception:   # noqa
            pass
    depth[0] = 1000            # whatever still runs for this case is no longer recorded as a context
    script = {}
    trace_out = list(trace)
    try:
        rig.advance(0.01)
    except Exception:   # noqa
        pass
    if err is not None or rig.exception() is not None:
        ev.event_queue.clear()
        ev.callback_queue.clear()
        rig._exception = None
    return {"trace": trace_out, "final": final, "pending": pending, "err": err}


# ------------------------------------------------------------------------------------------------
# Coq printers
def czz(m):
    return coqlist("(%s,%s)" % (zlit(k), zlit(x)) for k, x in m)


def cval(v):
    if v[0] == "z":
        return "(VZ %s)" % zlit(v[1])
    if v[0] == "b":
        return "(VB %s)" % blit(v[1])
    if v[0] == "n":
        return "VNone"
    if v[0] == "m":
        return "(VMap %s)" % czz(v[1])
    if v[0] == "mp":
        return "(VMP %s)" % czz(v[1])
    raise ValueError(v)


def ckw(kw):
    return coqlist("(%s,%s)" % (zlit(k), cval(v)) for k, v in kw)


def cret(r):
    if r[0] == "none":
        return "RNone"
    if r[0] == "b":
        return "(RB %s)" % blit(r[1])
    if r[0] == "z":
        return "(RZ %s)" % zlit(r[1])
    if r[0] == "wait":
        return "RWait"
    if r[0] == "mp":
        return "(RMinPrio %s)" % czz(r[1])
    return "(RMap %s)" % czz(r[1])


def cact(a, case):
    if a[0] == "post":
        ty = {"none": "TNone", "bool": "TBool", "relay": "TRelay", "queue": "TQueue"}[a[2]]
        return "(APost %s %s %s %s)" % (zlit(a[1]), ty, opt(a[3], zlit), ckw(a[4]))
    if a[0] == "add":
        key, e, hp, prio, suffix, rel, hk, cond = a[1:9]
        bf = a[9] if len(a) > 9 else 0
        c = "None" if cond is None else "(Some (%s,%s))" % (zlit(cond[0]), zlit(cond[1]))
        return "(AAdd %s %s %s %s %s %s %s %s %s)" % (zlit(key), zlit(e), zlit(hp), zlit(prio), zlit(suffix), zlit(rel),
                                                      ckw(hk), c, zlit(bf))
    if a[0] == "rmm":
        return "(ARemoveMethod %s)" % zlit(a[1])
    if a[0] == "rme":
        return "(ARemoveByEvent %s %s)" % (zlit(a[1]), zlit(a[2]))
    if a[0] == "rma":
        return "(ARemoveAll %s)" % zlit(a[1])
    if a[0] == "repl":
        return "(AReplace %s %s %s %s %s)" % (zlit(a[1]), zlit(a[2]), zlit(a[3]), zlit(a[4]), ckw(a[5]))
    if a[0] in ("dadd", "dreset"):
        return "(ADelayAdd %s %s)" % (zlit(a[1]), zlit(a[2]))
    if a[0] == "drm":
        return "(ADelayRemove %s)" % zlit(a[1])
    if a[0] == "runnow":
        return "(ARunNow %s)" % zlit(a[1])
    if a[0] == "sw":
        return "(ASwitch %s)" % coqlist(zlit(p) for p in case["sw"][a[1]])
    if a[0] == "clear":
        return "AClear"
    return "(ARemove %s)" % zlit(a[1])


def cobs(o):
    if o[0] == "X":
        return "(Ctx %s)" % zlit(o[1])
    if o[0] == "S":
        return "(Sub %s)" % zlit(o[1])
    if o[0] == "I":
        return "(Invoke %s %s %s %s)" % (zlit(o[1]), zlit(o[2]), zlit(o[3]), ckw(o[4]))
    if o[0] == "C":
        return "(Callback %s %s %s)" % (zlit(o[1]), zlit(o[2]), ckw(o[3]))
    return "(Quiet %s %s)" % (zlit(o[1]), zlit(o[2]))


def tlist(ty, items):
    return coqlist(items) if items else "(@nil %s)" % ty


def has_unknown(out):
    return '"?"' in json.dumps(out["trace"]) or "-99" in json.dumps(out["trace"])


def coq_case(case, out):
    if out.get("err") is not None or has_unknown(out):
        return None      # reported by the oracle ("exception"); outside the model's domain
    sc = coqlist("(%s,%s)" % (zlit(int(p)), coqlist("(mkP %s %s)" % (coqlist(cact(a, case) for a in pr["acts"]), cret(pr["ret"]))
                                                    for pr in progs))
                 for p, progs in sorted(case["script"].items(), key=lambda kv: int(kv[0])))
    # the contexts in the order in which the loop ran them (asyncio does not fix the order of callbacks that are due at
    # the same instant; the oracle checks that the scripted ones all ran)
    turns = tlist("titem", [("(TFire %s)" % zlit(o[2][1])) if o[2][0] == "d" else ("(TRun %s)" % zlit(o[1]))
                            for o in out["trace"] if o[0] == "X"])
    evs = coqlist(zlit(e) for e in range(1, case["nev"] + 1))
    exp = "(true, %s, %s, %s)" % (coqlist(cobs(o) for o in out["trace"]),
                                  coqlist(tlist("Z", [zlit(k) for k in l]) for l in out["final"]),
                                  tlist("Z", [zlit(n) for n in out.get("pending", [])]))
    return "((%s, %s, %s), %s)" % (sc, turns, evs, exp)


HDR = "From C01 Require Import Model.\nDefinition run := c01_run.\nDefinition out_eqb := c01_out_eqb.\n"
HDRQ = "From C01 Require Import Model.\nDefinition run := c01q_run.\nDefinition out_eqb := c01_out_eqb.\n"


# ------------------------------------------------------------------------------------------------
# oracle: acceptor for the property's language.  It interprets the scripts at specification level (a set of live
# registrations, one pending list with "posted during an event goes in front", a set of pending callbacks, a table of
# pending delays, the task of a queue event) and checks every observation of the implementation against what the
# property permits at that point.  It does not know the queue-stack algorithm, the callback queue or asyncio.
class Reject(Exception):
    def __init__(self, sig, what):
        super().__init__(what)
        self.sig = sig
        self.what = what


def kw_merge(a, b):
    d = dict((k, v) for k, v in a)
    d.update(dict((k, v) for k, v in b))
    return sorted([[k, v] for k, v in d.items()])


def cond_ok(cond, kw):
    if cond is None:
        return True
    d = dict((k, v) for k, v in kw)
    v = d.get(cond[0])
    if v is None or v[0] not in ("z", "b"):
        return False
    return int(v[1]) == cond[1]


def blocked(kw, r):
    """the handler has a blocking facility and its priority is below the event's _min_priority ('all' or its facility)"""
    if not r.get("bf"):
        return False
    mp = dict((k, v) for k, v in kw).get(MPKEY)
    if mp is None or mp[0] != "m":
        return False
    m = dict((f, n) for f, n in mp[1])
    return m.get(0, r["prio"]) > r["prio"] or m.get(r["bf"], r["prio"]) > r["prio"]


def may_call(kw, r):
    return not blocked(kw, r) and cond_ok(r["cond"], kw_merge(kw, r["kw"]))


class Acceptor:
    def __init__(self, case, fastpath):
        self.case = case
        self.script = case["script"]
        self.fast = fastpath
        self.cnt = {}
        self.live = {}        # key -> registration
        self.known = {}       # key -> registration (ever added)
        self.seq = 0
        self.pending = []     # posts waiting, in the order the property prescribes
        self.cur = None       # dispatch in progress
        self.cbs = {}         # postid -> (pid, kwargs) completion callbacks waiting
        self.npost = 0
        self.done_cbs = set()
        self.dropped = 0
        self.delays = {}      # name -> callback procedure (pending delays, insertion ordered)
        self.expect = []      # callbacks that the program interpreted last must have run inline, in this order
        self.task = None      # the task of the queue event

    # -- script interpretation (effects of one invocation) -----------------------------------------
    def inline(self, pid, sink):
        self.expect.append(pid)
        self.run_prog(pid, sink)

    def run_prog(self, pid, sink):
        k = self.cnt.get(pid, 0)
        self.cnt[pid] = k + 1
        progs = self.script.get(str(pid), [])
        if k >= len(progs):
            return ["none"]
        for a in progs[k]["acts"]:
            if a[0] == "post":
                _, e, ty, cb, kws = a
                i = self.npost
                self.npost += 1
                if self.fast and cb is None and not any(r["e"] == e for r in self.live.values()):
                    self.dropped += 1
                    continue
                sink.append({"id": i, "e": e, "ty": ty, "cb": cb, "kw": kw_merge([], kws)})
            elif a[0] == "add":
                key, e, hp, prio, suffix, rel, hk, cond = a[1:9]
                self.seq += 1
                r = {"key": key, "e": e, "pid": hp, "prio": prio + suffix + rel, "seq": self.seq,
                     "kw": kw_merge([], hk), "cond": cond, "bf": a[9] if len(a) > 9 else 0}
                self.live[key] = r
                self.known[key] = r
            elif a[0] == "rm":
                self.live.pop(a[1], None)
            elif a[0] == "rmm":
                for key in [key for key, r in self.live.items() if r["pid"] == a[1]]:
                    del self.live[key]
            elif a[0] == "rme":
                for key in [key for key, r in self.live.items() if r["e"] == a[1] and r["pid"] == a[2]]:
                    del self.live[key]
            elif a[0] == "rma":
                for key in [key for key, r in self.live.items() if r["e"] == a[1]]:
                    del self.live[key]
            elif a[0] == "repl":
                _, key, e, hp, prio, hk = a
                want = {kk: pyval(v) for kk, v in hk}
                for k2 in [k2 for k2, r in self.live.items() if r["e"] == e and r["pid"] == hp and
                           (not hk or {kk: pyval(v) for kk, v in r["kw"]} == want)]:
                    del self.live[k2]
                self.seq += 1
                r = {"key": key, "e": e, "pid": hp, "prio": prio, "seq": self.seq, "kw": kw_merge([], hk),
                     "cond": None, "bf": 0}
                self.live[key] = r
                self.known[key] = r
            elif a[0] in ("dadd", "dreset"):
                self.delays.pop(a[1], None)
                self.delays[a[1]] = a[2]
            elif a[0] == "drm":
                self.delays.pop(a[1], None)
            elif a[0] == "runnow":
                # the callback of a pending delay runs now, once, inside this program; what it posts is posted by this program
                if a[1] in self.delays:
                    self.inline(self.delays.pop(a[1]), sink)
            elif a[0] == "sw":
                for cpid in self.case["sw"][a[1]]:
                    self.inline(cpid, sink)
            elif a[0] == "clear":
                if self.task is not None and self.task["waiting"]:
                    self.task["waiting"] = False
        return progs[k]["ret"]

    # -- dispatch bookkeeping ------------------------------------------------------------------------
    def snapshot(self, e):
        return sorted([r for r in self.live.values() if r["e"] == e], key=lambda r: (-r["prio"], r["seq"]))

    def begin(self, post):
        if post["ty"] == "queue":
            # a queue event: its handlers run later, one after the other, possibly waiting in between; without a handler
            # the callback is due like any other completion callback
            if not any(r["e"] == post["e"] for r in self.live.values()):
                self.cbs[post["id"]] = (post["cb"], post["kw"])
            else:
                self.task = {"post": post, "todo": None, "done": [], "waiting": False, "step": False, "finished": False}
            self.cur = None
            return
        self.cur = {"post": post, "todo": self.snapshot(post["e"]), "done": [], "kw": post["kw"], "new": [],
                    "aborted": False, "result": ["none"]}

    def finish(self):
        c = self.cur
        if c is None:
            return
        # every handler of the snapshot that is still registered and whose condition holds must have been called
        if not c["aborted"]:
            for r in c["todo"]:
                if r["key"] in self.live and may_call(c["kw"], r):
                    raise Reject("handler-missed", "handler %d (priority %d) registered for event %d when its dispatch "
                                 "began was not called" % (r["key"], r["prio"], r["e"]))
        p = c["post"]
        if p["cb"] is not None:
            kw = c["kw"]
            if c["aborted"]:
                kw = kw_merge(kw, [[0, ["b", 0]]])
            elif truthy(c["result"]):
                kw = kw_merge(kw, [[0, c["result"]]])
            self.cbs[p["id"]] = (p["cb"], kw)
        self.pending = c["new"] + self.pending        # posted during the event: before anything already waiting
        self.cur = None

    def task_obs_guard(self):
        """an observation that does not belong to the running step of the queue event's task"""
        t = self.task
        if t is not None and t["step"]:
            raise Reject("queue-handler-missed", "the task of queue event %d (post #%d) stopped without waiting and without "
                         "calling the remaining handlers and the callback" % (t["post"]["e"], t["post"]["id"]))

    def on_task_invoke(self, key, pid, e, kw, r):
        if self.task is None:
            # the queue event itself may still be waiting behind events that call nobody
            try:
                self.flush_silent()
            except Reject as rj:
                raise Reject("dispatch-order", "handler %d of queue event %d ran while posted events were still to be "
                             "dispatched (%s)" % (key, e, rj.what))
        t = self.task
        if t is None or t["finished"]:
            raise Reject("invoke-without-event", "handler %d called for queue event %d although no such event is in "
                         "progress" % (key, e))
        if not t["step"]:
            try:
                self.flush_silent()
            except Reject as rj:
                raise Reject("dispatch-order", "handler %d of queue event %d ran while posted events were still to be "
                             "dispatched (%s)" % (key, e, rj.what))
            if self.cbs:
                raise Reject("callback-missed", "completion callbacks of posts %s had not run when the task of the queue "
                             "event went on" % sorted(self.cbs))
            if t["waiting"]:
                raise Reject("queue-wait-ignored", "handler %d of queue event %d called although handler %d still waits"
                             % (key, e, t["done"][-1]["key"]))
            if t["todo"] is None:
                t["todo"] = self.snapshot(e)
            t["step"] = True
        post = t["post"]
        if not any(x["key"] == key for x in t["todo"]):
            if any(x["key"] == key for x in t["done"]):
                raise Reject("handler-twice", "handler %d called twice for queue event %d" % (key, e))
            if key not in self.live:
                raise Reject("removed-handler-invoked", "handler %d was removed before the task of queue event %d began and "
                             "is still called" % (key, e))
            raise Reject("handler-not-in-snapshot", "handler %d, registered after the task of queue event %d began, was "
                         "called by it" % (key, e))
        want = kw_merge(post["kw"], r["kw"])
        if not cond_ok(r["cond"], want):
            raise Reject("condition-ignored", "handler %d called although its condition is false on %s" % (key, want))
        idx = [x["key"] for x in t["todo"]].index(key)
        keep = []
        for x in t["todo"][:idx]:
            if x["key"] not in self.live:
                keep.append(x)
            elif cond_ok(x["cond"], kw_merge(post["kw"], x["kw"])):
                if x["prio"] > r["prio"]:
                    raise Reject("handler-order", "handler %d (priority %d) called before (or instead of) handler %d "
                                 "(priority %d) of queue event %d" % (key, r["prio"], x["key"], x["prio"], e))
                keep.append(x)
        t["todo"] = keep + t["todo"][idx + 1:]
        t["done"].append(r)
        if want != kw:
            raise Reject("kwargs-merge", "handler %d of queue event %d got %s; posted %s, registered with the handler %s" %
                         (key, e, kw, post["kw"], r["kw"]))
        ret = self.run_prog(pid, self.pending)
        if ret == ["wait"]:
            t["waiting"] = True
            t["step"] = False

    def on_task_callback(self, i, pid, kw):
        t = self.task
        if t["finished"]:
            raise Reject("callback-twice", "completion callback of queue post #%d ran twice" % i)
        if not t["step"]:
            # the task has no handler to call any more (or none at all): everything posted so far comes first
            try:
                self.flush_silent()
            except Reject as rj:
                raise Reject("callback-early", "completion callback of queue post #%d ran while events were still to be "
                             "dispatched (%s)" % (i, rj.what))
            if t["todo"] is None:
                t["todo"] = self.snapshot(t["post"]["e"])
        if t["waiting"]:
            raise Reject("queue-callback-before-clear", "completion callback of queue post #%d ran although handler %d "
                         "still waits" % (i, t["done"][-1]["key"]))
        for r in t["todo"]:
            if r["key"] in self.live and cond_ok(r["cond"], kw_merge(t["post"]["kw"], r["kw"])):
                raise Reject("handler-missed", "handler %d (priority %d) of queue event %d was not called before the "
                             "completion callback" % (r["key"], r["prio"], r["e"]))
        if pid != t["post"]["cb"] or kw != t["post"]["kw"]:
            raise Reject("callback-kwargs", "completion callback of queue post #%d got %s, posted %s" %
                         (i, kw, t["post"]["kw"]))
        t["finished"] = True
        t["step"] = False
        self.done_cbs.add(i)
        self.run_prog(pid, self.pending)

    def on_invoke(self, key, pid, e, kw):
        r = self.known.get(key)
        if r is None:
            raise Reject("invoke-unknown", "handler %d was never registered" % key)
        if pid != r["pid"] or e != r["e"]:
            raise Reject("invoke-wrong-handler", "registration %d: observed pid/event differ" % key)
        if e == self.case.get("qev"):
            return self.on_task_invoke(key, pid, e, kw, r)
        self.task_obs_guard()
        c0 = self.cur
        try:
            # find the dispatch the observation belongs to: the one in progress, or - after completing it and every
            # waiting event that calls nobody - the next waiting one
            while True:
                if self.cur is None:
                    if not self.pending:
                        raise Reject("invoke-without-event", "handler %d called for event %d although no posted event "
                                     "is waiting" % (key, e))
                    self.begin(self.pending.pop(0))
                    if self.cur is None:
                        continue
                c = self.cur
                if c["post"]["e"] == e and not c["aborted"] and any(x["key"] == key for x in c["todo"]) and \
                        may_call(c["kw"], r):
                    break
                self.finish()
        except Reject as rj:
            if key not in self.live and not (c0 is not None and any(x["key"] == key for x in c0["todo"] + c0["done"])):
                raise Reject("removed-handler-invoked", "handler %d (procedure %d, event %d) was removed before this "
                             "dispatch began and is still called" % (key, r["pid"], e))
            if c0 is not None and c0["post"]["e"] == e and any(x["key"] == key for x in c0["done"]):
                raise Reject("handler-twice", "handler %d called twice in one dispatch of event %d" % (key, e))
            if c0 is not None and c0["post"]["e"] == e and key in self.live and \
                    not any(x["key"] == key for x in c0["todo"] + c0["done"]):
                raise Reject("handler-not-in-snapshot", "handler %d, registered during the dispatch of event %d, was "
                             "called in that dispatch" % (key, e))
            if c0 is not None and c0["post"]["e"] == e and not c0["aborted"] and \
                    any(x["key"] == key for x in c0["todo"]):
                if blocked(c0["kw"], r):
                    raise Reject("min-priority-ignored", "handler %d (facility %d, priority %d) called although the "
                                 "event's _min_priority is %s" % (key, r["bf"], r["prio"], c0["kw"]))
                raise Reject("condition-ignored", "handler %d called although its condition is false on %s" %
                             (key, kw_merge(c0["kw"], r["kw"])))
            if rj.sig == "handler-missed" and self.cur is not None and self.cur["post"]["e"] != e:
                raise Reject("dispatch-order", "handler %d of event %d was called although event %d (post #%d) has to be "
                             "dispatched before it: %s" % (key, e, self.cur["post"]["e"], self.cur["post"]["id"], rj.what))
            raise
        c = self.cur
        # order within the dispatch (the property fixes descending priority; the order among equal priorities is the
        # model's business): a handler of strictly greater priority that is still registered and whose condition
        # holds must not be passed over; skippable handlers that were passed are out of the dispatch
        idx = [x["key"] for x in c["todo"]].index(key)
        keep = []
        for x in c["todo"][:idx]:
            if x["key"] not in self.live:
                keep.append(x)          # removed before its turn: the property leaves it open whether it is called
            elif may_call(c["kw"], x):
                if x["prio"] > r["prio"]:
                    raise Reject("handler-order", "handler %d (priority %d) called before (or instead of) handler %d "
                                 "(priority %d) in the dispatch of event %d" % (key, r["prio"], x["key"], x["prio"], e))
                keep.append(x)
        c["todo"] = keep + c["todo"][idx + 1:]
        c["done"].append(r)
        want = kw_merge(c["kw"], r["kw"])
        if want != kw:
            raise Reject("kwargs-merge", "handler %d got %s; posted (+relayed) %s, registered with the handler %s" %
                         (key, kw, c["kw"], r["kw"]))
        ret = self.run_prog(pid, c["new"])
        c["result"] = ret
        if c["post"]["ty"] == "bool" and ret == ["b", 0]:
            c["aborted"] = True
            c["todo"] = []
        elif ret[0] == "mp":
            c["kw"] = kw_merge(c["kw"], [[MPKEY, ["m", ret[1]]]])
        elif c["post"]["ty"] == "relay" and ret[0] == "m":
            c["kw"] = kw_merge(c["kw"], [[k, ["z", v]] for k, v in ret[1]])

    def silent(self, post):
        """a waiting event whose dispatch would call nobody (so it produces no observation)"""
        if post["ty"] == "queue":
            return True
        for r in self.live.values():
            if r["e"] == post["e"] and may_call(post["kw"], r):
                return False
        return True

    def flush_silent(self):
        """complete the current dispatch and all waiting events that call nobody"""
        while True:
            if self.cur is not None:
                self.finish()
            if not self.pending:
                return
            nxt = self.pending[0]
            if not self.silent(nxt):
                raise Reject("event-lost", "event %d (post #%d) was posted but its handlers were not called" %
                             (nxt["e"], nxt["id"]))
            self.begin(self.pending.pop(0))

    def on_callback(self, i, pid, kw):
        if self.task is not None and self.task["post"]["id"] == i:
            return self.on_task_callback(i, pid, kw)
        self.task_obs_guard()
        try:
            self.flush_silent()
        except Reject as rj:
            raise Reject("callback-early", "completion callback of post #%d ran while events were still to be "
                         "dispatched (%s)" % (i, rj.what))
        if self.task is not None and self.task["post"]["id"] == i:
            return self.on_task_callback(i, pid, kw)
        if i in self.done_cbs:
            raise Reject("callback-twice", "completion callback of post #%d ran twice" % i)
        if i not in self.cbs:
            raise Reject("callback-unknown", "completion callback of post #%d ran but that event has not been "
                         "dispatched" % i)
        cpid, want = self.cbs.pop(i)
        self.done_cbs.add(i)
        if cpid != pid:
            raise Reject("callback-unknown", "post #%d: wrong callback" % i)
        if want != kw:
            raise Reject("callback-kwargs", "completion callback of post #%d got %s, expected %s" % (i, kw, want))
        self.run_prog(pid, self.pending)

    def on_ctx(self, pid, src):
        self.task_obs_guard()
        try:
            self.end_turn()
        except Reject as rj:
            raise Reject("not-drained-before-next-context", "a context (procedure %d) ran although what the previous "
                         "context posted had not been dispatched completely: %s" % (pid, rj.what))
        if src[0] == "d":
            if self.delays.get(src[1]) != pid:
                raise Reject("delay-fired-not-pending", "delay %d expired and ran procedure %d; pending delays: %s" %
                             (src[1], pid, self.delays))
            del self.delays[src[1]]
        self.run_prog(pid, self.pending)

    def end_turn(self):
        self.flush_silent()
        if self.cbs:
            raise Reject("callback-missed", "completion callbacks of posts %s never ran" % sorted(self.cbs))

    def walk(self, trace, out):
        for o in trace:
            if self.expect and o[0] != "S":
                raise Reject("inline-callback-missing", "procedure %d should have been run inline (run_now / "
                             "process_switch) before anything else happens" % self.expect[0])
            if o[0] == "X":
                if o[3]:
                    raise Reject("dispatch-nested", "context (procedure %d) started while another program was running"
                                 % o[1])
                self.on_ctx(o[1], o[2])
            elif o[0] == "S":
                if not self.expect or self.expect[0] != o[1]:
                    raise Reject("inline-callback-unexpected", "procedure %d was run inline; expected %s" %
                                 (o[1], self.expect[:1]))
                self.expect.pop(0)
            elif o[0] == "I":
                if o[5]:
                    raise Reject("dispatch-nested", "handler %d of event %d was called while another handler, callback or "
                                 "context was still running (re-entrant process_event_queue)" % (o[1], o[3]))
                self.on_invoke(o[1], o[2], o[3], o[4])
            elif o[0] == "C":
                if o[4]:
                    raise Reject("dispatch-nested", "completion callback of post #%d ran while another handler, callback "
                                 "or context was still running (re-entrant process_event_queue)" % o[1])
                self.on_callback(o[1], o[2], o[3])
            elif o[0] == "Q":
                if o[1] or o[2]:
                    raise Reject("queue-not-drained", "a context starts (or the run ends) while event_queue has %d and "
                                 "callback_queue %d entries" % (o[1], o[2]))
        if self.expect:
            raise Reject("inline-callback-missing", "procedure %d was not run inline" % self.expect[0])
        self.task_obs_guard()
        self.end_turn()
        t = self.task
        if t is not None and not t["finished"] and not t["waiting"]:
            raise Reject("callback-missed", "the task of queue post #%d neither finished nor waits" % t["post"]["id"])
        # every scripted context ran (the order among contexts that are due at the same instant is open)
        xs = [o[1] for o in trace if o[0] == "X" and o[2][0] == "t"]
        pos = 0
        for g in turn_groups(self.case):
            if sorted(xs[pos:pos + len(g)]) != sorted(p for _, p in g):
                raise Reject("context-not-run", "scripted contexts %s; contexts that ran %s" % (sorted(p for _, p in g), xs[pos:pos + len(g)]))
            pos += len(g)
        if pos != len(xs):
            raise Reject("context-not-run", "unexpected contexts %s" % xs[pos:])
        if sorted(self.delays) != sorted(out.get("pending", [])):
            raise Reject("delay-table", "pending delays %s, expected %s" % (sorted(out.get("pending", [])), sorted(self.delays)))


def truthy(r):
    if r[0] == "none":
        return False
    if r[0] in ("b", "z"):
        return bool(r[1])
    if r[0] in ("wait",):
        return False
    if r[0] == "mp":
        return True          # {'_min_priority': {...}} is a non-empty dict
    return bool(r[1])


def accept(case, out, fastpath):
    try:
        Acceptor(case, fastpath).walk(out["trace"], out)
        return None
    except Reject as rj:
        return {"sig": rj.sig, "what": rj.what}


def oracle(case, out):
    if out.get("err") is not None:
        return [{"sig": "exception", "what": "event dispatch raised: %s" % out["err"]}]
    strict = accept(case, out, False)
    if strict is None:
        return []
    fast = accept(case, out, True)
    if fast is None:
        # exactly what the recorded defect produces: the trace is accepted once posts that had neither a callback nor a
        # registered handler at post time are taken out, and rejected when they are kept
        return [{"sig": "fastpath-drop-late-registration",
                 "what": "an event posted when it had no handler (and no callback) is dropped at post time; a handler "
                         "registered before its dispatch would have begun is not called (%s)" % strict["what"]}]
    return [fast]


# ------------------------------------------------------------------------------------------------
def shrink(case):
    sc = case["script"]
    turns = case["turns"]
    if len(turns) > 1:
        for i in range(len(turns)):
            yield dict(case, turns=turns[:i] + turns[i + 1:])
    for p in sorted(sc, key=int):
        progs = sc[p]
        for j in range(len(progs)):
            acts = progs[j]["acts"]
            for k in range(len(acts)):
                np = progs[:j] + [{"acts": acts[:k] + acts[k + 1:], "ret": progs[j]["ret"]}] + progs[j + 1:]
                yield dict(case, script=dict(sc, **{p: np}))
            if progs[j]["ret"] != ["none"]:
                np = progs[:j] + [{"acts": acts, "ret": ["none"]}] + progs[j + 1:]
                yield dict(case, script=dict(sc, **{p: np}))
    for p in sorted(sc, key=int):
        for j, pr in enumerate(sc[p]):
            for k, a in enumerate(pr["acts"]):
                small = None
                if a[0] == "post" and (a[4] or a[3] is not None):
                    small = ["post", a[1], a[2], None if not a[4] else a[3], []]
                elif a[0] == "add" and (a[5] or a[6] or a[7] or a[8]):
                    small = ["add", a[1], a[2], a[3], a[4], 0, 0, [], None, a[9] if len(a) > 9 else 0]
                if small is not None:
                    np = sc[p][:j] + [{"acts": pr["acts"][:k] + [small] + pr["acts"][k + 1:], "ret": pr["ret"]}] + sc[p][j + 1:]
                    yield dict(case, script=dict(sc, **{p: np}))
    for t in range(len(turns)):
        if turns[t][0] == "g":
            g = turns[t][1]
            if len(g) > 2:
                for m in range(len(g)):
                    yield dict(case, turns=turns[:t] + [["g", g[:m] + g[m + 1:]]] + turns[t + 1:])
            yield dict(case, turns=turns[:t] + [[1, m[1]] for m in g] + turns[t + 1:])
        elif turns[t][0] != 0:
            yield dict(case, turns=turns[:t] + [[0, turns[t][1]]] + turns[t + 1:])


def nontrivial(case, out):
    tr = out.get("trace", [])
    depth = False
    multi = False
    run = 0
    last = None
    for o in tr:
        if o[0] == "I":
            run = run + 1 if last == o[3] else 1
            last = o[3]
            if run >= 2:
                multi = True
        else:
            last = None
            run = 0
    # an Invoke after the first one of a turn that belongs to a different event => posted from inside
    seen_ev = set()
    for o in tr:
        if o[0] == "X":
            seen_ev = set()
        elif o[0] == "I":
            seen_ev.add(o[3])
        if len(seen_ev) >= 2:
            depth = True
    return depth and multi


def nontrivial_q(case, out):
    inv = [o for o in out.get("trace", []) if o[0] == "I" and o[3] == case.get("qev")]
    return len(inv) >= 2 and any(o[0] == "C" for o in out.get("trace", []))


def describe(case):
    k = case["turns"][0][0] if case["turns"] else 0
    return "%s turns=%d ctx=%s%s" % (case.get("flavour", "bus"), len(case["turns"]),
                                     CTX_NAMES[k] if isinstance(k, int) else "group",
                                     " same-instant" if any(t[0] == "g" for t in case["turns"]) else "")


def widened_search(seed):
    """oracle-only search with thorough-size scripts, used when a proof or the correspondence breaks"""
    import random
    rng = random.Random((seed * 7919) ^ 0xC01)
    for i in range(6000):
        q = i % 4 == 3
        c = gen_case(rng, "thorough", i, queue=q)
        o = run_impl(c)
        for f in oracle(c, o):
            if f["sig"] != "fastpath-drop-late-registration":
                return {"sig": f["sig"], "what": f["what"], "case": c, "suite": "queue" if q else "dispatch"}
    return None


SUITES = [
    Suite("dispatch", gen_case, run_impl, HDR, coq_case, oracle, shrink, nontrivial,
          {"quick": 900, "thorough": 16000}, worker_init=worker_init, shard=100, describe=describe),
    Suite("queue", gen_queue, run_impl, HDRQ, coq_case, oracle, shrink, nontrivial_q,
          {"quick": 300, "thorough": 5000}, worker_init=worker_init, shard=100, describe=describe),
]
